"""Shared machinery of /verif/bin/check: TLC runner + output parser, overlay builder and Go
driver runner, verdict collection, known-findings matching, evidence writer.

Exit codes of a check: 0 = everything explored conformed, 1 = a disagreement observed on the
real code (VIOLATION line printed), 2 = the machinery itself failed (TLC error, time-out,
driver does not build/run, vacuous model) - never reported as a violation.
"""
import json, os, re, shutil, subprocess, sys, time, glob, hashlib

VERIF = os.path.dirname(os.path.dirname(os.path.abspath(__file__)))
REPO = os.environ.get("VERIF_REPO", "/repo")
SPEC = os.path.join(VERIF, "spec")
HARNESS = os.path.join(VERIF, "harness")
JAR = "/opt/veriftools/tla/tla2tools.jar:/opt/veriftools/tla/CommunityModules-deps.jar"
NCPU = os.cpu_count() or 4


def maxpar():
    """Parallelism cap: VERIF_MAXPAR or the file /tmp/verif_maxpar (used while several checks are
    being developed side by side on one machine); default = number of CPUs."""
    try:
        if os.environ.get("VERIF_MAXPAR"):
            return max(1, int(os.environ["VERIF_MAXPAR"]))
        if os.path.exists("/tmp/verif_maxpar"):
            return max(1, int(open("/tmp/verif_maxpar").read().strip()))
    except Exception:
        pass
    return NCPU

GOENV = dict(GOFLAGS="-mod=mod", GOPROXY="off", GOSUMDB="off", GOTOOLCHAIN="local")


class Infra(Exception):
    """The machinery failed; exit 2."""


def log(*a):
    print("[check]", *a, file=sys.stderr, flush=True)


# --------------------------------------------------------------------------- cfg rendering

def tla_val(v):
    if isinstance(v, bool):
        return "TRUE" if v else "FALSE"
    if isinstance(v, int):
        return str(v)
    if isinstance(v, str):
        return v  # already TLA+ text (model value, set expression, quoted string)
    if isinstance(v, (list, tuple, set, frozenset)):
        return "{" + ", ".join(tla_val(x) for x in v) + "}"
    raise TypeError(v)


def render_cfg(spec=None, init=None, next=None, constants=None, invariants=(), properties=(),
               constraints=(), action_constraints=(), view=None, postcondition=None,
               check_deadlock=False, symmetry=None, alias=None):
    out = []
    if spec:
        out.append("SPECIFICATION %s" % spec)
    if init:
        out.append("INIT %s" % init)
    if next:
        out.append("NEXT %s" % next)
    if constants:
        # every constant is bound through a definition in the generated MC module (cfg files
        # accept only literals; expressions such as 0..3 need a definition)
        out.append("CONSTANTS")
        for k, v in constants.items():
            out.append("  %s <- mc_%s" % (k, k))
    for kw, items in (("INVARIANT", invariants), ("PROPERTY", properties), ("CONSTRAINT", constraints),
                      ("ACTION_CONSTRAINT", action_constraints)):
        for i in items:
            out.append("%s %s" % (kw, i))
    if view:
        out.append("VIEW %s" % view)
    if symmetry:
        out.append("SYMMETRY %s" % symmetry)
    if alias:
        out.append("ALIAS %s" % alias)
    if postcondition:
        out.append("POSTCONDITION %s" % postcondition)
    out.append("CHECK_DEADLOCK %s" % ("TRUE" if check_deadlock else "FALSE"))
    return "\n".join(out) + "\n"


# --------------------------------------------------------------------------- TLC

class TlcResult:
    def __init__(self):
        self.rc = None
        self.out = ""
        self.generated = 0
        self.distinct = 0
        self.queue = 0
        self.depth = 0
        self.errors = []          # "Error: ..." lines
        self.violated = None      # invariant / property name
        self.printed = []         # PrintT'ed JSON strings (decoded python objects if parse_json)
        self.coverage = {}        # action -> (distinct, total)
        self.wall = 0.0
        self.timed_out = False
        self.trace_text = ""      # counterexample text, if any
        self.registers = {}

    @property
    def ok(self):
        return self.rc == 0 and not self.errors and not self.timed_out


_re_states = re.compile(r"^(\d+) states generated, (\d+) distinct states found, (\d+) states left on queue")
_re_depth = re.compile(r"The depth of the complete state graph search is (\d+)")
_re_cov = re.compile(r"^<(\w+) line (\d+), col (\d+) to line (\d+), col (\d+) of module (\w+)>: (\d+):(\d+)")
_re_viol = re.compile(r"Error: (?:Invariant|Action property|Temporal properties?) ?(\S*) (?:is|was|were) violated")


def decode_tla_string(line):
    """PrintT of a TLA+ string shows it in double quotes with \\\" and \\\\ escapes."""
    s = line.strip()
    if len(s) >= 2 and s[0] == '"' and s[-1] == '"':
        body = s[1:-1]
        return body.replace('\\"', '"').replace("\\\\", "\\")
    return None


class Ctx:
    def __init__(self, pid, tier, seed):
        self.pid = pid
        self.tier = tier
        self.seed = seed
        self.t0 = time.time()
        # VERIF_BUILD_SUFFIX lets two runs of the same check (e.g. against two trees) coexist
        self.build = os.path.join(VERIF, "build", pid + os.environ.get("VERIF_BUILD_SUFFIX", ""))
        shutil.rmtree(self.build, ignore_errors=True)
        os.makedirs(self.build, exist_ok=True)
        self.ntlc = 0
        self.ngo = 0
        # accumulated evidence
        self.states = 0
        self.transitions = 0
        self.traces = 0
        self.behaviours = 0
        self.steps = 0
        self.samples = []
        self.tlc_runs = []
        self.go_runs = []
        self.counters = {}
        self.assumptions = []
        self.notes = {}
        self.exhaustive = None
        self.disagreements = []   # dicts: key, msg, case(raw), step, source
        self.known = [k for k in load_known() if k.get("property") == pid and k.get("status", "open") == "open"]

    @property
    def quick(self):
        return self.tier == "quick"

    # ------------------------------------------------------------------ TLC
    def tlc(self, module, cfg, *, constants=None, defs=None, name=None, workers=None, simulate=None, depth=None, timeout=600,
            coverage=False, dfs=False, extra=(), files=None, want_json=True, heap=None, keep=False,
            allow_violation=False, print_prefixes=('"[', '"{')):
        """Run TLC on spec/<module>.tla with the given cfg text in a scratch copy of spec/.
        files: extra files (name -> path or bytes) to place next to the spec (e.g. trace.ndjson).
        Returns TlcResult; raises Infra on time-out or TLC errors other than a property violation
        (violations are returned to the caller when allow_violation, else also Infra)."""
        self.ntlc += 1
        name = name or "%s-%d" % (module, self.ntlc)
        wd = os.path.join(self.build, "tlc-" + name)
        shutil.rmtree(wd, ignore_errors=True)
        os.makedirs(wd)
        for f in glob.glob(os.path.join(SPEC, "*.tla")):
            shutil.copy(f, wd)
        for fn, src in (files or {}).items():
            dst = os.path.join(wd, fn)
            if isinstance(src, bytes):
                open(dst, "wb").write(src)
            elif isinstance(src, str) and os.path.exists(src):
                if os.path.abspath(src) != os.path.abspath(dst):
                    shutil.copy(src, dst)
            else:
                open(dst, "w").write(src)
        root = "MC_" + module
        mc = ["---- MODULE %s ----" % root, "EXTENDS %s" % module]
        for k, v in (constants or {}).items():
            mc.append("mc_%s == %s" % (k, tla_val(v)))
        for k, v in (defs or {}).items():
            mc.append("%s == %s" % (k, v))
        mc.append("====")
        open(os.path.join(wd, root + ".tla"), "w").write("\n".join(mc) + "\n")
        open(os.path.join(wd, root + ".cfg"), "w").write(cfg)
        if workers is None:
            workers = min(NCPU, 8)
        workers = max(1, min(workers, maxpar()))
        cmd = ["java", "-Xmx%s" % (heap or "6g")]
        cmd += ["-XX:+UseParallelGC", "-Xss64m"]
        if dfs:
            cmd.append("-Dtlc2.tool.queue.IStateQueue=StateDeque")
        cmd += ["-cp", JAR, "tlc2.TLC", "-metadir", os.path.join(wd, "meta"), "-workers", str(workers),
                "-config", root + ".cfg", "-noGenerateSpecTE"]
        if simulate is not None:
            cmd += ["-simulate", "num=%d" % simulate, "-depth", str(depth or 100), "-seed", str(self.seed)]
        if coverage:
            cmd += ["-coverage", "1"]
        cmd += list(extra)
        cmd.append(root + ".tla")
        r = TlcResult()
        t0 = time.time()
        outp = os.path.join(wd, "tlc.out")
        with open(outp, "w") as fo:
            try:
                p = subprocess.run(cmd, cwd=wd, stdout=fo, stderr=subprocess.STDOUT, timeout=timeout)
                r.rc = p.returncode
            except subprocess.TimeoutExpired:
                r.timed_out = True
                r.rc = -1
        r.wall = time.time() - t0
        in_trace = False
        trace_lines = []
        with open(outp, errors="replace") as fi:
            for line in fi:
                if want_json and line.startswith(print_prefixes):
                    s = decode_tla_string(line)
                    if s is not None:
                        r.printed.append(s)
                        continue
                m = _re_states.match(line)
                if m:
                    r.generated, r.distinct, r.queue = int(m.group(1)), int(m.group(2)), int(m.group(3))
                    continue
                m = _re_depth.search(line)
                if m:
                    r.depth = int(m.group(1))
                if line.startswith("Error:"):
                    r.errors.append(line.strip())
                    mv = _re_viol.search(line)
                    if mv:
                        r.violated = mv.group(1) or "property"
                    if "Deadlock reached" in line:
                        r.violated = "Deadlock"
                    if "Postcondition" in line and "is false" in line:
                        r.violated = "Accepted(postcondition)"
                    in_trace = True
                if in_trace and len(trace_lines) < 400:
                    trace_lines.append(line.rstrip("\n"))
                m = _re_cov.match(line)
                if m:
                    r.coverage[m.group(1)] = (int(m.group(7)), int(m.group(8)))
                if line.startswith('<<"VREG"'):
                    mr = re.match(r'<<"VREG", "(\w+)", (-?\d+)>>', line)
                    if mr:
                        r.registers[mr.group(1)] = int(mr.group(2))
        r.trace_text = "\n".join(trace_lines)
        # keep only the tail of big outputs on disk
        if not keep:
            shutil.rmtree(os.path.join(wd, "meta"), ignore_errors=True)
            try:
                if os.path.getsize(outp) > 8 << 20:
                    with open(outp, errors="replace") as fi:
                        head = fi.read(200000)
                    open(outp, "w").write(head + "\n...[truncated by vlib]...\n")
            except OSError:
                pass
        self.tlc_runs.append(dict(name=name, module=module, mode=("simulate" if simulate is not None else "bfs"),
                                  generated=r.generated, distinct=r.distinct, depth=r.depth, rc=r.rc,
                                  wall_s=round(r.wall, 2), printed=len(r.printed), violated=r.violated))
        self.states += r.distinct
        self.transitions += r.generated
        log("tlc %s: rc=%s generated=%d distinct=%d printed=%d %.1fs%s" % (
            name, r.rc, r.generated, r.distinct, len(r.printed), r.wall,
            (" VIOLATED " + str(r.violated)) if r.violated else ""))
        if r.timed_out:
            raise Infra("TLC %s timed out after %ss" % (name, timeout))
        if r.violated and allow_violation:
            return r
        if r.rc != 0 or r.errors:
            tail = subprocess.run(["tail", "-n", "40", outp], capture_output=True, text=True).stdout
            raise Infra("TLC %s failed rc=%s errors=%s\n%s" % (name, r.rc, r.errors[:3], tail))
        return r

    def check_coverage(self, r, must_fire):
        """Vacuity guard: every named action must have been taken at least once."""
        missing = [a for a in must_fire if r.coverage.get(a, (0, 0))[1] == 0]
        if missing:
            raise Infra("vacuous model: actions never taken: %s (coverage keys: %s)" % (missing, sorted(r.coverage)))

    # ------------------------------------------------------------------ cases
    def write_cases(self, name, cases):
        """cases: iterable of JSON strings (already serialized) or python objects."""
        path = os.path.join(self.build, name)
        n = 0
        with open(path, "w") as f:
            for c in cases:
                if not isinstance(c, str):
                    c = json.dumps(c, separators=(",", ":"))
                f.write(c)
                f.write("\n")
                n += 1
        return path, n

    # ------------------------------------------------------------------ Go drivers
    def overlay(self, mapping):
        """mapping: path relative to /repo -> path relative to /verif/harness. Only adds files."""
        repl = {}
        kitdir = os.path.join(HARNESS, "kit")
        for f in os.listdir(kitdir):
            if f.endswith(".go"):
                repl[os.path.join(REPO, "internal/verifkit", f)] = os.path.join(kitdir, f)
        for dst, src in mapping.items():
            d = os.path.join(REPO, dst)
            if os.path.exists(d):
                raise Infra("overlay would replace an existing file of /repo: %s" % dst)
            s = src if os.path.isabs(src) else os.path.join(HARNESS, src)
            if not os.path.exists(s):
                raise Infra("overlay source missing: %s" % s)
            repl[d] = s
        path = os.path.join(self.build, "overlay-%d.json" % (self.ngo + 1))
        json.dump({"Replace": repl}, open(path, "w"), indent=1)
        return path

    def go_test(self, pkg, mapping, run, *, env=None, race=False, timeout=900, name=None, cwd=None,
                gomaxprocs=None, extra=(), tags="verif"):
        """Build and run an overlaid driver test inside /repo's module. Returns (rc, output)."""
        self.ngo += 1
        name = name or "go-%d" % self.ngo
        ov = self.overlay(mapping)
        cmd = ["go", "test", "-tags", tags, "-vet=off", "-overlay", ov, "-count=1", "-timeout", "%ds" % timeout]
        if race:
            cmd.append("-race")
        cmd += ["-run", run] + list(extra) + [pkg]
        e = dict(os.environ)
        e.update(GOENV)
        e["VERIF_SEED"] = str(self.seed)
        e["VERIF_TIER"] = self.tier
        e["VERIF_BUILD"] = self.build
        if gomaxprocs:
            e["GOMAXPROCS"] = str(gomaxprocs)
        e.update({k: str(v) for k, v in (env or {}).items()})
        t0 = time.time()
        outp = os.path.join(self.build, name + ".out")
        with open(outp, "w") as fo:
            try:
                p = subprocess.run(cmd, cwd=cwd or REPO, env=e, stdout=fo, stderr=subprocess.STDOUT, timeout=timeout + 60)
                rc = p.returncode
            except subprocess.TimeoutExpired:
                rc = -9
        wall = time.time() - t0
        out = open(outp, errors="replace").read()
        self.go_runs.append(dict(name=name, pkg=pkg, run=run, rc=rc, race=race, wall_s=round(wall, 2)))
        log("go %s: %s %s rc=%s %.1fs" % (name, pkg, run, rc, wall))
        return rc, out

    def go_build(self, pkg, mapping, *, race=False, name=None, tags="verif", timeout=900):
        """Compile the overlaid test binary of one package of /repo (current working tree)."""
        self.ngo += 1
        name = name or "drv-%d" % self.ngo
        ov = self.overlay(mapping)
        binp = os.path.join(self.build, name + ".test")
        cmd = ["go", "test", "-c", "-o", binp, "-tags", tags, "-vet=off", "-overlay", ov]
        if race:
            cmd.append("-race")
        cmd.append(pkg)
        e = dict(os.environ)
        e.update(GOENV)
        t0 = time.time()
        p = subprocess.run(cmd, cwd=REPO, env=e, capture_output=True, text=True, timeout=timeout)
        log("go build %s: %s rc=%s %.1fs" % (name, pkg, p.returncode, time.time() - t0))
        if p.returncode != 0 or not os.path.exists(binp):
            raise Infra("driver %s does not build against the current tree:\n%s" % (name, (p.stdout + p.stderr)[-4000:]))
        return binp

    def replay(self, pkg, mapping, run, cases_path, *, label, env=None, race=False, timeout=900,
               gomaxprocs=None, source="replay", tags="verif", shards=1, binp=None):
        """Run a replay driver over a cases file (optionally sharded over processes) and collect
        its verdicts.  Returns (counters, bad verdicts)."""
        if binp is None:
            binp = self.go_build(pkg, mapping, race=race, name=label, tags=tags)
        pkgdir = os.path.join(REPO, pkg.lstrip("./"))
        shards = max(1, min(shards, maxpar()))
        procs = []
        t0 = time.time()
        for i in range(shards):
            outp = os.path.join(self.build, "verdicts-%s-%d.ndjson" % (label, i))
            if os.path.exists(outp):
                os.remove(outp)
            e = dict(os.environ)
            e.update(GOENV)
            e.update(VERIF_SEED=str(self.seed), VERIF_TIER=self.tier, VERIF_BUILD=self.build,
                     VERIF_CASES=cases_path or "", VERIF_OUT=outp, VERIF_SHARD=str(i), VERIF_SHARDS=str(shards))
            if gomaxprocs:
                e["GOMAXPROCS"] = str(gomaxprocs)
            e.update({k: str(v) for k, v in (env or {}).items()})
            logp = os.path.join(self.build, "%s-%d.out" % (label, i))
            fo = open(logp, "w")
            p = subprocess.Popen([binp, "-test.run", run, "-test.count=1", "-test.timeout", "%ds" % timeout],
                                 cwd=pkgdir, env=e, stdout=fo, stderr=subprocess.STDOUT)
            procs.append((p, outp, logp, fo))
        tot_cnt, tot_bad = {}, []
        for p, outp, logp, fo in procs:
            try:
                rc = p.wait(timeout=timeout + 60)
            except subprocess.TimeoutExpired:
                p.kill()
                rc = -9
            fo.close()
            out = open(logp, errors="replace").read()
            cnt, bad = self.collect(outp, rc, out, cases_path, label, source)
            for k, v in cnt.items():
                tot_cnt[k] = tot_cnt.get(k, 0) + v
            tot_bad += bad
        self.go_runs.append(dict(name=label, pkg=pkg, run=run, race=race, shards=shards,
                                 wall_s=round(time.time() - t0, 2), cases=tot_cnt.get("cases", 0)))
        log("replay %s: %s cases=%d steps=%d bad=%d %.1fs" % (label, pkg, tot_cnt.get("cases", 0),
                                                            tot_cnt.get("steps", 0), len(tot_bad), time.time() - t0))
        return tot_cnt, tot_bad

    def collect(self, outp, rc, out, cases_path, label, source):
        if not os.path.exists(outp):
            raise Infra("driver %s produced no verdict file (rc=%s)\n%s" % (label, rc, out[-3000:]))
        lines = open(outp).read().splitlines()
        if not lines or '"counters"' not in lines[-1]:
            raise Infra("driver %s died before finishing (rc=%s)\n%s" % (label, rc, out[-3000:]))
        summary = json.loads(lines[-1])
        cnt = summary["counters"]
        for k, v in cnt.items():
            self.counters[label + "." + k] = self.counters.get(label + "." + k, 0) + v
        self.behaviours += cnt.get("cases", 0)
        self.steps += cnt.get("steps", 0)
        bad = [json.loads(l) for l in lines[:-1]]
        infra = [b for b in bad if b.get("infra")]
        if infra:
            raise Infra("driver %s reported harness problems: %s" % (label, infra[:3]))
        if bad:
            raws = None
            if cases_path and os.path.exists(cases_path):
                raws = open(cases_path).read().splitlines()
            for b in bad:
                case = None
                if raws is not None and 0 <= b.get("case", -1) < len(raws):
                    case = raws[b["case"]]
                self.disagreements.append(dict(key=b.get("key", ""), msg=b.get("msg", ""), step=b.get("step"),
                                               case=case, source=source, label=label))
        if rc != 0 and not bad:
            raise Infra("driver %s exited rc=%s without reporting a disagreement\n%s" % (label, rc, out[-3000:]))
        if summary.get("bad", 0) != len(bad):
            self.notes[label + ".bad_total"] = summary.get("bad")
        return cnt, bad

    def validate_traces(self, module, trace_path, *, key_prefix, invariants=(), name=None, dfs=False,
                        timeout=900, max_rejections=6, constants=None, describe=None, heap=None):
        """code -> spec: check that a file of reset-delimited recorded histories is accepted by the
        trace specification `module` (Init/Next, CONSTRAINT HighWater, POSTCONDITION Accepted,
        register 1 = high-water mark of the event index).  A rejected history is a disagreement
        observed on the real code: it is reported, cut out, and the rest is validated again.
        Returns (histories accepted, histories rejected)."""
        lines = [x for x in open(trace_path).read().splitlines() if x.strip()]
        starts = [i for i, x in enumerate(lines) if '"e":"reset"' in x.replace(" ", "")]
        if not starts or starts[0] != 0:
            raise Infra("trace %s does not start with a reset event" % trace_path)
        total = len(starts)
        rejected = 0
        nev = len(lines)
        for attempt in range(max_rejections + 1):
            if not lines:
                break
            cfg = render_cfg(spec="Spec", constants=constants, invariants=invariants,
                             constraints=["HighWater"], postcondition="Accepted")
            r = self.tlc(module, cfg, constants=constants, name=(name or module) + "-%d" % attempt, workers=1,
                         files={"trace.ndjson": "\n".join(lines) + "\n"}, timeout=timeout, dfs=dfs,
                         allow_violation=True, want_json=False, heap=heap)
            hw = r.registers.get("hw")
            if r.violated and r.violated not in ("property",) and not r.violated.startswith("Accepted"):
                # an invariant of the specification is false in a state of an implementation trace
                hw = hw or self._trace_pos(r)
            if hw is None:
                raise Infra("trace validation %s: no high-water mark in TLC output\n%s" % (module, r.trace_text[:2000]))
            if hw >= len(lines) + 1 and not r.violated:
                break
            if hw >= len(lines) + 1 and r.violated:
                raise Infra("trace validation %s: TLC reports %s although the trace was consumed\n%s" % (module, r.violated, r.trace_text[:2000]))
            # first event that no behaviour of the specification explains: index hw (1-based)
            starts = [i for i, x in enumerate(lines) if '"e":"reset"' in x.replace(" ", "")]
            seg = max(i for i in starts if i <= hw - 1)
            nxt = min([i for i in starts if i > seg] + [len(lines)])
            segment = lines[seg:nxt]
            first_bad = hw - 1 - seg
            rejected += 1
            kind = ""
            try:
                kind = json.loads(segment[0]).get("kind", "")
            except Exception:
                pass
            ev = segment[first_bad] if first_bad < len(segment) else "(end)"
            extra = describe(segment, first_bad) if describe else ""
            self.disagree("%s:%s:%s" % (key_prefix, kind, self._evname(ev)),
                          "history rejected by %s at its event #%d %s%s (no behaviour of the specification explains it; "
                          "invariant=%s)" % (module, first_bad, ev, extra, r.violated),
                          case=json.dumps(segment), step=first_bad, source="trace")
            lines = lines[:seg] + lines[nxt:]
            if attempt == max_rejections:
                self.notes["trace_validation_stopped_after"] = max_rejections
        self.traces += total
        self.notes.setdefault("trace_events", 0)
        self.notes["trace_events"] += nev
        return total - rejected, rejected

    @staticmethod
    def _evname(ev):
        try:
            d = json.loads(ev)
            return str(d.get("e", "")) + (":" + str(d.get("op")) if "op" in d else "")
        except Exception:
            return "end"

    @staticmethod
    def _trace_pos(r):
        m = re.findall(r"/\\ l = (\d+)", r.trace_text)
        return int(m[-1]) if m else None

    def disagree(self, key, msg, case=None, step=None, source="trace"):
        self.disagreements.append(dict(key=key, msg=msg, step=step, case=case, source=source, label=source))

    # ------------------------------------------------------------------ finish
    def finish(self, level="model_checking", rule="", extra_cov=None):
        viol, known_hits = [], {}
        for d in self.disagreements:
            k = match_known(self.known, d)
            if k is not None:
                known_hits.setdefault(k["key"], [k, 0])[1] += 1
            else:
                viol.append(d)
        for key, (k, n) in known_hits.items():
            print("KNOWN-FINDING: property=%s %s [key=%s, reproduced %d times]" % (self.pid, k["what"], key, n))
        rc = 0
        if viol:
            rc = 1
            seen = {}
            for d in viol:
                seen.setdefault(d["key"], []).append(d)
            for i, (key, ds) in enumerate(sorted(seen.items())):
                d = ds[0]
                rdir = os.path.join(VERIF, "build", "replays")   # survives the next run's wipe of build/<pid>
                os.makedirs(rdir, exist_ok=True)
                rp = os.path.join(rdir, "%s%s-%s-%d.json" % (self.pid, os.environ.get("VERIF_BUILD_SUFFIX", ""), self.tier, i))
                json.dump(dict(property=self.pid, key=key, msg=d["msg"], step=d["step"], source=d["source"],
                               label=d.get("label"), case=d["case"], count=len(ds), seed=self.seed, tier=self.tier),
                          open(rp, "w"), indent=1)
                print("VIOLATION property=%s replay=%s" % (self.pid, rp))
                print("  key=%s count=%d: %s" % (key, len(ds), (d["msg"] or "")[:600]))
        cov = dict(states=self.states, transitions=self.transitions,
                   # both binding directions: recorded implementation histories accepted by the trace
                   # spec (code -> spec) + TLC-generated behaviours executed on the implementation with
                   # every step compared (spec -> code); the two parts are given separately below
                   traces_validated_against_impl=self.traces + self.behaviours,
                   impl_histories_validated_by_tlc=self.traces,
                   samples=self.samples[:6] or ["(no sample recorded)"],
                   behaviours_replayed=self.behaviours, steps_compared=self.steps,
                   tlc_runs=self.tlc_runs, go_runs=self.go_runs, counters=self.counters,
                   rule=rule, known_findings_reproduced=sorted(known_hits))
        if self.exhaustive is not None:
            cov["exhaustive"] = bool(self.exhaustive)
        cov.update(self.notes)
        cov.update(extra_cov or {})
        ev = dict(property_id=self.pid, tier=self.tier, seed=self.seed, level=level, coverage=cov,
                  assumptions=self.assumptions, wall_s=round(time.time() - self.t0, 2), violations=len(viol))
        evdir = os.environ.get("VERIF_EVIDENCE_DIR") or os.path.join(VERIF, "evidence")
        os.makedirs(evdir, exist_ok=True)
        json.dump(ev, open(os.path.join(evdir, self.pid + ".json"), "w"), indent=1, sort_keys=True)
        log("%s %s: states=%d transitions=%d behaviours=%d steps=%d traces=%d violations=%d known=%d wall=%.0fs" % (
            self.pid, self.tier, self.states, self.transitions, self.behaviours, self.steps, self.traces,
            len(viol), len(known_hits), time.time() - self.t0))
        return rc


# --------------------------------------------------------------------------- known findings

def load_known():
    p = os.path.join(VERIF, "known_findings.json")
    if not os.path.exists(p):
        return []
    return json.load(open(p)).get("findings", [])


def match_known(known, d):
    for k in known:
        if k.get("status", "open") != "open":
            continue
        if k["key"] == d.get("key"):
            return k
    return None


def sample_of(lst, n=3):
    out = []
    if not lst:
        return out
    step = max(1, len(lst) // n)
    for i in range(0, len(lst), step):
        x = lst[i]
        if isinstance(x, str):
            try:
                x = json.loads(x)
            except Exception:
                pass
        out.append(x)
        if len(out) >= n:
            break
    return out
