"""C02 - server guards (REST chain: MaxConns / timeout / recover / MaxBytes; unary RPC: timeout / crash).
spec/ServerGuards.tla (abstract: Expected sets + event machine), spec/TimeoutWriterImpl.tla (mechanism of
api/handler/timeouthandler.go), spec/ServerGuardsGen.tla (scenario generator) -> replay through the chain
that api.NewServer/engine.bindRoute composes (recorder, loopback httptest server, started api.Server) and
through a real rpc server on loopback (gRPC code and, for late handlers, the time the answer arrives)."""
import json, os
from vlib import core

PKG = "./api"
OVERLAY = {"api/zz_verif_c02_test.go": "c02/server_guards_test.go"}
RPKG = "./rpc"
ROVERLAY = {"rpc/zz_verif_c02_test.go": "c02/rpc_guards_test.go"}

META = dict(
    text="Model-based scenario replay. spec/ServerGuards.tla defines, for a request (declared Content-Length, handler script of "
         "SetHeader/WriteHeader/Write steps ended by Finish or Panic, position of the deadline or client cancel inside the script) "
         "and a configuration, the SET of client-visible responses the statement allows, plus an event machine (admission, handler "
         "steps, deadline) model-checked for: at most MaxConns inside, exactly one response, response = closed-form Expected, 413/503 "
         "never reach the handler, nobody left hanging. spec/TimeoutWriterImpl.tla models timeouthandler.go (select over "
         "panicChan/done/ctx.Done, timeoutWriter under tw.mu, RecoverHandler inside) and is model-checked over all interleavings of "
         "all scripts up to 3-4 steps against the same Expected sets. TLC enumerates every scenario up to 2-3 script steps, MaxConns "
         "enter/release histories and the RPC scenarios; Go drivers serve them through the chain composed by api.NewServer + "
         "engine.bindRoutes on a ResponseRecorder, on a loopback httptest.Server and on a started api.Server (http.Server settings of "
         "engine.withTimeout included), and through rpc.NewServer / rpc.setupInterceptors on loopback gRPC, and compare status, handler "
         "headers and handler bytes (gRPC code) with the allowed set. Scripts may also end in WriteHeader(0/99/1000), a panic raised "
         "inside the response writer, or in a panic with an error value, a runtime error (nil map, index, nil dereference), "
         "http.ErrAbortHandler bare or wrapped, a custom (error) type. The configuration has a `timeout` dimension: scenarios "
         "without time-out guard are served by a second engine built with Config.Timeout = 0, and every admitted in-time scenario "
         "is also served through handler.RecoverHandler alone (SubChains). Header steps carry VALUES (Set, Add of two values, a raw "
         "non-canonical map entry, before and after the first commit; HdrVals): the full header multimap of every in-time handler "
         "response is compared on every transport, with and without the time-out guard (key ...:header-values). The VALUE of the "
         "route time-out is a dimension (RtCfg / EffTimeoutUs: WithTimeout 500 us, 1 ms, 2.5 ms or none x Config.Timeout 0 / 2000 ms): "
         "a positive route value, however small, is a deadline - a handler that outlives it (it waits for ctx.Done; failing that the "
         "driver lets it go 3 s + 2 T after the request, a disagreement after that must reproduce 3 times) gets the time-out response "
         "and none of its late output reaches the client (classes rt-*), and the deadline the handler finds in its context never lies "
         "before request-sent + route time-out (key ...:deadline-early). A request without any response for 20 s is reported as a hung client with the goroutines "
         "inside the chain. RPC handlers that overrun may honour their context, ignore it for 1.5 s or never end: the answer must "
         "arrive at the deadline/cancel (client within 1 s of a 150 ms time-out; observer interceptor within 1 s of the cancel). "
         "RPC scenarios carry the VALUE a panicking handler throws (string, error, wrapped error, nil-map / nil-pointer / index "
         "runtime errors, custom type, status.Error(NotFound / DeadlineExceeded), a wrapped status error, custom errors with a "
         "GRPCStatus() method answering AlreadyExists / OK) and the CHAIN (UnaryCrashInterceptor alone, around the interceptors of "
         "setupInterceptors for Timeout > 0 and for Timeout = 0 - all called in-process, where the (resp, err) pair is observed - "
         "a started server with Timeout > 0 and one with Timeout = 0): the caller always gets Internal. "
         "The panic clause is also stressed: 200k-2M concurrent panicking calls in-process through UnaryCrashInterceptor around the "
         "interceptors of the real setupInterceptors (a (nil, nil) result = panic swallowed), 6k-64k over the wire, 30k-300k concurrent "
         "panicking requests through the engine chain (all must be 500). A runtime fatal error / unrecovered panic / race report of "
         "the process hosting the REST chain is reported as C02:rest:server-crash. Handlers are gated on ctx.Done, so no verdict races a timer; "
         "real-time probes (handler ending at 0.5 T and 0.95 T of a 2 s Config.Timeout; 2 s deadline on the started server) keep "
         ">= 100 ms from every boundary, must reproduce 3 times and are discarded when the machine stalls.",
    note="Trusted: TLC, net/http and grpc-go clients, the gated handler. Not covered: the stress trace validation of DESIGN 4/C02(c) "
         "(no vhook points in timeouthandler.go) - replaced by boundary scenarios (random sleeps around a 20 ms deadline, either "
         "outcome accepted, never a mix; -race in the thorough tier); client cancel (499 / Canceled) is observed on the recorder and "
         "by a server-side observer interceptor only, not over a real HTTP connection; websocket upgrade bypass, TLS, streaming RPC (StreamCrashInterceptor shares toPanicError with the unary one), panic(nil) "
         "(go.mod says go 1.19: recover() returns nil), late RPC scenarios on the in-process chains, "
         "1xx/204/304 statuses, per-route time-outs longer than Config.Timeout on a started server; route time-out values are served on "
         "the recorder and httptest transports only, 'finishes in time' under a sub-millisecond/fractional route time-out is judged with "
         "the boundary set (either outcome), a deadline that fires EARLY is seen only through the context deadline handed to the "
         "handler (no virtual clock in context.WithTimeout); a raw header entry next to a canonical entry of the same name; handlers that "
         "outlive their deadline keep running although their MaxConns token was returned (inherent to Go; `inside` counts unanswered "
         "requests). The breaker in the chain is kept from shedding with the mathx coin hook; scenarios share one engine with "
         "MaxConns=10000. Bounds: scripts <= 2 (quick) / 3 (thorough) steps over 2 headers, 2 codes, 2-3 chunks (one 70 KB), "
         "MaxConns 1..3, histories <= 5/7 operations.",
    technique="TLA+ spec (ServerGuards + TimeoutWriterImpl) + TLC-enumerated scenarios replayed through the real REST/RPC chains",
    design="4/C02")

FINISH = dict(rule="scenarios = every final state of the one-request event machine of ServerGuards.tla (all scripts up to the bound x "
                   "every position of the deadline/cancel x Content-Length classes), every MaxConns enter/release history up to the "
                   "bound, all RPC scenarios; each is served on every transport and the client-visible response must be a member of "
                   "the specification's Expected set")

INV_SG = ["TypeOK", "ConnBound", "OneResponse", "RespExpected", "GuardedNotRun"]
INV_TW = ["OneWriter", "UnderExpected", "BranchAgrees", "NoLeak", "NoRepanic"]


def mc(ctx):
    cfgs = ("{[maxConns |-> 1, maxBytes |-> 4, timeout |-> TRUE], [maxConns |-> 2, maxBytes |-> 4, timeout |-> TRUE], "
            "[maxConns |-> 1, maxBytes |-> 4, timeout |-> FALSE]}")
    K = dict(Hdrs='{"h1"}', Codes="{201}", Chunks='{"a"}', Rids="{1,2}",
             Reqs="AllReqs({0,9},%d)" % (1 if ctx.quick else 2), Cfgs=cfgs)
    cfg = core.render_cfg(spec="Spec", constants=K, invariants=INV_SG, properties=["ResponseIsFinal"])
    ctx.tlc("ServerGuards", cfg, constants=K, name="ServerGuards-mc", workers=6, timeout=900)
    K = dict(K, Reqs="AllReqs({0,9},1)", Rids="{1,2}" if ctx.quick else "{1,2,3}", Cfgs="{[maxConns |-> 1, maxBytes |-> 4, timeout |-> TRUE]}")
    if not ctx.quick:
        K["Reqs"] = '{Req(0,<<>>,"finish"), Req(9,<<>>,"finish"), Req(0,<<WriteStep("a")>>,"panic"), Req(0,<<HdrStep("h1")>>,"panic")}'
    cfg = core.render_cfg(spec="Spec", constants=K, invariants=["TypeOK"], properties=["EventuallyAnswered"])
    ctx.tlc("ServerGuards", cfg, constants=K, name="ServerGuards-live", workers=6, timeout=900)
    for rec in ("TRUE", "FALSE"):
        K = dict(Hdrs='{"h1"}', Codes="{201,404}", Chunks='{"a"}', MaxSteps=(3 if ctx.quick and rec == "FALSE" else 4), RecoverInside=rec)
        cfg = core.render_cfg(spec="Spec", constants=K, invariants=INV_TW, properties=["QuietAfterTimeout", "Returns"])
        r = ctx.tlc("TimeoutWriterImpl", cfg, constants=K, name="TimeoutWriterImpl-" + rec, workers=6, timeout=1200, coverage=True)
        must = ["HandlerStep", "HandlerEnd", "Fire", "Select", "DoneBranch", "CtxBranch"]
        must.append("RecoverWrites" if rec == "TRUE" else "PanicBranch")
        ctx.check_coverage(r, must)


def gen(ctx, name, mode, **kw):
    """one generator run (tiny models, start-up dominated: 2 workers, several runs side by side - see gens())"""
    K = dict(Hdrs="{}", Codes="{}", Chunks="{}", Rids="{1}", Reqs='{Req(0,<<>>,"finish")}',
             Cfgs="{[maxConns |-> 1, maxBytes |-> 16, timeout |-> TRUE]}", Mode='"%s"' % mode, MaxOps=0)
    K.update(kw)
    cfg = core.render_cfg(spec="GSpec", constants=K, invariants=["Emit"])
    r = ctx.tlc("ServerGuardsGen", cfg, constants=K, name=name, workers=2, timeout=1200)
    out, seen = [], set()
    for s in r.printed:
        if s not in seen:
            seen.add(s)
            out.append(s)
    return out


NT_CFG = "{[maxConns |-> 1, maxBytes |-> 16, timeout |-> FALSE]}"


def gens(ctx, jobs):
    """jobs: name -> (mode, kw); the generator runs of one stage, three at a time"""
    from concurrent.futures import ThreadPoolExecutor
    with ThreadPoolExecutor(max_workers=3) as pool:
        futs = {n: pool.submit(gen, ctx, n, m, **kw) for n, (m, kw) in jobs.items()}
        return {n: f.result() for n, f in futs.items()}


def rest_cases(ctx):
    """script + boundary + probe + conns cases for the api driver (python objects)."""
    cases = []
    jobs = {}
    if ctx.quick:
        jobs["gen-script"] = ("script", dict(Hdrs='{"h1","h2"}', Codes="{201,404}", Chunks='{"a","b","big"}', Reqs="AllReqs({0},2)"))
    else:
        jobs["gen-script"] = ("script", dict(Hdrs='{"h1","h2"}', Codes="{201,404}", Chunks='{"a","big"}', Reqs="AllReqs({0},3)"))
    # Content-Length classes against two MaxBytes settings
    jobs["gen-cl"] = ("script", dict(Hdrs='{"h1"}', Codes="{201}", Chunks='{"a"}',
                      Reqs='{Req(c, <<HdrStep("h1"), StatusStep(201), WriteStep("a")>>, t) : c \\in {0,15,16,17,63,64,65,300}, t \\in Terms}',
                      Cfgs="{[maxConns |-> 1, maxBytes |-> 16, timeout |-> TRUE], [maxConns |-> 1, maxBytes |-> 64, timeout |-> TRUE]}"))
    # handlers that end in WriteHeader(invalid status code) - a panic raised inside the response writer - or in a panic
    # with another kind of value (error, runtime errors, http.ErrAbortHandler bare/wrapped, custom types)
    jobs["gen-badcode"] = ("script", dict(Hdrs='{"h1"}', Codes="{201}", Chunks='{"a","big"}',
                           Reqs="AllReqsT({0}, %d, BadTerms \\cup PanicTerms)" % (1 if ctx.quick else 2)))
    # the chain composed without the time-out guard (Config.Timeout = 0, no route time-out): every way a script ends
    jobs["gen-notimeout"] = ("script", dict(Hdrs='{"h1"}', Codes="{201}", Chunks='{"a","big"}', Cfgs=NT_CFG,
                             Reqs="AllReqsT({0,17}, %d, Terms \\cup BadTerms \\cup PanicTerms)" % (1 if ctx.quick else 2)))
    # multi-valued response headers (Set / Add of two values / a raw non-canonical entry; before and after the first
    # commit), with and without the time-out guard in the chain: the full header multimap must reach the client
    jobs["gen-hdrs"] = ("script", dict(Hdrs='{"h1"}' if ctx.quick else '{"h1","h2"}', Codes="{201}", Chunks='{"a"}',
                        Reqs="HdrReqs(2, Terms)",
                        Cfgs="{[maxConns |-> 1, maxBytes |-> 16, timeout |-> TRUE], [maxConns |-> 1, maxBytes |-> 16, timeout |-> FALSE]}"))
    # the VALUE of the route time-out: WithTimeout(500us / 1ms / 2.5ms / none) x Config.Timeout (0 / 2000 ms)
    jobs["gen-rt"] = ("script", dict(Hdrs='{"h1"}', Codes="{201}", Chunks='{"a"}',
                      Reqs='{Req(0, <<HdrStep("h1"), StatusStep(201), WriteStep("a")>>, t) : t \\in Terms} \\cup {Req(0, <<>>, "finish")}',
                      Cfgs="{RtCfg(1, 16, r, c) : r \\in {0, 500, 1000, 2500}, c \\in {0, 2000}}"))
    # MaxConns histories
    for n in (1, 2, 3):
        ops = (5 if n < 3 else 6) if ctx.quick else 7
        jobs["gen-conns-%d" % n] = ("conns", dict(Rids="1..%d" % ops, MaxOps=ops, Reqs='{Req(0,<<>>,"finish"), Req(17,<<>>,"finish")}',
                                    Cfgs="{[maxConns |-> %d, maxBytes |-> 16, timeout |-> TRUE]}" % n))
    G = gens(ctx, jobs)
    scr, cl, bad, nt = G["gen-script"], G["gen-cl"], G["gen-badcode"], G["gen-notimeout"]
    scr = [json.loads(x) for x in scr]
    cl = [json.loads(x) for x in cl]
    bad = [json.loads(x) for x in bad]
    nt = [json.loads(x) for x in nt]
    if any((m["runs"] and m["npre"] != len(m["steps"]) + 1) or m["cfg"]["timeout"] for m in nt):
        raise core.Infra("the specification lets a request miss a deadline in a chain without time-out guard")
    ctx.notes["scenarios_invalid_status"] = len(bad)
    scr += bad
    ctx.notes["scenarios_script"] = len(scr)
    ctx.notes["scenarios_content_length"] = len(cl)
    ctx.notes["scenarios_no_timeout_guard"] = len(nt)
    ctx.notes["scenarios_recover_alone"] = len([m for m in scr + cl + nt if m["sub"]])
    intime = [m for m in scr if m["npre"] == len(m["steps"]) + 1 and m["runs"]]
    # the api transport waits 2 s per deadline scenario: every one in thorough, every third in quick
    k = 0
    for m in scr + cl:
        late = m["runs"] and m["npre"] <= len(m["steps"])
        c = {x: m[x] for x in m if x != "boundary"}
        if late and m["cause"] == "deadline":
            k += 1
            if ctx.quick and k % 3 != 0:
                c["transports"] = ["rec", "http"]
        cases.append(c)
    for m in nt:
        cases.append({x: m[x] for x in m if x != "boundary"})
    cases += hdr_cases(ctx, [json.loads(x) for x in G["gen-hdrs"]])
    cases += rt_cases(ctx, [json.loads(x) for x in G["gen-rt"]])
    # boundary: handler end and deadline close to each other; union of both outcomes, from the spec
    step = 1 if not ctx.quick else 4
    nb = 0
    for i, m in enumerate(intime):
        if i % step:
            continue
        for rep in range(1 if ctx.quick else 3):
            c = {x: m[x] for x in m if x not in ("boundary", "exp")}
            c["mode"] = "boundary"
            c["exp"] = m["boundary"]
            c["transports"] = ["rec", "http"]
            c["rep"] = rep
            cases.append(c)
            nb += 1
    ctx.notes["scenarios_boundary"] = nb
    # real-time probes on the started server (Config.Timeout = 2000 ms): handler ends at 0.5 T and 0.95 T
    probe = [m for m in intime if m["term"] == "finish" and [s["op"] for s in m["steps"]] == ["status", "write"]
             and m["steps"][0]["c"] == 201 and m["steps"][1]["k"] == "a"]
    if not probe:
        raise core.Infra("no probe scenario among the generated ones")
    for d in (1000, 1900):
        c = {x: probe[0][x] for x in probe[0] if x != "boundary"}
        c["delay_ms"] = d
        c["transports"] = ["api"]
        cases.append(c)
    # the panic clause under load: the in-time, nothing-committed panic served many times concurrently (recorder path)
    pan = [m for m in intime if m["term"] == "panic" and not m["steps"]]
    if not pan:
        raise core.Infra("no plain panic scenario among the generated ones")
    # (kept out of the main replay: its load would disturb the real-time observations on the started server)
    for part in range(2 if ctx.quick else 4):
        c = {x: pan[0][x] for x in pan[0] if x != "boundary"}
        c["mode"] = "stress"
        c["n"] = 15000 if ctx.quick else 75000
        c["part"] = part
        cases.append(c)
    nconn = 0
    for n in (1, 2, 3):
        for x in G["gen-conns-%d" % n]:
            cases.append(json.loads(x))
            nconn += 1
    ctx.notes["histories_maxconns"] = nconn
    return cases


def is_late(m):
    return m["runs"] and m["npre"] <= len(m["steps"])


def hdr_cases(ctx, hd):
    """multi-valued header scenarios: every in-time one on every transport (plus RecoverHandler alone); of those that
    miss the deadline (nothing of the handler may reach the client) every third / every one, recorder + httptest"""
    out, k = [], 0
    for m in hd:
        c = {x: m[x] for x in m if x != "boundary"}
        if is_late(m):
            k += 1
            if ctx.quick and k % 3:
                continue
            c["transports"] = ["rec", "http"]
        out.append(c)
    ctx.notes["scenarios_multi_valued_headers"] = len(out)
    if not any(len(v) > 1 for m in hd for v in (m["hv"]["hi"] or {}).values()):
        raise core.Infra("no multi-valued header among the generated scenarios")
    return out


def rt_cases(ctx, rt):
    """route time-out values.  A positive route value is served on a route registered with exactly that value: the
    handlers that miss the deadline are judged as they stand; 'finishes in time' cannot be arranged against a
    sub-millisecond timer without racing it, so those scenarios get the specification's boundary set (the handler's
    response or the time-out response, never a mix); a client cancel would race the timer and is left out."""
    out = []
    for m in rt:
        r = m["cfg"]["routeUs"]
        c = {x: m[x] for x in m if x != "boundary"}
        c["transports"] = ["rec", "http"]
        if r > 0:
            if is_late(m) and m["cause"] == "cancel":
                continue
            if m["runs"] and not is_late(m):
                c["mode"], c["exp"], c["rep"] = "boundary", m["boundary"], 0
        if (m["cfg"]["effUs"] > 0) != m["cfg"]["timeout"] or (is_late(m) and not m["cfg"]["timeout"]):
            raise core.Infra("route time-out scenario inconsistent with its configuration: %s" % json.dumps(m["cfg"]))
        out.append(c)
    ctx.notes["scenarios_route_timeout_values"] = len(out)
    return out


def crash_of(ctx, label):
    """first lines of a Go runtime fatal error / unrecovered panic in the output of a replay process"""
    import glob, os, re
    for f in sorted(glob.glob(os.path.join(ctx.build, "%s-*.out" % label))):
        out = open(f, errors="replace").read()
        m = re.search(r"^(fatal error: .*|panic: .*)$", out, re.M)
        if m and "test timed out" not in m.group(1):
            return out[m.start():m.start() + 3000]
        i = out.find("WARNING: DATA RACE")     # -race builds: the chain's goroutines race on shared state
        if i >= 0:
            return out[i:i + 3000]
    return None


def guarded_replay(ctx, pkg, overlay, run, path, label, **kw):
    """The REST driver hosts the server code under test in its own process: if that process dies of a runtime fatal
    error or an unrecovered panic (e.g. 'concurrent map writes' on a header map the chain shares between the
    handler goroutine and the time-out branch), the server was taken down - a violation of the statement, not a
    harness problem.  Everything else that makes the driver fail stays an infrastructure error."""
    try:
        return ctx.replay(pkg, overlay, run, path, label=label, **kw)
    except core.Infra:
        crash = crash_of(ctx, label)
        if crash is None:
            raise
        ctx.disagree("C02:rest:server-crash",
                     "the process serving the scenarios through the real chain died while replaying %s:\n%s" % (os.path.basename(path), crash),
                     case=json.dumps(dict(mode="rerun", label=label, cases=path)), source="crash")
        return None


def run_rest(ctx, cases, label="rest", race=False, shards=6):
    path, n = ctx.write_cases(label + ".ndjson", cases)
    ctx.samples += core.sample_of([c for c in cases if c.get("mode") == "script"], 2)
    return guarded_replay(ctx, PKG, OVERLAY, "^TestVerifC02$", path, label, shards=shards, race=race, timeout=1500)


def unexpected(ctx):
    """disagreements that are not reproductions of an open known finding"""
    return [d for d in ctx.disagreements if core.match_known(ctx.known, d) is None]


def vacuity(ctx, label="rest"):
    """every class of scenario must have been served and judged on every transport (DESIGN 8.7); evaluated only when
    nothing new was found (a class whose every scenario reproduces an open known finding has no conforming observation)"""
    need = ["%s.%s" % (t, c) for t in ("rec", "http", "api") for c in ("intime", "deadline", "panic", "rejected", "conns")]
    need += ["rec.cancel", "rec.boundary", "http.boundary"]
    # the chain without time-out guard, and the recover guard alone
    need += ["%s.nt-%s" % (t, c) for t in ("rec", "http") for c in ("intime", "panic", "rejected")]
    need += ["recover.intime", "recover.panic", "recover.nt-intime", "recover.nt-panic"]
    # a multi-valued handler header compared on every transport, with and without the time-out guard
    need += ["%s.multi-header" % t for t in ("rec", "http", "api", "recover")] + ["rec.nt-multi-header", "http.nt-multi-header"]
    # every positive route time-out value, under either Config.Timeout, has answered a handler that outlived it
    need += ["rt.%dus.cfg%d.deadline" % (r, c) for r in (500, 1000, 2500) for c in (0, 2000)] + ["rt.0us.cfg2000.deadline"]
    need += ["rec.rt-deadline", "http.rt-deadline", "rec.rt-intime", "rec.rt-boundary"]
    known = {d.get("key", "") for d in ctx.disagreements if core.match_known(ctx.known, d) is not None}
    need = [k for k in need if not any(x.startswith("C02:rest:%s:" % k.replace(".", ":")) for x in known)]
    missing = [k for k in need if ctx.counters.get(label + "." + k, 0) == 0]
    if missing and not unexpected(ctx):
        raise core.Infra("vacuous replay: no conforming observation for %s" % missing)


def run_rpc(ctx):
    arr = gen(ctx, "gen-rpc", "rpc")
    cases = []
    for a in arr:
        cases += json.loads(a)
    cases.sort(key=lambda m: (m["wait"] in ("sleep", "never"), m["chain"], m["beh"], m["pv"], m["late"], m["cause"], m["wait"]))
    ctx.notes["scenarios_rpc"] = len(cases)
    ctx.notes["scenarios_rpc_panic_values_x_chains"] = len([m for m in cases if m["beh"] == "panic" and not m["late"]])
    # the panic clause under load: the in-time panicking handler, many concurrent calls
    pan = [m for m in cases if m["beh"] == "panic" and not m["late"] and m["pv"] == "string" and m["chain"] == "server"]
    if not pan:
        raise core.Infra("no in-time panic scenario among the generated RPC ones")
    st = dict(pan[0], mode="rpc-stress", n_local=(200000 if ctx.quick else 2000000), n_wire=(6400 if ctx.quick else 64000))
    cases.append(st)
    path, n = ctx.write_cases("rpc.ndjson", cases)
    ctx.samples += core.sample_of(cases, 1)
    ctx.replay(RPKG, ROVERLAY, "^TestVerifC02Rpc$", path, label="rpc", shards=1, timeout=600,
               env=dict(VERIF_C02_REPEAT=(3 if ctx.quick else 20)))
    # every chain must have judged a panicking handler, and every kind of panic value (DESIGN 8.7)
    chains = sorted({m["chain"] for m in cases})
    pvs = sorted({m["pv"] for m in cases if m["pv"] != "none"})
    missing = [k for k in ["chain.%s.panic" % c for c in chains] + ["pv." + v for v in pvs] + ["chain.%s.ok" % c for c in chains]
               if ctx.counters.get("rpc." + k, 0) == 0]
    if missing and not unexpected(ctx):
        raise core.Infra("vacuous RPC replay: no conforming observation for %s" % missing)


def run(ctx):
    import threading
    mc_err = []

    def side():
        try:
            mc(ctx)
        except BaseException as e:       # reported below, after the verdicts from the real code
            mc_err.append(e)
    mct = threading.Thread(target=side, daemon=True)
    mct.start()
    try:
        real_code(ctx)
    finally:
        mct.join()
    if mc_err and not unexpected(ctx):    # a harness problem never replaces a disagreement observed on the real code
        raise mc_err[0]
    if mc_err:
        ctx.notes["model_checking_problem"] = str(mc_err[0])[:2000]
    ctx.exhaustive = True
    ctx.assumptions += [
        "the breaker of the chain never sheds (mathx coin hook forced to 'do not drop'); adaptive shedding off (CpuThreshold=0)",
        "script scenarios share one engine with MaxConns=10000; the MaxConns guard is exercised by the conns histories",
        "a failing real-time observation on the started api.Server counts only if it reproduces 3 times and the handler/answer "
        "timing shows the machine did not stall (otherwise exit 2)",
    ]


def real_code(ctx):
    cases = rest_cases(ctx)
    stress = [c for c in cases if c.get("mode") == "stress"]
    cases = [c for c in cases if c.get("mode") != "stress"]
    if run_rest(ctx, cases) is not None:
        vacuity(ctx)
    run_rest(ctx, stress, label="rest-stress", shards=len(stress))
    if not ctx.quick:
        b = [c for c in cases if c.get("mode") == "boundary"]
        run_rest(ctx, b, label="rest-race", race=True, shards=4)
    run_rpc(ctx)


def replay(ctx, rp):
    case = json.loads(rp["case"])
    if case.get("mode") == "rerun":       # a server crash has no single case: replay the whole case file
        src = case["cases"]
        if not os.path.exists(src):
            cases = rest_cases(ctx)
            if case["label"] == "rest-race":
                cases = [c for c in cases if c.get("mode") == "boundary"]
            elif case["label"] == "rest-stress":
                cases = [c for c in cases if c.get("mode") == "stress"]
            else:
                cases = [c for c in cases if c.get("mode") != "stress"]
        else:
            cases = [json.loads(x) for x in open(src) if x.strip()]
        run_rest(ctx, cases, label=case["label"], race=(case["label"] == "rest-race"))
        return
    path, _ = ctx.write_cases("replay.ndjson", [case])
    if case.get("mode", "").startswith("rpc"):
        ctx.replay(RPKG, ROVERLAY, "^TestVerifC02Rpc$", path, label="replay", shards=1)
    else:
        ctx.replay(PKG, OVERLAY, "^TestVerifC02$", path, label="replay", shards=1)
