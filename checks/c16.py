"""C16 - batching executors (periodical, bulk, chunk).
spec/Executor.tla (abstract: exactly once, batch = run of consecutive adds in order, bounds, Wait soundness),
spec/ExecutorTrace.tla (trace acceptor), spec/PeriodicalImpl.tla (lock/inflight/guarded/commander/confirm mechanism).
Code -> spec: histories recorded from the real executors (race detector on) are validated by TLC."""
import json, os, re, subprocess, threading
from vlib import core

PKG = "./lib/executors"
OVERLAY = {"lib/executors/zz_verif_c16_test.go": "c16/executors_trace_test.go",
           "lib/executors/zz_verif_c16gen_test.go": "c16/executors_gen_test.go"}
# clients of the executors (anchors lib/store/sqlx/bulkinserter.go, lib/stat/metrics.go): same trace format, same acceptor
REC = {"internal/verifc16rec/rec.go": "c16/rec/rec.go"}
CLIENTS = {
    "inserter": dict(pkg="./lib/store/sqlx", dir="lib/store/sqlx", test="^TestVerifC16Inserter$",
                     overlay=dict(REC, **{"lib/store/sqlx/zz_verif_c16_test.go": "c16/inserter_trace_test.go"})),
    "metrics": dict(pkg="./lib/stat", dir="lib/stat", test="^TestVerifC16Metrics$",
                    overlay=dict(REC, **{"lib/stat/zz_verif_c16_test.go": "c16/metrics_trace_test.go"})),
}
INVS = ["ExactlyOnce", "InOrder", "Bounded", "Sane"]
TRACE_CONSTS = dict(Procs="0..7", Confs="{}", Sizes="{}", MaxTask=0)
LOCK = threading.Lock()       # recorder shards run side by side
IMPL_SAFETY = ["ExactlyOnce", "HeldCovered", "CmdCovered", "AllExecuted", "Contiguous", "OneLoopFlusher"]

META = dict(
    text="Trace validation against a TLA+ specification plus model checking of the hand-over mechanism: randomized "
         "concurrent scenarios (2-4 callers doing Add/Flush/Wait, hand-driven ticks, virtual-clock jumps that make the "
         "background flusher retire and be restarted) and three directed scenarios (the hand-over window of a threshold Add, "
         "the flusher's idle-quit decision racing a threshold Add, and Adds placed on the retiring tick - between that tick's "
         "empty Flush and shallQuit's lock region, through the virtual-clock read of shallQuit - after which ticks and clock "
         "jumps alone run until no flusher is left and a `rest` event asks whether anything was left behind) are run on the real "
         "PeriodicalExecutor (recording TaskContainer: AddTask/RemoveAll logged under pe.lock, Execute begin/end), "
         "BulkExecutor and ChunkExecutor (public API + execute callback) with the race detector and several GOMAXPROCS; "
         "TLC decides for every history whether it is a behaviour of spec/Executor.tla (every task executed exactly "
         "once, batches are runs of consecutive adds in order, bulk/chunk bounds, Wait returns only after every task "
         "whose Add returned before the Wait call has finished executing, nothing left at quiescence; a public call that does "
         "not return although ticks and clock jumps are kept going for a 30 s grace period closes the history with a `hang` "
         "event that the specification never allows). Every history is judged against the configuration of its own executor: "
         "scenario `multi` creates two or three executors of one kind in sequence in one process with different explicit / "
         "defaulted options (task count / byte limit, flush interval; the package's default constants stand for options left "
         "out), uses them in order, in reverse order or at the same time, fills an executor that relies on the default task "
         "count past it, and records one history per executor; the period each flusher asks its ticker for must be the "
         "configured interval. "
         "spec/PeriodicalImpl.tla (pe.lock regions, inflight, guarded, 1-slot commander, unbuffered confirmChan, "
         "wgBarrier/waitGroup, flusher select loop, shallQuit, final Flush) is model-checked over all interleavings for "
         "exactly-once, flusher-alive-while-work-pending, single loop flusher and deadlock freedom (three seeded mechanism "
         "changes are kept as expected-violation variants). Clients of the executors are recorded in the same trace "
         "format and judged by the same acceptor: sqlx.BulkInserter (fake Conn parsing the executed INSERT statements; "
         "result handler once per executed statement; Flush, 1000-row threshold and real 1 s tick as triggers; failing "
         "Execs) and stat.Metrics (reports decoded through power-of-two task durations; drops counted). "
         "spec/ExecutorGen.tla enumerates every sequential behaviour (Add/tick/Flush/Wait/idle jump) of Bulk- and "
         "ChunkExecutor up to 4-6 steps with predicted batches per step, replayed on the real executors (each between two "
         "unused decoy executors with other options; one plan runs a ChunkExecutor created without options against the "
         "generator instantiated with the package's default byte limit). The byte size of a ChunkExecutor task is a dimension of "
         "its own, in the generated behaviours and in the recorded histories: 0 (a pending batch of size-0 tasks never moves a byte "
         "counter, yet tick, Flush, Wait and the retiring flusher's final flush have to send it: stress profile `size 0 only`, "
         "size-0 Adds placed on the retiring tick) and one below / exactly at / one above the byte limit.",
    note="Trusted: TLC, the tracer's global sequence number (container events are emitted under pe.lock; inv before / ret "
         "after each call), Go race detector, the in-package reads of pe.guarded used only as a harness barrier. "
         "Coverage of the real code is the set of recorded schedules (plus the three directed scenarios), not all "
         "schedules: the exhaustive exploration is on the PeriodicalImpl model, whose counterexamples are leads only "
         "(reported in evidence, never as violations). No vhook gates (tier 2 of the design) were built; the spec->code "
         "replay covers sequential behaviours only; BulkInserter/Metrics expose no Wait (the recorder uses the embedded "
         "executor's) and no ticker injection (real 1 s ticker, one tick-triggered history per run); Metrics reports are "
         "judged on task identity, count and drops, not on the percentile figures; bulk/chunk use a real 1 ms ticker in half of the histories. "
         "The default task count of BulkExecutor is exercised by recorded histories only (no generated behaviours: 1000 Adds per step); "
         "BulkInserter and Metrics have no options, so there is no multi-executor scenario for them.",
    technique="TLA+ abstract spec + TLC trace validation of recorded concurrent histories + TLC model checking of the mechanism",
    design="4/C16")

FINISH = dict(rule="one history = one scenario on a fresh executor (2-4 callers x 2-7 calls, environment goroutine issuing "
                   "ticks/clock jumps, [rest], final Wait, flusher retired, quiescence; the executors of a `multi` scenario "
                   "are one history each); every history is checked event by event "
                   "by TLC against ExecutorTrace.tla; states/transitions also include the model-checking runs of "
                   "Executor.tla and PeriodicalImpl.tla")


# --------------------------------------------------------------------------- model checking

def mc_abstract(ctx):
    K = dict(Procs="{1,2}",
             Confs='{[kind |-> "per", max |-> 0], [kind |-> "bulk", max |-> 2], [kind |-> "chunk", max |-> 3]}',
             Sizes="{2}" if ctx.quick else "{1,3}", MaxTask=3)
    cfg = core.render_cfg(spec="MCSpec", constants=K, invariants=INVS, properties=["WaitSound"])
    ctx.tlc("Executor", cfg, constants=K, name="Executor-mc", workers=6, timeout=900)


def scripts(*ss):
    return "<< " + ", ".join("<<" + ",".join('"%s"' % o for o in s) + ">>" for s in ss) + " >>"


def mc_impl(ctx):
    """All interleavings of the mechanism.  Fix=1 is the code under test (hand-over repaired: inflight is decremented
    after enterExecution and Wait lets inflight drain), Fix=0 the mechanism before that repair.  Safety, WaitSound and
    deadlock freedom must hold for Fix=1 (else the model is off: exit 2, the counterexample is a lead); the WaitSound
    counterexamples of Fix=0 are kept in evidence as the leads that the directed hand-over scenario reproduces."""
    if ctx.quick:
        plans = [("thr2", scripts(["add", "wait"], ["add", "add"]), 2), ("thr1", scripts(["add", "wait"], ["add", "wait"]), 1)]
    else:
        plans = [("thr2", scripts(["add", "add", "wait"], ["add", "add", "wait"]), 2),
                 ("thr1", scripts(["add", "wait"], ["add", "wait"], ["add"]), 1),
                 ("flush", scripts(["add", "flush", "wait"], ["add", "add"]), 2)]
    leads = {}
    for name, sc, thr in plans:
        na = sc.count("<<") - 1
        K = dict(NA=na, Scripts=sc, Thr=thr, MaxGen=2, Cap=1, Fix=1, Variant='"code"')
        cfg = core.render_cfg(spec="Spec", constants=K, invariants=IMPL_SAFETY + ["WaitSound"], check_deadlock=True)
        r = ctx.tlc("PeriodicalImpl", cfg, constants=K, name="Impl-%s-code" % name, workers=6, timeout=1500, coverage=True)
        ctx.check_coverage(r, ["ALock", "ASendBuf", "Confirm", "FRecv", "FTick", "FQuitChk", "ClockJump", "WWait", "WDrain", "Fl2", "X1"])
        if ctx.quick and name == "thr1":
            continue
        K0 = dict(K, Fix=0)
        cfg = core.render_cfg(spec="Spec", constants=K0, invariants=["WaitSound"], check_deadlock=True)
        r = ctx.tlc("PeriodicalImpl", cfg, constants=K0, name="Impl-%s-before-repair" % name, workers=6, timeout=1500, allow_violation=True)
        if r.violated:
            steps = [l.split(" line")[0].replace("State ", "").strip() for l in r.trace_text.splitlines() if l.startswith("State ")]
            leads["%s/Fix=0" % name] = dict(violated=r.violated, length=len(steps), actions=steps[:40])
    # vacuity guards: two seeded mechanism changes (caught by the recorder on the real code) must be visible on the model
    variants = {}
    name, sc, thr = plans[0]
    for v in ("quit_ignores_inflight", "unguard_after_final_flush", "no_final_flush"):
        K = dict(NA=sc.count("<<") - 1, Scripts=sc, Thr=thr, MaxGen=2, Cap=1, Fix=1, Variant='"%s"' % v)
        cfg = core.render_cfg(spec="Spec", constants=K, invariants=IMPL_SAFETY + ["WaitSound"], check_deadlock=True)
        r = ctx.tlc("PeriodicalImpl", cfg, constants=K, name="Impl-variant-%s" % v, workers=6, timeout=1500, allow_violation=True)
        if not r.violated:
            raise core.Infra("vacuous model: PeriodicalImpl variant %s satisfies every invariant and is deadlock free" % v)
        if v == "no_final_flush" and r.violated not in ("HeldCovered", "AllExecuted"):
            raise core.Infra("PeriodicalImpl variant no_final_flush violates %s, expected HeldCovered/AllExecuted" % r.violated)
        steps = [l.split(" line")[0].replace("State ", "").strip() for l in r.trace_text.splitlines() if l.startswith("State ")]
        variants[v] = dict(violated=r.violated, length=len(steps), actions=steps[:40])
    ctx.notes["impl_model_expected_violations"] = variants
    ctx.notes["impl_model_leads"] = leads or "none"
    ctx.notes["impl_model_leads_meaning"] = ("TLC counterexamples of WaitSound on PeriodicalImpl.tla with Fix=0 (the hand-over as it was "
                                             "before the repair of Wait); leads only - verdicts come from recorded histories")


# --------------------------------------------------------------------------- record + validate

def record(ctx, binp, label, rounds, gomaxprocs, shard, kind="", test="^TestVerifC16Trace$", pkgdir="lib/executors"):
    path = os.path.join(ctx.build, "trace-%s.ndjson" % label)
    e = dict(os.environ)
    e.update(core.GOENV)
    e.update(VERIF_SEED=str(ctx.seed), VERIF_TRACE=path, VERIF_ROUNDS=str(rounds), VERIF_SHARD=str(shard),
             GOMAXPROCS=str(gomaxprocs), VERIF_KIND=kind, VERIF_MULTI_EVERY="4" if ctx.quick else "16")
    try:
        p = subprocess.run([binp, "-test.run", test, "-test.count=1", "-test.timeout", "900s"],
                           cwd=os.path.join(core.REPO, pkgdir), env=e, capture_output=True, text=True, timeout=1000)
    except subprocess.TimeoutExpired:
        raise core.Infra("C16 recorder timed out (%s)" % label)
    out = p.stdout + p.stderr
    if "DATA RACE" in out:
        ctx.disagree("C16:data-race", "race detector report while running the executor scenarios:\n" + out[-3000:], source="race")
        return None
    if p.returncode != 0 or "C16TRACES" not in out:
        raise core.Infra("C16 recorder failed rc=%s (%s)\n%s" % (p.returncode, label, out[-3000:]))
    with LOCK:
        for tok in out[out.index("C16TRACES"):].split():
            if "=" in tok:
                k, v = tok.split("=")
                ctx.counters["rec." + k] = ctx.counters.get("rec." + k, 0) + int(v)
    return path


def describe(segment, first_bad):
    """Human-readable reason for the commonest rejection: a Wait that returned too early."""
    try:
        evs = [json.loads(x) for x in segment]
        bad = evs[first_bad]
        if bad.get("e") == "xb":
            conf, b = evs[0], bad["b"]
            size = {e["t"]: e["s"] for e in evs[:first_bad] if e["e"] == "ainv"}
            seen = [t for e in evs[1:first_bad] if e["e"] == "xb" for t in e["b"]]
            why = []
            if [t for t in b if t in seen]:
                why.append("tasks %s were already passed to execute" % [t for t in b if t in seen])
            if [t for t in b if t not in size]:
                why.append("tasks %s were never added" % [t for t in b if t not in size])
            if conf["kind"] in ("bulk", "inserter") and len(b) > conf["max"]:
                why.append("%d tasks in a batch, configured maximum %d" % (len(b), conf["max"]))
            if conf["kind"] == "chunk" and b and all(t in size for t in b) and sum(size[t] for t in b) - size[b[-1]] >= conf["max"]:
                why.append("batch of %d bytes already held %d >= limit %d before its last task" % (
                    sum(size[t] for t in b), sum(size[t] for t in b) - size[b[-1]], conf["max"]))
            return " [%s]" % ("; ".join(why) or "not a run of consecutively added, not yet executed tasks in the order they were added")
        if bad.get("e") == "hang":
            stacks = ""
            try:
                stacks = open(bad.get("stacks", "")).read()[:12000]
            except Exception:
                pass
            calls = ", ".join("caller %d: %s%s" % (c["p"], c["op"].capitalize(), "(task %d)" % c["t"] if c["op"] == "add" else "()")
                              for c in bad.get("calls", []))
            return (" [calls that never returned although ticks and clock jumps were kept going for %d ms: %s; tasks added but never "
                    "executed: %s; the specification (deadlock freedom, a flusher alive while work is pending) has no such behaviour]"
                    "\ngoroutines at the end of the grace period:\n%s" % (bad.get("grace_ms", 0), calls or "none", bad.get("unexecuted"), stacks))
        if bad.get("e") == "threshold-no-flush":
            return (" [one caller inserted exactly %d rows into a fresh inserter and called nothing else; in %d attempts no INSERT was "
                    "executed before the first tick became due: reaching the size threshold did not flush]" % (bad.get("rows", 0), bad.get("attempts", 0)))
        if bad.get("e") == "rest":
            size = {e["t"] for e in evs[:first_bad] if e["e"] == "ainv"}
            fin = {t for e in evs[:first_bad] if e["e"] == "xe" for t in e.get("b", [])}
            return (" [no public call is in progress and every goroutine of the executor has ended (the background flusher retired) - "
                    "reached by ticks and clock jumps alone, without any further Add/Flush/Wait - but tasks %s have not been executed: "
                    "no trigger is left that would flush them]" % sorted(size - fin))
        if bad.get("e") == "fstart":
            return (" [the background flusher asked for a ticker of period %s ms; this executor's configured flush interval is %s ms%s]"
                    % (bad.get("d"), evs[0].get("iv"), " (package default; other executors in the process were given other intervals)"
                       if evs[0].get("sc") == "multi" else ""))
        if bad.get("e") == "quiesce":
            return " [at quiescence (all callers returned, final Wait returned, flusher retired) some added task was not executed exactly once]"
        if bad.get("e") != "wret":
            return ""
        p = bad["p"]
        inv = max(i for i in range(first_bad) if evs[i].get("e") == "winv" and evs[i].get("p") == p)
        cur, returned, fin = {}, set(), set()
        for i, e in enumerate(evs[:first_bad]):
            if e["e"] == "ainv":
                cur[e["p"]] = e["t"]
            elif e["e"] == "aret" and i < inv:
                returned.add(cur[e["p"]])
            elif e["e"] == "xe":
                fin.update(e["b"])
        missing = sorted(returned - fin)
        return " [Wait of caller %d returned while tasks %s, whose Add had returned before the Wait call, had not finished executing]" % (p, missing)
    except Exception:
        return ""


def _short(m):
    nums = m.group(0).split(",")
    return ",".join(nums[:6]) + ",...(%d ids)...," % (len(nums) - 9) + ",".join(nums[-3:])


def validate(ctx, path, name):
    n0 = len(ctx.disagreements)
    r = ctx.validate_traces("ExecutorTrace", path, key_prefix="C16", invariants=INVS, name=name, timeout=1500,
                            constants=TRACE_CONSTS, describe=describe, max_rejections=2)
    for d in ctx.disagreements[n0:]:     # a batch of a thousand ids must not push the reason out of the report line
        d["msg"] = re.sub(r"\d+(?:,\d+){40,}", _short, d["msg"])
    return r


def defaults(ctx, binp):
    """The default constants of the package under test (a defaulted executor is judged against them)."""
    e = dict(os.environ)
    e.update(core.GOENV)
    p = subprocess.run([binp, "-test.run", "^TestVerifC16Defaults$", "-test.count=1"], cwd=os.path.join(core.REPO, "lib/executors"),
                       env=e, capture_output=True, text=True, timeout=300)
    m = re.search(r"C16DEFAULTS bulk=(\d+) chunk=(\d+) interval_ms=(\d+)", p.stdout)
    if p.returncode != 0 or not m:
        raise core.Infra("cannot read the package defaults rc=%s\n%s" % (p.returncode, (p.stdout + p.stderr)[-2000:]))
    return dict(bulk=int(m.group(1)), chunk=int(m.group(2)), interval_ms=int(m.group(3)))


def gen_size_stats(ctx, printed, mx):
    """Task size as a dimension of the generated chunk behaviours: how many predicted batches consist of size-0 tasks
    only, per trigger (no byte counter ever moves for them: tick / Flush / Wait / final Wait must send them all the same),
    and how many Adds carry a size one below / exactly at / one above the byte limit."""
    with LOCK:
        for line in printed:
            try:
                steps = json.loads(line) if isinstance(line, str) else line
            except Exception:
                continue
            if not isinstance(steps, list):
                continue
            size = {}
            for st in steps:
                if st.get("op") == "add":
                    size[st["t"]] = st["s"]
                    edge = {mx - 1: "below", mx: "at", mx + 1: "above", 0: "zero"}.get(st["s"])
                    if edge:
                        ctx.counters["gen.add_size_" + edge] = ctx.counters.get("gen.add_size_" + edge, 0) + 1
                for b in st.get("exec") or []:
                    if b and all(size.get(t) == 0 for t in b):
                        k = "gen.zero_batch_" + st["op"]
                        ctx.counters[k] = ctx.counters.get(k, 0) + 1


GEN_NEED = ["gen.zero_batch_tick", "gen.zero_batch_flush", "gen.zero_batch_wait", "gen.zero_batch_end",
            "gen.add_size_zero", "gen.add_size_below", "gen.add_size_at", "gen.add_size_above"]


def gen_replay(ctx, binp, name, kind, mx, sizes, maxlen, defaulted=0):
    """spec -> code: every sequential behaviour of ExecutorGen.tla up to maxlen steps (complete BFS enumeration) is
    executed on the real Bulk/ChunkExecutor and compared step by step."""
    K = dict(Kind='"%s"' % kind, Max=mx, Sizes=sizes, Ops='{"add","tick","flush","wait","jump"}', MaxLen=maxlen)
    cfg = core.render_cfg(spec="GSpec", constants=K, invariants=["Emit", "GBound"])
    r = ctx.tlc("ExecutorGen", cfg, constants=K, name="gen-" + name, workers=6, timeout=900)
    path, cnt = ctx.write_cases("gen-%s.ndjson" % name, r.printed)
    if cnt == 0:
        raise core.Infra("ExecutorGen produced no behaviours for %s" % name)
    if len(ctx.samples) < 3:
        ctx.samples += core.sample_of(r.printed, 1)
    if kind == "chunk":
        gen_size_stats(ctx, r.printed, mx)
    ctx.replay(PKG, OVERLAY, "^TestVerifC16Gen$", path, label="gen-" + name, env=dict(VERIF_KIND=kind, VERIF_MAX=mx, VERIF_DEFAULTED=defaulted),
               shards=8, binp=binp, race=True)


def run(ctx):
    # The model-checking runs concern the models only (their failures are harness problems, their counterexamples
    # leads); they run beside the work on the real code.
    mc_err = []

    def mc():
        try:
            mc_abstract(ctx)
            mc_impl(ctx)
        except BaseException as e:      # reported below, after the verdicts from the real code
            mc_err.append(e)
    mct = threading.Thread(target=mc, daemon=True)
    mct.start()
    try:
        real_code(ctx)
    finally:
        mct.join()
    if mc_err and not ctx.disagreements:     # a harness problem never replaces a disagreement observed on the real code
        raise mc_err[0]
    if mc_err:
        ctx.notes["model_checking_problem"] = str(mc_err[0])[:2000]
    ctx.assumptions += [
        "container events (add/take) are emitted while the executor holds pe.lock; inv before a call, ret after it returned; "
        "xb/xe from inside the execute callback",
        "histories are the schedules the Go scheduler produced under the given seeds and GOMAXPROCS plus the directed "
        "scenarios (hand-over, quit race, Adds on the retiring tick); not exhaustive over schedules (the exhaustive "
        "exploration is on PeriodicalImpl.tla)",
        "PeriodicalImpl.tla treats a pe.lock region as one atomic step and lets confirmChan deliver to any blocked caller",
        "a defaulted option is judged against the default constant read from the package under test (TestVerifC16Defaults)"]


def real_code(ctx):
    binp = ctx.go_build(PKG, OVERLAY, race=True, name="c16drv")
    dflt = defaults(ctx, binp)
    ctx.notes["package_defaults"] = dflt
    D = dflt["chunk"]
    # chunk: the task size is a dimension that includes 0 (a batch of size-0 tasks never moves the byte counter) and the
    # sizes one below / exactly at / one above the byte limit
    gplans = [("bulk2", "bulk", 2, "{1}", 5), ("chunk3", "chunk", 3, "{0,1,2,3,4}", 4),
              ("chunkdef", "chunk", D, "{0,%d,%d,%d,%d}" % (D // 2, D - 1, D, D + 1), 3, 1)] if ctx.quick else \
             [("bulk1", "bulk", 1, "{1}", 5), ("bulk2", "bulk", 2, "{1}", 6), ("bulk3", "bulk", 3, "{1}", 6),
              ("chunk3", "chunk", 3, "{0,1,2,3,4}", 5), ("chunk4", "chunk", 4, "{0,3,4,6}", 5),
              ("chunkdef", "chunk", D, "{0,%d,%d,%d,%d}" % (D // 2, D - 1, D, D + 1), 4, 1)]
    ctx.exhaustive = True
    for g in gplans:
        gen_replay(ctx, binp, *g)
    # record + validate: the executors' own shards and the clients' shards, three at a time (one TLC worker each)
    plans = [(12, 4, 0), (12, 1, 1), (12, 2, 2), (12, 16, 3)] if ctx.quick else \
            [(400, 4, 0), (400, 1, 1), (400, 2, 2), (400, 16, 3), (300, 8, 4), (300, 3, 5)]
    cplans = [("inserter", 8, 4, 0), ("metrics", 10, 2, 0)] if ctx.quick else \
             [("inserter", 100, 4, 0), ("inserter", 100, 1, 1), ("inserter", 60, 16, 2),
              ("metrics", 150, 4, 0), ("metrics", 150, 1, 1), ("metrics", 100, 16, 2)]
    bins = {k: ctx.go_build(CLIENTS[k]["pkg"], CLIENTS[k]["overlay"], race=True, name="c16" + k) for k in sorted({c[0] for c in cplans})}
    jobs = [("exec", rounds, gmp, shard) for rounds, gmp, shard in plans] + cplans
    problems = []

    def job(kind, rounds, gmp, shard):
        if ctx.counters.get("rec.hangs", 0):
            ctx.notes["recording_stopped_after_hang"] = "before %s shard %d" % (kind, shard)
            return              # each further recorder would spend the grace period on the same hang
        try:
            if kind == "exec":
                path = record(ctx, binp, "g%d-%d" % (gmp, shard), rounds, gmp, shard)
                name = "trace-%d" % shard
            else:
                c = CLIENTS[kind]
                path = record(ctx, bins[kind], "%s-g%d-%d" % (kind, gmp, shard), rounds, gmp, shard, test=c["test"], pkgdir=c["dir"])
                name = "trace-%s-%d" % (kind, shard)
            if path is None:
                return
            validate(ctx, path, name)
            if kind == "exec" and shard == 0:
                lines = open(path).read().splitlines()
                ctx.samples.append([json.loads(x) for x in lines[:16]])
        except BaseException as e:
            problems.append(e)
    from concurrent.futures import ThreadPoolExecutor
    with ThreadPoolExecutor(max_workers=3) as pool:
        for f in [pool.submit(job, *j) for j in jobs]:
            f.result()
    if problems and not ctx.disagreements:       # a harness problem never replaces a disagreement observed on the real code
        raise problems[0]
    if problems:
        ctx.notes["recording_problems"] = [str(e)[:1500] for e in problems]
    # Vacuity guards come AFTER the verdict: a counter that stayed 0 because the code under test behaves differently
    # (e.g. no batch of exactly 1000 rows because the threshold moved) is a behavioural difference that the acceptor
    # reports; the guards only protect a run in which nothing was found.
    if not ctx.disagreements:
        need = ["rec.hist_bulk", "rec.hist_chunk", "rec.hist_per", "rec.takes_nonempty", "rec.waits", "rec.flusher_stops",
                "rec.hist_inserter", "rec.hist_metrics", "rec.tick_flushes", "rec.threshold_batches", "rec.thr_checked",
                "rec.exec_failures", "rec.retiring_hit", "rec.retiring_stop_hit", "rec.retiring_final_hit", "rec.rests", "rec.hist_multi", "rec.multi_defaulted",
                "rec.default_full_batches", "rec.tickers_timed",
                "rec.hist_chunk_zero", "rec.zero_adds", "rec.zero_batches", "rec.retiring_zero", "rec.edge_adds"] + GEN_NEED
        if not ctx.quick:
            need += ["rec.hist_handover", "rec.hist_quitrace", "rec.multi_concurrent"]
        missing = [k for k in need if ctx.counters.get(k, 0) == 0]
        if "rec.thr_checked" in missing and ctx.counters.get("rec.thr_void", 0):
            missing.remove("rec.thr_checked")       # machine too slow to judge the size trigger before the first tick
            ctx.notes["threshold_observation"] = "not judged: the 1000 inserts did not finish inside the pre-tick window"
        if missing:
            raise core.Infra("vacuous recording: counters %s are 0" % missing)


def replay(ctx, rp):
    """A recorded history cannot be re-executed schedule by schedule; the replay runs the scenario class of the
    saved history again on the current tree (same seed; the directed hand-over scenario is deterministic, the
    stress scenarios are repeated often enough that the reported classes showed up in every run so far) and
    validates what is recorded now.  The saved history itself is kept in the replay file for inspection."""
    if rp.get("source") == "replay":      # a generated behaviour (spec -> code): run exactly that behaviour again
        import re
        m = re.search(r"kind=(\w+) max=(\d+)", rp.get("msg") or "")
        if not m:
            raise core.Infra("replay file of a generated behaviour without kind/max")
        path, _ = ctx.write_cases("replay.ndjson", [rp["case"]])
        binp = ctx.go_build(PKG, OVERLAY, race=True, name="c16drv")
        dflt = defaults(ctx, binp)      # the plan run on an executor created without options is the one with Max = package default
        ctx.replay(PKG, OVERLAY, "^TestVerifC16Gen$", path, label="replay", binp=binp, race=True,
                   env=dict(VERIF_KIND=m.group(1), VERIF_MAX=int(m.group(2)), VERIF_DEFAULTED=int(int(m.group(2)) == dflt.get(m.group(1)))))
        return
    seg = json.loads(rp["case"]) if rp.get("case") else []
    try:
        first = json.loads(seg[0])
    except Exception:
        first = {}
    directed = ("handover", "quitrace", "syncwait", "retiring", "multi")
    kind = first.get("sc") if first.get("sc") in directed else first.get("kind", "")
    kinds = {"per": ["handover", "quitrace", "syncwait", "per"], "handover": ["handover"], "quitrace": ["quitrace"], "syncwait": ["syncwait"], "bulk": ["bulk"],
             "chunk": ["chunk"], "retiring": ["retiring"], "multi": ["multi"]}.get(kind, list(directed) + ["per", "bulk", "chunk"])
    if kind in CLIENTS:
        c = CLIENTS[kind]
        binp = ctx.go_build(c["pkg"], c["overlay"], race=True, name="c16" + kind)
        for gmp in (1, 4):
            p2 = record(ctx, binp, "replay-%s-g%d" % (kind, gmp), 40, gmp, gmp, test=c["test"], pkgdir=c["dir"])
            if p2:
                validate(ctx, p2, "replay-%s-g%d" % (kind, gmp))
        return
    binp = ctx.go_build(PKG, OVERLAY, race=True, name="c16drv")
    n = 0
    for k in kinds:
        for gmp in ((4,) if k in directed else (1, 4)):
            n += 1
            p2 = record(ctx, binp, "replay-%s-g%d" % (k, gmp), (24 if k in ("retiring", "multi") else 10) if k in directed else 120, gmp, n, kind=k)
            if ctx.counters.get("rec.hangs", 0):
                if p2:
                    validate(ctx, p2, "replay-%s-g%d" % (k, gmp))
                return
            if p2:
                validate(ctx, p2, "replay-%s-g%d" % (k, gmp))
