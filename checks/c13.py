"""C13 - consistent hashing.  spec/ConsistentHash.tla (contract over assignment vectors, model-checked),
spec/ConsistentHashGen.tla (membership histories) -> harness/c13 records what the real ring returns ->
spec/ConsistentHashTrace.tla validates every recorded step (code -> spec)."""
import json, os, threading
from concurrent.futures import ThreadPoolExecutor
from vlib import core

PKG = "./lib/hash"
OVERLAY = {"lib/hash/zz_verif_c13_test.go": "c13/hash_test.go"}
RUN = "^TestVerifC13$"
NPROBE = 16
ALL_NODES = ["n1", "n2", "n3", "n4"]

META = dict(
    text="Trace validation against a TLA+ contract: TLC enumerates every membership history (Add / AddWithWeight / "
         "AddWithReplicas / Remove over string, struct and Stringer nodes) up to 3-4 operations plus seeded long "
         "random histories (spec/ConsistentHashGen.tla); a black-box driver executes them on the real "
         "hash.ConsistentHash and records after every operation the node returned for 16 probe keys (twice) and, "
         "over a population of 500-5000 keys, the owner counts and every from->to move; TLC validates each "
         "recorded step against spec/ConsistentHash.tla (total, stable, only the changed node's keys move, "
         "weight 0 / removed node owns nothing, re-add replaces, every call returns). A 'drain' family of the generator "
         "(complete over 2-3 nodes to 4-5 operations, plus seeded 30-operation histories) contains only histories in which "
         "the ring returns to empty, so that lookups on a drained ring, weight-0 re-adds there and the first live add after "
         "it are exercised (census in evidence, guarded against vacuity). The contract itself is model-checked "
         "(implementable, invariants, action properties) and a ring mechanism model refines it.",
    note="The hash function is environment: assignment vectors are observed, never predicted. 'Roughly "
         "proportional to weight' is a driver statistic (nodes with >= 50 virtual nodes, flagged beyond a factor 2, "
         "recorded in evidence). Node kinds: string, struct value, pointer to Stringer (default), and in the ':kb'/':kc' "
         "families pointer to struct without String(), []byte, pointer to int, int, mixed within one history. "
         "Ring-position collisions are outside the claim. cache.New / kv.New are driven "
         "over two to four in-process redis servers with 5-9 weight vectors: the server observed to hold a key "
         "(miniredis inspection) has positive weight and stays the same across Set, Del+Set, batch Del+Set. The same "
         "contract is also validated on rings built with NewCustomConsistentHash and a caller-supplied hash function "
         "(share statistic not applied there). REPLICA SETTING as a dimension ('c*' plans): every history starts with the operation 'new'(s), "
         "s in {0, 1, 5, 50, 99, 100} (thorough also 200 on base 200) - the driver creates the ring with "
         "NewCustomConsistentHash(s, nil or the caller-supplied function); the contract is evaluated with BaseOf(s) (a setting "
         "below the minimum of 100 is raised to it, ConsistentHash.tla), so with weights {0, 1, 4, 10, 50, 100} a node of positive "
         "weight is live whatever the setting (complete to 2-3 operations after 'new', thorough also seeded 30-operation histories; "
         "census of lone small-weight nodes per setting in evidence, guarded against vacuity). The class-share statistic is also "
         "taken on rings created with settings 1, 3, 50 (thorough 0, 1, 3, 5, 20, 50, 99). Class-share statistic: on rings with 100/150/250 (thorough also 199/330) "
         "virtual nodes per full node, ten nodes each added by Add, AddWithWeight(100), AddWithWeight(50), 40 000-100 000 "
         "fixed keys, every class share within +-15 % of the weight-proportional share (deterministic: names and keys are "
         "fixed; weights above 100 left out, the statement is silent about them). BEYOND THE STATEMENT (which does not quantify over concurrency): Get "
         "concurrent with Add*/Remove runs under -race; only a data-race report or a fatal runtime error is reported "
         "(key C13:data-race), never a contract violation. PANICS: every call of Get/Add*/Remove (and cache/kv New/Set/Get/Del) "
         "runs under recover() in all drivers; a call that panics is recorded ('PANIC' as the lookup result, field pan) and "
         "rejected by the contract clause 'panic' (keys C13:panic:get|add|addw|addr|remove|new|set|del; C13:panic:crash when a "
         "fatal error inside the code under test kills a recorder process). Bounds: 3-4 nodes, weights {0,1,50,100}, replicas {0,50,100,200}, base 100 and 200.",
    technique="TLA+ contract spec + TLC-generated histories + TLC trace validation of the real ring's lookups",
    design="4/C13")

FINISH = dict(rule="histories = complete TLC enumeration (BFS over the history variable) of all operation sequences "
                   "of the stated length, plus seeded TLC simulation of 30-operation histories; every operation "
                   "of every history is executed on the real ring and the recorded observation is accepted or "
                   "rejected by TLC against the contract (high-water mark = length of the log)")


def consts(nodes, weights, reps, base, probe=NPROBE):
    return dict(Nodes="{%s}" % ", ".join('"%s"' % n for n in nodes), Probe="1..%d" % probe, Base=base,
                Weights="{%s}" % ", ".join(map(str, weights)), Reps="{%s}" % ", ".join(map(str, reps)))


# ------------------------------------------------------------------------------- model check

def mc(ctx):
    K = consts(["n1", "n2", "n3"], [0, 50], [0, 2], 2, probe=3)
    cfg = core.render_cfg(spec="Spec", constants=K,
                          invariants=["TypeOK", "InvTotal", "ZeroOwnsNothing", "Implementable"],
                          properties=["Stable", "RemoveOnlyOwn", "AddOnlyToNew", "Disruption"], view="core")
    r = ctx.tlc("ConsistentHash", cfg, constants=K, name="ConsistentHash-mc", timeout=600, workers=6)
    if r.distinct < 100:
        raise core.Infra("vacuous model: ConsistentHash-mc has only %d states" % r.distinct)
    # the ring mechanism (ConsistentHashImpl.tla) refines the contract, for every placement of the virtual
    # nodes and probe keys on a small ring
    if ctx.quick:
        K2 = dict(Nodes='{"n1", "n2"}', Probe="1..2", Base=2, Weights="{0, 50, 100}", Reps="{0, 1, 3}", M=5)
    else:
        K2 = dict(Nodes='{"n1", "n2", "n3"}', Probe="1..1", Base=2, Weights="{0, 50, 100}", Reps="{0, 1}", M=6)
    cfg = core.render_cfg(spec="ISpec", constants=K2, invariants=["ITypeOK", "InvTotal", "ZeroOwnsNothing"],
                          properties=["Refines", "Stable", "RemoveOnlyOwn", "AddOnlyToNew", "Disruption"], view="iview")
    r = ctx.tlc("ConsistentHashImpl", cfg, constants=K2, name="ConsistentHashImpl-mc", timeout=1200, workers=6)
    if r.distinct < 500:
        raise core.Infra("vacuous model: ConsistentHashImpl-mc has only %d states" % r.distinct)


# ------------------------------------------------------------------------------- generate

def gen(ctx, name, nodes, weights, reps, base, maxops, simulate=None, family="all", settings=()):
    """family 'drain' = only histories in which the ring returns to empty (ConsistentHashGen.tla, Wanted).
    settings: replica settings offered to the leading "new" operation (ConsistentHashGen.tla ASSUMEs that each of
    them has BaseOf(setting) = base; () = no "new" operation, the driver creates the ring from base)."""
    K = consts(nodes, weights, reps, base)
    K["MaxOps"] = maxops
    K["Settings"] = "{%s}" % ", ".join(map(str, settings))
    K["Family"] = '"%s"' % family
    cfg = core.render_cfg(spec="GSpec", constants=K, invariants=["Emit"])
    r = ctx.tlc("ConsistentHashGen", cfg, constants=K, name=name, simulate=simulate,
                depth=(maxops + 2 if simulate else None), timeout=1200, workers=(1 if simulate else 6))
    return r.printed


# ------------------------------------------------------------------------------- record

def split_traces(prefix):
    import glob
    hists = []          # list of lists of raw lines, one per history
    paths = sorted(glob.glob(prefix + "-*.ndjson"))      # core may cap the number of shards
    if not paths:
        raise core.Infra("no trace file written: " + prefix)
    for p in paths:
        cur = None
        with open(p) as f:
            for line in f:
                if '"ev":"reset"' in line[:80]:
                    cur = [line]
                    hists.append(cur)
                elif cur is not None:
                    cur.append(line)
                else:
                    raise core.Infra("trace %s does not start with a reset event" % p)
        os.remove(p)
    return hists


UNDER_TEST = ("github.com/gotid/god/lib/hash.", "github.com/gotid/god/lib/lang.", "github.com/gotid/god/lib/store/cache.",
              "github.com/gotid/god/lib/store/kv.")


def crash_of_code_under_test(text):
    """The drivers run every call of the code under test under recover(), so a recorder process normally
    survives a panic.  What recover() cannot catch (fatal runtime errors: stack exhaustion, concurrent map
    access, ...) still kills the process: if the crash report names a frame of the code under test this is
    a behaviour of that code, not a harness problem.  Returns the excerpt, or None (time-outs, kills and
    crashes elsewhere stay harness problems)."""
    if "test timed out" in text:
        return None
    for mark in ("fatal error:", "panic:"):
        i = text.find(mark)
        if i >= 0 and any(u in text[i:] for u in UNDER_TEST):
            return text[i:i + 1500]
    return None


def crashed(ctx, label, e):
    """e: core.Infra raised by ctx.replay.  True = it was a crash of the code under test, now reported."""
    import glob
    crash = crash_of_code_under_test(str(e))
    for lp in sorted(glob.glob(os.path.join(ctx.build, "%s-*.out" % label))):     # the shards' own output
        crash = crash or crash_of_code_under_test(open(lp, errors="replace").read())
    if crash is None:
        return False
    ctx.disagree("C13:panic:crash", "recorder %s: the process executing the histories was killed by a fatal error "
                 "inside the code under test (not recoverable by the driver): %s" % (label, crash), case=None, source="record")
    return True


def record(ctx, binp, label, cases_path, base, pop, shards=16, hashfn="", kinds="a"):
    prefix = os.path.join(ctx.build, "trace-" + label)
    try:
        cnt, bad = ctx.replay(PKG, OVERLAY, RUN, cases_path, label=label, binp=binp, shards=shards,
                              env=dict(VERIF_BASE=base, VERIF_POP=pop, VERIF_TRACE=prefix, VERIF_HASH=hashfn, VERIF_KINDS=kinds), source="record")
    except core.Infra as e:
        if not crashed(ctx, label, e):
            raise
        return None
    if bad:
        raise core.Infra("C13 recorder reported verdicts (it must only record): %s" % bad[:2])
    return split_traces(prefix)


# ------------------------------------------------------------------------------- validate

MAX_REJECTS_PER_CHUNK = 3


def validate_chunk(ctx, name, hists, spec, raws, lock, stats):
    """TLC-validate a list of histories (each a list of ndjson lines, the first one the reset/init event);
    on rejection report the history through spec['describe'] and continue behind it.
    spec: dict(module=, tracefile=, constants=, invariants=, describe=callable(h, k, failed) -> (key, msg, case_index, step))"""
    rejects = 0
    start = 0
    rnd = 0
    K = spec["constants"]
    while start < len(hists):
        part = hists[start:]
        text = "".join("".join(h) for h in part)
        nev = sum(len(h) for h in part)
        cfg = core.render_cfg(spec="TSpec", constants=K, invariants=spec.get("invariants", ()), postcondition="Post")
        r = ctx.tlc(spec["module"], cfg, constants=K, name="%s-%d" % (name, rnd), workers=1, timeout=1500,
                    files={spec["tracefile"]: text}, heap="3g")
        rnd += 1
        if not r.printed:
            raise core.Infra("trace validation %s printed no high-water mark" % name)
        post = json.loads(r.printed[-1])
        hw, n = int(post["hw"]), int(post["n"])
        if n != nev:
            raise core.Infra("trace validation %s: TLC read %d events, %d were written" % (name, n, nev))
        if hw >= n:
            with lock:
                stats["accepted"] += len(part)
                stats["events"] += nev
            return
        # rejected at event hw (0-based): locate its history
        acc = 0
        for j, h in enumerate(part):
            if hw < acc + len(h):
                break
            acc += len(h)
        failed = sorted(post.get("failed") or ["unknown"])
        key, msg, hidx, step = spec["describe"](h, hw - acc, failed)
        case = raws[hidx] if raws and hidx is not None and 0 <= hidx < len(raws) else None
        ctx.disagree(key, msg, case=case, step=step, source="trace")
        with lock:
            stats["accepted"] += j
            stats["rejected"] += 1
            stats["events"] += acc
        rejects += 1
        if rejects >= MAX_REJECTS_PER_CHUNK:
            with lock:
                stats["skipped_after_rejects"] += len(part) - j - 1
            return
        start += j + 1


def validate(ctx, label, hists, spec, cases_path, chunk_events=20000, par=6):
    raws = open(cases_path).read().splitlines() if cases_path else None
    chunks, cur, n = [], [], 0
    for h in hists:
        cur.append(h)
        n += len(h)
        if n >= chunk_events:
            chunks.append(cur)
            cur, n = [], 0
    if cur:
        chunks.append(cur)
    par = max(1, min(par, getattr(core, "maxpar", lambda: par)()))
    lock = threading.Lock()
    stats = dict(accepted=0, rejected=0, events=0, skipped_after_rejects=0)
    with ThreadPoolExecutor(max_workers=par) as ex:
        futs = [ex.submit(validate_chunk, ctx, "%s-v%d" % (label, i), c, spec, raws, lock, stats) for i, c in enumerate(chunks)]
        for f in futs:
            f.result()
    ctx.traces += stats["accepted"] + stats["rejected"]
    for k, v in stats.items():
        ctx.counters["%s.%s" % (label, k)] = v
    core.log("validate %s: histories accepted=%d rejected=%d events=%d" % (label, stats["accepted"], stats["rejected"], stats["events"]))
    return stats


def describe(h, k, failed):
    """h: lines of the rejected history, k: index of the rejected line in it."""
    reset = json.loads(h[0])
    ev = json.loads(h[k])
    step = k - 1
    key = "C13:%s:%s" % ("+".join(failed), ev.get("ev"))
    pan = ""
    if "panic" in failed:
        # a call of the API did not return: the class of the failure is the call that panicked (the other
        # clauses fail as a consequence: "PANIC" is no node); lookups first, they are what the statement is about
        ops = list(ev.get("pan") or []) or ["get"]
        key = "C13:panic:%s" % ("get" if "get" in ops else ops[0])
        pan = "PANIC in %s: %s; " % (ops, ev.get("panmsg"))
    prior = [json.loads(x) for x in h[1:k]]
    msg = ("base=%s history #%s step %d %s: %sobservation rejected by the contract, clauses %s; "
           "ops so far %s; observed asg=%s asg2=%s alt=%s altd=%s cnt=%s mv=%s; previous asg=%s") % (
        reset.get("base"), reset.get("h"), step, {f: ev[f] for f in ("ev", "n", "w", "r", "set") if f in ev}, pan, failed,
        [{f: e[f] for f in ("ev", "n", "w", "r", "set") if f in e} for e in prior],
        ev.get("asg"), ev.get("asg2"), ev.get("alt"), ev.get("altd"), ev.get("cnt"), ev.get("mv"),
        prior[-1]["asg"] if prior else "init")
    return key, msg, reset.get("h"), step


def tspec(K):
    return dict(module="ConsistentHashTrace", tracefile="c13trace.ndjson", constants=K,
                invariants=["InvTotal", "ZeroOwnsNothing"], describe=describe)


# ------------------------------------------------------------------------------- share statistic

def shares(ctx, hists, base, acc):
    """Driver statistic (DESIGN section 5): share of the population vs share of the virtual nodes, for
    memberships in which every live node has >= 50 virtual nodes; computed on the last event of a history."""
    for h in hists:
        if len(h) < 2 or any('"pan":[]' not in line for line in h[1:]):
            continue        # a history with a call that panicked is reported by the contract, it is no statistic
        mem = {}
        e = None
        for line in h[1:]:
            e = json.loads(line)
            ev, n = e["ev"], e.get("n")
            if ev == "remove":
                mem.pop(n, None)
            elif ev == "add":
                mem[n] = base
            elif ev == "addw":
                mem[n] = max(0, base * e["w"] // 100)
            elif ev == "addr":
                mem[n] = max(0, min(base, e["r"]))
        live = {n: v for n, v in mem.items() if v > 0}
        if len(live) < 2 or min(live.values()) < 50:
            continue
        key = (base,) + tuple(sorted(live.items()))
        if key in acc["seen"]:
            continue
        acc["seen"].add(key)
        cnt = e["cnt"]
        pop = sum(cnt.values())
        tot = sum(live.values())
        for n, v in live.items():
            ratio = (cnt.get(n, 0) / pop) / (v / tot)
            acc["min"] = min(acc["min"], ratio)
            acc["max"] = max(acc["max"], ratio)
            if ratio > 2 or ratio < 0.5:
                ctx.disagree("C13:share-beyond-factor-2",
                             "base=%d membership %s: node %s owns %d of %d population keys, %.2f times its share of the "
                             "virtual nodes (statistical clause, flagged beyond a factor 2)" % (base, live, n, cnt.get(n, 0), pop, ratio),
                             case=None, source="statistic")
    return acc


# ------------------------------------------------------------------------------- cache.New / kv.New

PKG2 = "./lib/store/kv"
OVERLAY2 = {"lib/store/kv/zz_verif_c13_test.go": "c13/cluster_test.go"}


def cluster(ctx):
    """The two users of the ring named by the property: shard of a key observed on the redis servers."""
    ws = [[100, 100, 100], [100, 50, 0], [1, 100, 100], [0, 100, 0], [50, 50]]
    if not ctx.quick:
        ws += [[100, 1, 1], [0, 0, 100], [100, 0, 50, 100], [30, 60, 90, 100]]
    cases = [dict(kind=k, weights=w) for k in ("cache", "kv") for w in ws]
    path, cnt = ctx.write_cases("cluster.ndjson", cases)
    prefix = os.path.join(ctx.build, "trace-cluster")
    try:
        c, bad = ctx.replay(PKG2, OVERLAY2, "^TestVerifC13Cluster$", path, label="cluster", shards=2,
                            env=dict(VERIF_TRACE=prefix, VERIF_POP=(300 if ctx.quick else 1500)), source="record")
    except core.Infra as e:
        if not crashed(ctx, "cluster", e):
            raise
        return
    if bad:
        raise core.Infra("C13 cluster recorder reported verdicts (it must only record): %s" % bad[:2])
    hists = split_traces(prefix)
    if len(hists) != cnt:
        raise core.Infra("cluster: %d cases, %d recorded" % (cnt, len(hists)))
    validate(ctx, "cluster", hists, tspec(consts(ALL_NODES, [0], [0], 100)), path)


# ------------------------------------------------------------------------------- concurrency (beyond the statement)

def panics(ctx, where, pan, source):
    """pan: {op: {n, msg}} printed by a driver that runs every API call under recover()."""
    for op, d in sorted((pan or {}).items()):
        ctx.disagree("C13:panic:%s" % op, "%s: %s panicked %s time(s) instead of returning, first panic value: %s" % (
            where, dict(get="Get", add="Add", addw="AddWithWeight", addr="AddWithReplicas", remove="Remove").get(op, op),
            d.get("n"), d.get("msg")), case=None, source=source)
    return bool(pan)


def race(ctx):
    """Lookups concurrent with Add/Remove under the race detector.  The statement does not quantify over
    concurrency: no lookup result is compared; a data-race report or a fatal runtime error is a finding
    (key C13:data-race), and so is an API call that panics (recovered and counted by the driver, key
    C13:panic:<op>; the main goroutine also looks keys up after every round, every fourth round leaves the
    ring empty, so these lookups do not depend on scheduling)."""
    rc, out = ctx.go_test(PKG, OVERLAY, "^TestVerifC13Race$", race=True, name="race", timeout=300, extra=["-v"],
                          env=dict(VERIF_ROUNDS=(300 if ctx.quick else 3000)))
    if "DATA RACE" in out or "panic:" in out or "fatal error:" in out:
        i = min(x for x in (out.find("DATA RACE"), out.find("panic:"), out.find("fatal error:")) if x >= 0)
        ctx.disagree("C13:data-race", "concurrent Get with Add/AddWithWeight/AddWithReplicas/Remove on one ring under -race "
                     "(beyond the statement: reported as a race/panic, not as a contract violation): " + out[max(0, i - 100):i + 1500],
                     case=None, source="race")
        return
    pl = [l for l in out.splitlines() if l.startswith("C13RACEPANIC ")]
    if rc != 0 or "C13RACE " not in out or not pl:
        raise core.Infra("race driver failed rc=%s\n%s" % (rc, out[-2000:]))
    ctx.notes["race_run"] = out[out.find("C13RACE "):].split("\n")[0]
    panics(ctx, "Get concurrent with Add/AddWithWeight/AddWithReplicas/Remove on one ring (membership cycles through "
           "the empty ring every fourth round)", json.loads(pl[0][len("C13RACEPANIC "):]), "race")


# ------------------------------------------------------------------------------- class shares (statistical clause)

SHARE_TOL = 0.15


def class_shares(ctx):
    """'Each node's share of a large key population is roughly proportional to its weight', aggregated over
    classes of ten nodes (Add = weight 100, AddWithWeight 100, AddWithWeight 50) on rings whose replica setting
    is and is not a multiple of 100.  Node names and keys are fixed: the measured shares are a deterministic
    function of the code, so the +-15 % margin (5 sigma of the ring's own dispersion) cannot flake.
    Weights above 100 are left out: the statement is silent about them."""
    want = dict(add=100.0, w100=100.0, w50=50.0)
    tot = sum(want.values())
    measured = {}
    # (base, setting): setting None = ring created from base (NewConsistentHash for 100); a setting below the
    # minimum is handed to NewCustomConsistentHash as it is - the ring must behave as one with 100 virtual nodes
    rings = [(b, None) for b in ([100, 150, 250] if ctx.quick else [100, 150, 199, 250, 330])]
    rings += [(100, s) for s in ([1, 3, 50] if ctx.quick else [0, 1, 3, 5, 20, 50, 99])]
    for base, setting in rings:
        tag = "%d" % base if setting is None else "s%d" % setting
        rc, out = ctx.go_test(PKG, OVERLAY, "^TestVerifC13Shares$", name="shares-" + tag, timeout=300, extra=["-v"],
                              env=dict(VERIF_BASE=base, VERIF_SETTING=("" if setting is None else setting),
                                       VERIF_POP=(40000 if ctx.quick else 100000)))
        line = [l for l in out.splitlines() if l.startswith("C13SHARE ")]
        if rc != 0 or not line:
            raise core.Infra("share driver failed rc=%s\n%s" % (rc, out[-2000:]))
        m = json.loads(line[0][len("C13SHARE "):])
        ringd = "ring with %d virtual nodes per full node" % base if setting is None else \
            "ring created with NewCustomConsistentHash(%d, nil) (raised to %d virtual nodes per full node)" % (setting, base)
        if panics(ctx, "%s, thirty nodes, %d lookups" % (ringd, m["pop"]), m.get("pan"), "statistic"):
            continue        # shares of a ring whose calls do not return are not a statistic
        rel = {}
        for k, w in want.items():
            rel[k] = round((m[k] / m["pop"]) / (w / tot), 4)
        measured[tag] = dict(counts={k: m[k] for k in ("add", "w100", "w50", "none")}, relative_to_weight_share=rel)
        bad = {k: v for k, v in rel.items() if abs(v - 1) > SHARE_TOL}
        if bad or m["none"]:
            ctx.disagree("C13:class-share",
                         "%s, ten nodes each added by Add / AddWithWeight(100) / "
                         "AddWithWeight(50), %d keys: class shares relative to the weight-proportional share %s "
                         "(counts %s); outside +-%d%%: %s" % (ringd, m["pop"], rel, measured[tag]["counts"],
                                                            int(SHARE_TOL * 100), bad), case=None, source="statistic")
    ctx.notes["class_shares"] = measured


# ------------------------------------------------------------------------------- run

def eff(o, base):
    """virtual nodes an operation leaves its node with (ConsistentHash.tla Eff / MemAfter), None = removed"""
    op = o["op"]
    if op == "remove":
        return None
    if op == "add":
        return base
    if op == "addw":
        return max(0, base * o["w"] // 100)
    return max(0, min(o["r"], base))


def drain_census(cases, base, acc):
    """Counts, over generated histories, the situations the 'absence only when no node of positive weight is
    present' clause is about on a ring WITH A PAST (every step is followed by lookups in the driver):
    drained  steps after which the ring is empty again although it held a live node before,
    zero     weight-0 / 0-replica adds executed on such a drained ring,
    revive   adds of positive weight executed on a drained ring."""
    for c in cases:
        mem, had_live, was_empty = {}, False, True
        for o in (json.loads(c) if isinstance(c, str) else c):
            if o["op"] == "new":        # creates the (empty) ring: no step on a ring with a past
                continue
            v = eff(o, base)
            drained_before = had_live and was_empty
            if v is None:
                mem.pop(o["n"], None)
            else:
                mem[o["n"]] = v
                if drained_before:
                    acc["zero" if v == 0 else "revive"] += 1
            was_empty = not any(x > 0 for x in mem.values())
            had_live = had_live or not was_empty
            if had_live and was_empty:
                acc["drained"] += 1


def settings_census(cases, settings, acc):
    """Per replica setting: histories executed, and steps after which the only added node is one added by
    AddWithWeight with a weight of 1..10 (the lookups after such a step must find it whatever the setting)."""
    if not settings:
        return
    for c in cases:
        ops = json.loads(c) if isinstance(c, str) else c
        if not ops or ops[0].get("op") != "new":
            raise core.Infra("history of a replica-setting plan does not start with 'new': %s" % (ops[:1],))
        a = acc.setdefault(ops[0]["set"], dict(histories=0, lone_small_weight=0))
        a["histories"] += 1
        mem = {}
        for o in ops[1:]:
            if o["op"] == "remove":
                mem.pop(o["n"], None)
            else:
                mem[o["n"]] = o
            if len(mem) == 1:
                (x,) = mem.values()
                if x["op"] == "addw" and 1 <= x["w"] <= 10:
                    a["lone_small_weight"] += 1


def run(ctx):
    mc(ctx)
    binp = ctx.go_build(PKG, OVERLAY, name="c13drv")
    W, R = [0, 1, 50, 100], [0, 50, 100, 200]
    # REPLICA SETTING as a dimension (optional 9th field of a plan): every history starts with "new"(s), s from
    # the given settings - the driver creates the ring with NewCustomConsistentHash(s, fn); settings below the
    # minimum (and 0) are raised to it (ConsistentHash.tla BaseOf), so with small weights (1, 4, 10) a node of
    # positive weight must still be found.  All settings of a plan have the plan's base (ASSUMEd by the generator).
    WS, SUB = [0, 1, 4, 10, 50, 100], (0, 1, 5, 50, 99, 100)
    # name[:option][/family]; family "drain" = only histories in which the ring returns to empty (few nodes, so
    # that long random histories drain again and again)
    if ctx.quick:
        plans = [("g3", ALL_NODES[:3], W, R, 100, 3, None, 500),
                 ("g2b", ALL_NODES, W, R, 200, 2, None, 2000),
                 ("s30", ALL_NODES, W, R, 100, 30, 200, 5000),
                 ("d4/drain", ALL_NODES[:2], [0, 100], [0, 50], 100, 4, None, 300),
                 ("ds:kc/drain", ALL_NODES[:2], W, R, 200, 30, 40, 1000),
                 ("f2:fnv", ALL_NODES, W, R, 100, 2, None, 500),
                 ("kb2:kb", ALL_NODES, W, R, 100, 2, None, 500),
                 ("kc2:kc", ALL_NODES, W, R, 200, 2, None, 500),
                 ("kbs:kb", ALL_NODES, W, R, 100, 30, 60, 2000),
                 ("c3", ALL_NODES[:2], WS, [0, 50], 100, 3, None, 500, SUB),
                 ("c3f:fnv", ALL_NODES[:2], WS, [0, 50], 100, 3, None, 300, (5, 99))]
    else:
        plans = [("g3", ALL_NODES, W, R, 100, 3, None, 1000),
                 ("g3b", ALL_NODES[:3], W, R, 200, 3, None, 1000),
                 ("g4", ALL_NODES[:3], [0, 100], [0, 50], 100, 4, None, 500),
                 ("s30", ALL_NODES, W, R, 100, 30, 2000, 4000),
                 ("s30b", ALL_NODES, W, R, 200, 30, 500, 4000),
                 ("d5/drain", ALL_NODES[:2], [0, 100], [0], 100, 5, None, 300),
                 ("d4b:kb/drain", ALL_NODES[:3], [0, 100], [0, 50], 200, 4, None, 300),
                 ("ds/drain", ALL_NODES[:2], W, R, 100, 30, 200, 2000),
                 ("dsc:kc/drain", ALL_NODES[:3], W, R, 200, 30, 200, 2000),
                 ("dsf:fnv/drain", ALL_NODES[:2], W, R, 100, 30, 200, 1000),
                 ("f3:fnv", ALL_NODES[:3], W, R, 100, 3, None, 500),
                 ("kb3:kb", ALL_NODES, [0, 50, 100], [0, 50, 200], 100, 3, None, 500),
                 ("kc3:kc", ALL_NODES[:3], W, R, 100, 3, None, 500),
                 ("kbs:kb", ALL_NODES, W, R, 100, 30, 500, 2000),
                 ("kcs:kc", ALL_NODES, W, R, 200, 30, 500, 2000),
                 ("fs30:fnv", ALL_NODES, W, R, 200, 30, 300, 2000),
                 ("c3", ALL_NODES[:3], WS, [0, 50], 100, 3, None, 500, SUB),
                 ("c4", ALL_NODES[:2], [0, 1, 10, 100], [0, 50], 100, 4, None, 300, SUB),
                 ("c3b:kc", ALL_NODES[:2], WS, [0, 50, 200], 200, 3, None, 500, (200,)),
                 ("c3f:fnv", ALL_NODES[:2], WS, [0, 50], 100, 3, None, 300, SUB),
                 ("cs30", ALL_NODES[:3], WS, R, 100, 31, 300, 2000, SUB),
                 ("cs30f:fnv", ALL_NODES[:3], WS, R, 100, 31, 100, 1000, SUB)]
    ctx.exhaustive = True
    acc = dict(min=9.9, max=0.0, seen=set())
    census = dict(drained=0, zero=0, revive=0)
    setc = {}
    for name, nodes, w, r, base, maxops, sim, pop, *more in plans:
        settings = tuple(more[0]) if more else ()
        name, _, family = name.partition("/")
        name, _, opt = name.partition(":")      # ":fnv" = caller-supplied hash function, ":kb"/":kc" = other node kinds
        hashfn = "fnv" if opt == "fnv" else ""
        kinds = opt[1:] if opt in ("kb", "kc") else "a"
        cases = gen(ctx, name, nodes, w, r, base, maxops, simulate=sim, family=family or "all", settings=settings)
        if not cases:
            raise core.Infra("generator %s produced no history" % name)
        drain_census(cases, base, census)
        settings_census(cases, settings, setc)
        path, cnt = ctx.write_cases(name + ".ndjson", cases)
        ctx.samples += core.sample_of(cases, 1)
        hists = record(ctx, binp, name, path, base, pop, hashfn=hashfn, kinds=kinds)
        if hists is None:       # the recorder was killed by the code under test (reported)
            continue
        if len(hists) != cnt:
            raise core.Infra("%s: %d histories generated, %d recorded" % (name, cnt, len(hists)))
        validate(ctx, name, hists, tspec(consts(ALL_NODES, w, r, base)), path)
        if not hashfn and kinds == "a":
            shares(ctx, hists, base, acc)
    cluster(ctx)
    class_shares(ctx)
    race(ctx)
    ctx.notes["share_ratio_min_max"] = [round(acc["min"], 3), round(acc["max"], 3)]
    ctx.notes["share_memberships_measured"] = len(acc["seen"])
    ctx.notes["returns_to_empty_ring"] = census
    ctx.notes["replica_settings"] = {str(k): v for k, v in sorted(setc.items())}
    ctx.states = sum(t["distinct"] for t in ctx.tlc_runs)
    ctx.transitions = sum(t["generated"] for t in ctx.tlc_runs)
    ctx.assumptions.append("default hash function (murmur3); ring-position collisions between nodes are outside the claim")
    # vacuity guard (harness problem, so only when the code under test gave no disagreement): the run must have
    # looked keys up on rings that returned to empty, re-added weight-0 nodes there and revived them
    if not ctx.disagreements:
        need = dict(drained=2000, zero=500, revive=500)
        short = {k: (census[k], v) for k, v in need.items() if census[k] < v}
        if short:
            raise core.Infra("vacuous run: too few steps on rings that returned to empty (have, need): %s" % short)
        # ... and on rings created with every replica setting below the minimum, with a lone node of small weight
        short = {s: setc.get(s) for s in SUB if setc.get(s, {}).get("lone_small_weight", 0) < 10}
        if short:
            raise core.Infra("vacuous run: too few histories with a lone node of weight 1..10 per replica setting: %s" % short)


def replay(ctx, rp):
    if not rp.get("case"):
        raise core.Infra("this finding carries no replayable history (statistic)")
    msg = rp.get("msg") or ""
    base = int(msg.split("base=")[1].split()[0]) if "base=" in msg else 100
    path, _ = ctx.write_cases("replay.ndjson", [rp["case"]])
    binp = ctx.go_build(PKG, OVERLAY, name="c13drv")
    hists = record(ctx, binp, "replay", path, base, 10000, shards=1)
    if hists is None:
        return
    validate(ctx, "replay", hists, tspec(consts(ALL_NODES, [0, 1, 50, 100], [0, 50, 100, 200], base)), path)
