"""C12 - Redis wrapper and sharded KV store.  spec/RedisKV.tla (sequential model of the Redis keyspace with the
wrapper's reply conversion; model-checked for sanity invariants), RedisKVGen.tla (history generator) -> replay
through redis.Redis and kv.New on 1-3 miniredis shards; spec/RedisWire.tla (canonical wire command of every
wrapper method) -> comparison with the commands recorded by miniredis' pre-hook; breaker clause driven through
the real per-address breaker."""
import hashlib, json, os, re
from concurrent.futures import ThreadPoolExecutor, as_completed
from vlib import core

PKG = "./lib/store/kv"
OVERLAY = {"lib/store/kv/zz_verif_c12_test.go": "c12/kv_test.go",
           "lib/store/kv/zz_verif_c12_wire_test.go": "c12/wire_test.go",
           "lib/store/kv/zz_verif_c12_shard_test.go": "c12/shard_test.go"}
W = 2       # TLC workers per model-checking / generation run (POOL runs in parallel; each is start-up dominated)
SIMW = 3    # TLC simulation workers (num traces are generated per worker)
POOL = 6    # TLC runs in parallel
SHARDS = 8  # driver processes per replay
META = dict(
    text="Model-based replay against a sequential TLA+ model of the Redis keyspace (strings, generic key commands, "
         "hashes, lists, sets, sorted sets, expiry) whose replies are the Redis replies after the wrapper's documented "
         "conversion (absent key -> zero value where the wrapper swallows redis.Nil, redis.Nil otherwise; bool for 0/1; "
         "pairs with integer scores; WRONGTYPE / not-an-integer as error classes). TLC enumerates every history of "
         "2-3 commands per command family and simulates long mixed histories with clock steps; each history is executed "
         "through redis.Redis (plain and Ctx forms chosen pseudo-randomly) and through kv.New on 1, 2 and 3 miniredis "
         "shards with different weights; every reply is compared with the model and at the end the union of the shards' "
         "keyspaces (type, value, TTL; every key on exactly one shard) must equal the model's keyspace. The model also has "
         "(i) a pipeline family: Pipelined/PipelinedCtx with 2-4 queued modelled commands incl. reads of absent keys and type "
         "clashes - every command's own result/error as seen through its Cmder must be the model's (plain go-redis form: "
         "redis.Nil only on the absent read) and the pipeline's error must be the first failed command's error (go-redis' "
         "documented rule); (ii) a context dimension: every modelled method in its Ctx form with a context that is already "
         "cancelled / past its deadline must return the context's error, put nothing on the wire and leave the keyspace "
         "unchanged (what go-redis does for the same call); (iii) bitmaps on short strings: a string is a text or, once a bitmap command has "
         "made bytes of it, a bit sequence - SetBit/GetBit/BitCount/BitPos/BitOpAnd/Or/Xor/Not with Redis' bit numbering, zero padding, "
         "byte-range clamping and destination rules, interleaved with Get/GetSet/MGet/Incr/Set on the same keys (replies compared byte by byte); "
         "(iv) HyperLogLogs as exact small sets (PFAdd's 'altered' answer, PFCount, PFMerge, type clashes, expiry); (v) three fixed Lua scripts "
         "(GET / SET / INCRBY wrappers) through Eval, EvalSha and ScriptLoad with go-redis' reply conversion (int64, string, status text, "
         "redis.Nil for a nil reply, WRONGTYPE / not-an-integer / NOSCRIPT classes) and the server's script cache as model state (checked at "
         "the end with SCRIPT EXISTS); (vi) complete iterations of Scan / SScan / HScan (cursor 0 until cursor 0, the caller passing on the "
         "cursor it was given, MATCH and COUNT dimensions; the reply is the set of everything returned); (vii) the argument shape of the variadic "
         "(...any) methods LPush RPush SAdd SRem ZRem PFAdd Eval EvalSha: the elements as arguments of their own (none / one / several) or as ONE "
         "[]string, []any, map[string]string or map[string]any argument, which go-redis spreads - the command's meaning does not depend on the "
         "shape (field sh of the command; keys C12:<target>:<op>:err|reply:args-as-<shape>), a call without any element is Redis' arity error, "
         "Eval / EvalSha also with trailing ARGV that the script does not read; same dimension in the wire tier. "
         "SetBit/GetBit/PFAdd/PFCount/Eval/SScan "
         "also run through kv.Store on 1-3 shards. A fault model (ShardedDel) covers "
         "the multi-key delete with one of three shards down: every order of 1-3 keys spanning the shards; every named key "
         "whose shard answers must be removed and counted, an error reported iff a named key's shard is down, checked by "
         "count/error and by reading every key back after the shard has returned. A second TLA+ "
         "table (RedisWire) gives the canonical RESP command for every wrapper method incl. geo, HyperLogLog, BitOp*, "
         "BitPos, Scan family, scripts; TLC enumerates argument tuples and the command that reaches miniredis "
         "(pre-hook) is compared, and for every method the Ctx form with a dead context must send nothing and return the context's "
         "error. The breaker clause (RedisBrk.tla) ranges over every entry point of the wrapper that goes through the breaker - "
         "the list is read from redis.go of the tree under test (every method calling a method of r.brk, directly or by "
         "delegation; an entry point without a driver call is exit 2) and includes Pipelined/PipelinedCtx, Eval, EvalSha: "
         "bursts of redis.Nil replies and of cancelled contexts through each entry point never make a later call be "
         "rejected, an outage through it does, and what a call of a burst returns (redis.Nil / an error that is context.Canceled) "
         "is itself a prediction (keys C12:ctx-form:ignores-context:<M>, C12:ctx-form:error:<M>, C12:pipeline:error-shape); driven on the real per-address breaker with a forced coin and frozen clock.",
    note="Trusted: TLC, miniredis 2.23.1 as the Redis environment (never the oracle: every expected value comes from "
         "the specification), go-redis' encoding of a command it is handed. Fully modelled (reply + effect): Get Set "
         "SetEx SetNX SetNXEx GetSet Incr IncrBy Decr DecrBy MGet Del Exists Expire ExpireAt Persist TTL Keys; HSet HSetNX "
         "HGet HMGet HMSet HGetAll HKeys HVals HLen HDel HExists HIncrBy; LPush RPush LPop RPop LLen LIndex LRange LRem "
         "LTrim; SAdd SRem SCard SIsMember SMembers SUnion SInter SDiff and their Store forms; ZAdd ZAddFloat(int-valued) "
         "ZAdds ZScore ZIncrBy ZCard ZCount ZRank ZRevRank ZRem ZRange ZRevRange Z(Rev)RangeWithScores "
         "Z(Rev)RangeByScoreWithScores(+AndLimit) ZRemRangeByScore ZRemRangeByRank ZUnionStore(2 keys, SUM); SetBit GetBit BitCount BitPos BitOpAnd BitOpOr BitOpXor BitOpNot "
         "(strings of up to 3 bytes); PFAdd PFCount PFMerge (up to 6 elements: miniredis' estimate is exact there, a wrong estimate would "
         "show as a disagreement); Eval EvalSha ScriptLoad for three fixed one-command scripts; Scan SScan HScan as complete iterations. "
         "Named deviations of miniredis 2.23.1 from Redis met on the way are definitions of spec/RedisKV.tla (the model follows Redis, the "
         "affected command/state combinations are not offered to the replay): MiniredisKeepsEmptyDestination, "
         "MiniredisBitopKeepsDestinationTTL, MiniredisHllIsATypeOfItsOwn (string commands on a HyperLogLog key), "
         "MiniredisPfaddReportsKnownElementsAfterCount, MiniredisCachesOnlySuccessfulEval, RedisVersionsDifferOnInvertedNegativeRange, "
         "MiniredisPfaddNeedsAnElement (PFADD without an element is not offered), MiniredisScanAndHScanAnswerInOneCall (SCAN/HSCAN always answer everything with cursor 0, so passing on a non-zero cursor is "
         "exercised through SSCAN only; the wire tier checks the cursor/MATCH/COUNT placement of all three). The wrapper has no ZScan. Only the "
         "emitted wire command is checked (no reply conversion / effect claimed) for geo, SPop, SRandMember (random replies), Ping; "
         "scripts other than the three fixed ones and Lua's array/table conversions are not covered; pipelines queue only classic commands; "
         "blocking pops and ScriptLoad "
         "bypass the breaker (reported in evidence; blocking pops are not driven); cluster type and TLS are not covered. Outages of the breaker "
         "stage are made by dropping connections at the server (listener kept) or by closing and reopening the listener, alternating per "
         "history; a listener that cannot be reopened (port taken by another process) makes the history run again on a fresh server. TTL of an absent/persistent key: the model says -2/-1, the "
         "wrapper returns 0 (go-redis reports the sentinels as Duration(-2/-1) and the wrapper truncates to seconds); "
         "the statement's 'same result after the documented conversion' admits both, so both are accepted and the "
         "observation is counted in evidence (ttl.sentinel-as-0). During transparency runs the breaker's coin is forced "
         "to never reject (H2), because WRONGTYPE replies count as breaker failures (C01 behaviour).",
    technique="TLA+ model of Redis (RedisKV) + wire-command table (RedisWire); TLC-generated histories replayed on redis.Redis and kv.Store over miniredis",
    design="4/C12")

FINISH = dict(rule="histories = complete TLC enumeration (BFS over the history variable) per command family (incl. bitmap, HyperLogLog, script, scan) up to MaxLen "
                   "commands over the family's bounded argument domain, plus seeded TLC simulation of long mixed histories; "
                   "every reply of every history on every target (wrapper, 1/2/3-shard store) and the final keyspace are "
                   "compared with the model; wire tier: every argument tuple enumerated by TLC for every method row")

BASE = dict(Keys='{"k1","k2"}', Mem='<<"a","b">>', R=40, MaxList=4, VS='{"a","1"}', SecS="{2}", NS="{2}",
            IdxS="{-1,0,1}", ScoreS="{-1,0,2}", PageS="{0,1}", SizeS="{0,1,2}", MaxAdv=1, KVOnly=False, PipeLens="{2,3}",
            BitOffS="{0,7,9}", ByteIdxS="{-1,0,1}", HE='{"x","y"}', CountS="{1,2}", ShapeS='{"flat"}', ZeroElems=False, PadS="{0}")
# every argument shape of the variadic (...any) methods (spec/RedisKV.tla, "argument shapes"), calls without any element,
# and Eval / EvalSha with a trailing ARGV element that the script does not read (several scalars / two-element slices and maps)
ALLSH = dict(ShapeS='{"flat","strs","anys","smap","amap"}', ZeroElems=True, PadS="{0,1}")

# the three fixed Lua scripts of family "script" (their meaning is spec/RedisKV.tla!ScriptStep)
SCRIPTS = dict(sget="return redis.call('GET', KEYS[1])",
               sset="return redis.call('SET', KEYS[1], ARGV[1])",
               sincr="return redis.call('INCRBY', KEYS[1], ARGV[1])")


def consts(**kw):
    K = dict(BASE)
    K.update(kw)
    fams = K.pop("fams")
    K["Fams"] = "{%s}" % ",".join('"%s"' % f for f in fams.split(","))
    # input facts that TLC cannot compute: the ASCII bytes of every text a string key can hold, the SHA-1 of the scripts
    texts = sorted(set(re.findall(r'"([^"]*)"', K["VS"])) | {str(i) for i in range(-K["R"], K["R"] + 1)})
    K["TextBytes"] = " @@ ".join('("%s" :> <<%s>>)' % (t, ",".join(str(b) for b in t.encode("ascii"))) for t in texts)
    K["Scripts"] = "[%s]" % ", ".join('%s |-> [src |-> "%s", sha |-> "%s"]' % (n, src, hashlib.sha1(src.encode()).hexdigest())
                                      for n, src in sorted(SCRIPTS.items()))
    return K


# model checking of the Redis model itself (sanity invariants), one entry per configuration:
# one key, every classic family: all type clashes, expiry of every type; two keys for the multi-key set commands;
# bitmaps and HyperLogLogs with strings and expiry on one key; bitmaps / HyperLogLogs / scans / sets on two keys;
# scripts and the script cache with strings and expiry
MC = (("RedisKV-mc1", dict(fams="str,key,hash,list,set,zset,pipe", Keys='{"k1"}', VS='{"a","1"}', NS="{2}", IdxS="{-1,0,1}",
                           ScoreS="{0,1}", PageS="{0,1}", SizeS="{0,1}", MaxList=3, R=4, SecS="{1,2}", MaxAdv=1), "clock <= 3"),
      ("RedisKV-mc2", dict(fams="str,key,set", Keys='{"k1","k2"}', VS='{"1"}', NS="{2}", R=4, SecS="{1}", MaxAdv=1), "clock <= 2"),
      ("RedisKV-mc3", dict(fams="str,key,bit,hll", Keys='{"k1"}', VS='{"a","1"}', NS="{2}", R=4, SecS="{1}", MaxAdv=1,
                           BitOffS="{1,7,9}", ByteIdxS="{0,-1}", HE='{"x","y"}'), "clock <= 2"),
      ("RedisKV-mc4", dict(fams="bit,hll,scan,set", Keys='{"k1","k2"}', VS='{"1"}', MaxAdv=0, BitOffS="{7}", ByteIdxS="{0}",
                           HE='{"x"}', CountS="{1}"), "clock <= 0"),
      ("RedisKV-mc5", dict(fams="script,str,key", Keys='{"k1"}', VS='{"a","1"}', NS="{2}", R=4, SecS="{1}", MaxAdv=1), "clock <= 2"))


def mc(ctx, name, kw, bound):
    K = consts(**kw)
    cfg = core.render_cfg(spec="Spec", constants=K,
                          invariants=["TypeOK", "WrongTypeOnlyOnTypeClash", "SetBitSticks", "LoadedScriptIsCallable"],
                          properties=["TTLSemantics"], constraints=["Bound_"], view="core")
    ctx.tlc("RedisKV", cfg, constants=K, defs=dict(Bound_=bound), name=name, timeout=900, workers=W, heap="4g")


def gen(ctx, name, maxlen, simulate=None, simw=1, ctxfrom=0, **kw):
    K = consts(**kw)
    K["MaxLen"] = maxlen
    K["CtxFrom"] = ctxfrom
    cfg = core.render_cfg(spec="GSpec", constants=K, invariants=["Emit"])
    r = ctx.tlc("RedisKVGen", cfg, constants=K, name=name, simulate=simulate, depth=maxlen + 2, timeout=1200,
                workers=(simw if simulate else W), heap="4g")
    return r.printed


def run(ctx):
    binp = ctx.go_build(PKG, OVERLAY, name="c12drv")
    ctx.assumptions += ["miniredis 2.23.1 is the Redis environment", "breaker coin forced to never-reject in transparency runs (H2)"]
    one = '{"k1"}'
    mixkw = dict(fams="str,key,hash,list,set,zset,pipe", PipeLens="{2,3,4}", Keys='{"k1","k2","k3"}', Mem='<<"a","b","c">>', VS='{"a","1","-2"}',
                 SecS="{1,3}", NS="{-3,2}", IdxS="{-2,0,1}", ScoreS="{-1,0,2}", PageS="{0,1}", SizeS="{0,2}", MaxAdv=2)
    # long mixed histories over the bitmap / HyperLogLog / script / scan families together with strings, key commands
    # (expiry), sets and hashes
    NEWMIX = dict(fams="str,key,bit,hll,script,scan,set,hash", Keys='{"k1","k2","k3"}', Mem='<<"a","b","c">>', VS='{"a","1","-2"}',
                  SecS="{1,3}", NS="{-3,2}", MaxAdv=2, BitOffS="{0,7,9,15}", ByteIdxS="{-2,-1,0,1}", HE='{"x","y","z","u"}', CountS="{1,2}")
    if ctx.quick:
        plans = [("str2", 2, dict(fams="str,key")),
                 ("str3", 3, dict(fams="str,key", Keys=one, VS='{"1"}')),
                 ("hash2", 2, dict(fams="hash,key", KVOnly=True)),
                 ("hash3", 3, dict(fams="hash", Keys=one, VS='{"1"}')),
                 ("list2", 2, dict(fams="list")),
                 ("list3", 3, dict(fams="list", Keys=one, VS='{"a"}', IdxS="{-1,1}")),
                 ("set2", 2, dict(fams="set")),
                 ("set3", 3, dict(fams="set", Keys=one)),
                 ("zset2", 2, dict(fams="zset", ScoreS="{0,2}", IdxS="{-1,0}", SizeS="{0,1}")),
                 # pipelines of 3 queued commands (reads of absent keys, type clashes, several failing commands)
                 ("pipe3", 3, dict(fams="pipe", VS='{"1"}', PipeLens="{3}")),
                 # context dimension: one ordinary command, then any command in its Ctx form with a dead context
                 ("ctxA", 2, dict(fams="str,key,hash", ctxfrom=2, VS='{"1"}')),
                 ("ctxB", 2, dict(fams="list,set", ctxfrom=2, VS='{"a"}', IdxS="{0}")),
                 ("ctxZ", 2, dict(fams="zset", Keys=one, ctxfrom=2, ScoreS="{0,2}", IdxS="{0}", SizeS="{0,1}", PageS="{0}")),
                 # bitmaps on short strings: with the string commands on two keys (texts turned into bytes and back, INCR /
                 # GET of byte strings, BITOP over two sources, type clashes), three bitmap commands on one key
                 ("bit2", 2, dict(fams="bit,str")),
                 ("bit3", 3, dict(fams="bit", Keys=one, BitOffS="{0,9}", ByteIdxS="{0,-1}")),
                 ("bitx2", 2, dict(fams="bit,set", BitOffS="{7}", ByteIdxS="{0}")),      # bitmap commands and keys of another type
                 # HyperLogLogs as exact small sets, with key commands (expiry, Del) and strings (type clashes)
                 ("hll2", 2, dict(fams="hll,key,str", VS='{"1"}')),
                 ("hll3", 3, dict(fams="hll")),
                 # the three fixed scripts through Eval / EvalSha / ScriptLoad: reply conversion, the script cache
                 ("scr2", 2, dict(fams="script,str,list,bit", Keys=one, BitOffS="{7}", ByteIdxS="{0}")),
                 ("scr3", 3, dict(fams="script", Keys=one, VS='{"1"}')),
                 # complete iterations of Scan / SScan / HScan after set and hash commands
                 ("scan2", 2, dict(fams="scan,set,hash", Keys=one, VS='{"1"}')),
                 ("ctxN", 2, dict(fams="bit,hll,script,scan", Keys=one, ctxfrom=2, VS='{"1"}', BitOffS="{7}", ByteIdxS="{0}", CountS="{1}")),
                 # argument shape of the variadic (...any) methods: nothing / one scalar / several scalars / ONE []string, []any
                 # or single-entry map argument, per family (store-only universes: every history runs on all four targets)
                 ("shpl2", 2, dict(ALLSH, fams="list", Keys=one, IdxS="{0}")),
                 ("shps2", 2, dict(ALLSH, fams="set,hll,zset", Keys=one, ScoreS="{0}", IdxS="{0}", PageS="{0}", SizeS="{1}", NS="{2}", KVOnly=True)),
                 # Eval and EvalSha on the wrapper; the histories without EvalSha / ScriptLoad also run on the stores
                 ("shpe2", 2, dict(ALLSH, fams="script,str", Keys=one, VS='{"1"}'))]
        qkw = dict(mixkw, Keys='{"k1","k2"}', IdxS="{-2,1}", ScoreS="{-1,2}", SizeS="{1}")
        # (the simulator's cost grows with the command universe: the long histories of the quick tier carry the slice shapes,
        # the exhaustive shp* runs above and the thorough tier all of them)
        sims = [("mix", 40, 12, dict(qkw, ShapeS='{"flat","anys"}', ZeroElems=True)),
                ("mixkv", 40, 12, dict(qkw, KVOnly=True, ShapeS='{"flat","strs"}', ZeroElems=True)),
                ("mixn", 40, 12, dict(NEWMIX, Keys='{"k1","k2"}', ShapeS='{"flat","strs","anys"}', ZeroElems=True, PadS="{0,1}"))]
    else:
        plans = [("str2", 2, dict(fams="str,key", VS='{"a","1","-2"}', SecS="{1,2}", NS="{-3,2}")),
                 ("str3", 3, dict(fams="str,key", Keys=one)),
                 ("strkv3", 3, dict(fams="str,key", VS='{"1"}', KVOnly=True)),
                 ("hash2", 2, dict(fams="hash,key", Mem='<<"a","b","c">>', VS='{"a","1","-2"}')),
                 ("hash3", 3, dict(fams="hash", Keys=one)),
                 ("hashkv3", 3, dict(fams="hash", VS='{"1"}', KVOnly=True)),
                 ("list2", 2, dict(fams="list,key", IdxS="{-2,-1,0,1,2}", VS='{"a","1","-2"}')),
                 ("list3", 3, dict(fams="list", Keys=one, IdxS="{-2,0,1}")),
                 ("set2", 2, dict(fams="set,key", Keys='{"k1","k2","k3"}', Mem='<<"a","b","c">>')),
                 ("set3", 3, dict(fams="set")),
                 ("zset2", 2, dict(fams="zset", ScoreS="{-1,0,2}", IdxS="{-2,-1,0,1}", Mem='<<"a","b","c">>', SizeS="{0,1}")),
                 ("zset3", 3, dict(fams="zset", Keys=one, ScoreS="{0,2}", IdxS="{-1}", PageS="{1}", SizeS="{1}", KVOnly=True)),
                 ("pipe3", 3, dict(fams="pipe", PipeLens="{3}")),
                 ("pipe4", 4, dict(fams="pipe", Keys=one, PipeLens="{2,4}")),
                 ("ctxA", 2, dict(fams="str,key,hash", ctxfrom=2)),
                 ("ctxB", 2, dict(fams="list,set", ctxfrom=2)),
                 ("ctxZ", 2, dict(fams="zset", ctxfrom=2, ScoreS="{0,2}", IdxS="{-1,0}", SizeS="{0,1}")),
                 ("bit2", 2, dict(fams="bit,str,key", BitOffS="{0,7,9,15}", ByteIdxS="{-2,-1,0,1}", SecS="{1}")),
                 ("bit3", 3, dict(fams="bit", Keys=one, BitOffS="{0,7,9}", ByteIdxS="{0,1,-1}")),
                 ("bitkv3", 3, dict(fams="bit,str", VS='{"a"}', NS="{2}", BitOffS="{1,7,22}", KVOnly=True)),
                 ("bitx2", 2, dict(fams="bit,set,list,hll", BitOffS="{7,9}", ByteIdxS="{0,-1}")),
                 ("hll2", 2, dict(fams="hll,key,str,set", Keys='{"k1","k2","k3"}', HE='{"x","y","z"}')),
                 ("hll3", 3, dict(fams="hll", HE='{"x","y","z"}')),
                 ("hllkv4", 4, dict(fams="hll", Keys=one, HE='{"x","y","z","u"}', KVOnly=True)),
                 ("scr2", 2, dict(fams="script,str,list,key,bit", VS='{"a","1","-2"}', NS="{-3,2}", BitOffS="{7}", ByteIdxS="{0}")),
                 ("scr3", 3, dict(fams="script", Keys=one, VS='{"a","1"}', NS="{-3,2}")),
                 ("scan2", 2, dict(fams="scan,set,hash,key", Mem='<<"a","b","c">>', CountS="{1,2,5}")),
                 ("scan3", 3, dict(fams="scan,set", Keys=one, Mem='<<"a","b","c">>')),
                 ("ctxN", 2, dict(fams="bit,hll,script,scan", ctxfrom=2)),
                 ("shpl2", 2, dict(ALLSH, fams="list,key", VS='{"a","1","-2"}', IdxS="{-1,0}")),
                 ("shpl3", 3, dict(ALLSH, fams="list", Keys=one, VS='{"a"}', IdxS="{0}")),
                 ("shps2", 2, dict(ALLSH, fams="set", Mem='<<"a","b","c">>')),
                 ("shpskv3", 3, dict(ALLSH, fams="set", Keys=one, KVOnly=True)),
                 ("shpz2", 2, dict(ALLSH, fams="zset", ScoreS="{0,2}", IdxS="{0}", PageS="{0}", SizeS="{1}", NS="{2}", KVOnly=True)),
                 ("shph2", 2, dict(ALLSH, fams="hll,key", HE='{"x","y","z"}')),
                 ("shphkv3", 3, dict(ALLSH, fams="hll", Keys=one, KVOnly=True)),
                 ("shpe2", 2, dict(ALLSH, fams="script,str,key", VS='{"a","1"}', NS="{-3,2}")),
                 ("shpekv3", 3, dict(ALLSH, fams="script", Keys=one, VS='{"1"}', KVOnly=True)),
                 ("ctxS", 2, dict(ALLSH, fams="list,set,hll,script", Keys=one, ctxfrom=2, VS='{"1"}'))]
        # (the simulator's cost grows with the command universe: every long run carries three of the five shapes, all runs
        # together - and the exhaustive shp* runs - all of them)
        sh = lambda shapes, pad="{0}": dict(ShapeS="{%s}" % ",".join('"%s"' % x for x in shapes.split(",")), ZeroElems=True, PadS=pad)
        sims = [("mix", 40, 150, dict(mixkw, IdxS="{-3,-1,0,1,2}", ScoreS="{-2,0,1,2}", MaxList=5, **sh("flat,anys,smap"))),
                ("mixkv", 40, 150, dict(mixkw, IdxS="{-3,-1,0,1,2}", ScoreS="{-2,0,1,2}", MaxList=5, KVOnly=True, **sh("flat,strs,amap"))),
                ("mix80", 80, 60, dict(mixkw, **sh("flat,strs,anys"))),
                ("mixn", 40, 150, dict(NEWMIX, BitOffS="{0,7,9,15,22}", ByteIdxS="{-2,-1,0,1,2}", HE='{"x","y","z","u","v","w"}',
                                       **sh("flat,strs,anys", "{0,1}"))),
                ("mixnkv", 40, 150, dict(NEWMIX, KVOnly=True, **sh("flat,anys,smap", "{0,1}"))),
                ("mixn80", 80, 60, dict(NEWMIX, **sh("flat,strs,amap", "{0,1}")))]
    ctx.exhaustive = True
    # TLC runs (model checking of the model itself, generation) in parallel - each is start-up dominated -, the replays
    # one after the other in this thread (SHARDS processes each); the longest TLC runs first
    jobs = [(n, ml, num, kw) for n, ml, num, kw in sims] + [(n, None, None, (kw, bound)) for n, kw, bound in MC] + \
           [(n, ml, None, kw) for n, ml, kw in plans]

    def produce(job):
        name, maxlen, num, kw = job
        try:
            if maxlen is None:
                mc(ctx, name, *kw)
                return name, None, None
            if num is None:
                return name, gen(ctx, name, maxlen, **kw), None
            return name, gen(ctx, name, maxlen, simulate=num, simw=SIMW, **kw), None
        except Exception as e:      # re-raised in the main thread
            return name, None, e

    first_err = None
    with ThreadPoolExecutor(POOL) as ex:
        for fut in as_completed([ex.submit(produce, j) for j in jobs]):
            name, cases, err = fut.result()
            if err is not None:
                first_err = first_err or err
                continue
            if cases is None:
                continue
            path, _ = ctx.write_cases(name + ".ndjson", cases)
            if name in ("str2", "zset2", "mix", "bit2", "scr3", "mixn"):
                ctx.samples += core.sample_of(cases[len(cases) // 3:], 1)[:1]
            try:
                ctx.replay(PKG, OVERLAY, "^TestVerifC12$", path, label=name, shards=SHARDS, binp=binp)
            except core.Infra as e:
                first_err = first_err or e
    if first_err is not None:
        if not ctx.disagreements:
            raise first_err
        ctx.notes["harness_problem_besides_disagreement"] = str(first_err)[:600]
    # (a harness problem in a later stage must not turn disagreements that were already observed into exit 2)
    try:
        wire_path, methods = wire(ctx, binp)
        brk(ctx, binp, wire_path, methods)
        shard_del(ctx, binp)
    except core.Infra as e:
        if not ctx.disagreements:
            raise
        ctx.notes["harness_problem_after_disagreement"] = str(e)[:600]
    if not ctx.disagreements:
        vacuity(ctx)


def vacuity(ctx):
    """Coverage that the run must have had (evaluated only when no disagreement was found)."""
    tot = {}
    for k, v in ctx.counters.items():
        name = k.split(".", 1)[1]
        tot[name] = tot.get(name, 0) + v
    need = ["redis." + op for op in ("setbit", "getbit", "bitcount", "bitpos", "bitopand", "bitopor", "bitopxor", "bitopnot", "pfadd",
                                     "pfcount", "pfmerge", "eval", "evalsha", "scriptload", "scanall", "sscanall", "hscanall")]
    need += ["%s.%s" % (t, op) for t in ("kv1", "kv2", "kv3") for op in ("setbit", "getbit", "pfadd", "pfcount", "eval", "sscanall")]
    need += ["redis.eval!nil", "redis.eval!wrongtype", "redis.eval!notint", "redis.evalsha!noscript", "redis.evalsha!nil",
             "redis.pfadd!wrongtype", "redis.setbit!wrongtype", "redis.bitopand!wrongtype", "redis.sscanall!wrongtype",
             "redis.get.bytes", "redis.getset.bytes", "redis.eval.bytes", "redis.incrby!notint",
             "redis.sscanall.multi-call", "kv3.sscanall.multi-call", "kv3.eval!nil",
             "outage.dropped-connections"]
    # the argument-shape dimension: every variadic (...any) method in every shape on the wrapper and on every store
    for t in ("redis", "kv1", "kv2", "kv3"):
        for op in ("lpush", "rpush", "sadd", "srem", "zrem", "pfadd", "eval") + (("evalsha",) if t == "redis" else ()):
            need += ["%s.%s.shape.%s" % (t, op, sh) for sh in ("flat", "strs", "anys", "smap", "amap")]
            if op != "pfadd":       # without any element: no trailing argument, an empty slice
                need += ["%s.%s.shape.%s.empty" % (t, op, sh) for sh in ("flat", "strs", "anys")]
        need += ["%s.%s!arity" % (t, op) for op in ("lpush", "rpush", "sadd", "srem", "zrem")]
    missing = [n for n in need if tot.get(n, 0) == 0]
    if missing:
        raise core.Infra("vacuous run: never exercised: %s" % missing)
    ctx.notes["named_deviations"] = ["MiniredisKeepsEmptyDestination", "MiniredisBitopKeepsDestinationTTL", "MiniredisHllIsATypeOfItsOwn",
                                     "MiniredisPfaddReportsKnownElementsAfterCount", "MiniredisCachesOnlySuccessfulEval",
                                     "RedisVersionsDifferOnInvertedNegativeRange", "MiniredisScanAndHScanAnswerInOneCall",
                                     "MiniredisPfaddNeedsAnElement"]


def wire(ctx, binp):
    K = dict(Quick=ctx.quick)
    cfg = core.render_cfg(spec="Spec", constants=K, invariants=["Emit"])
    r = ctx.tlc("RedisWire", cfg, constants=K, name="wire", timeout=600, workers=1, heap="2g")
    path, n = ctx.write_cases("wire.ndjson", r.printed)
    ctx.samples += core.sample_of(r.printed, 1)
    ctx.replay(PKG, OVERLAY, "^TestVerifC12Wire$", path, label="wire", shards=4, binp=binp)
    methods = {json.loads(l)["m"] for l in r.printed}
    ctx.notes["wire_methods_checked"] = len(methods)
    ctx.notes["wire_rows"] = n
    return path, methods


def shard_del(ctx, binp):
    """Fault histories of the sharded store's multi-key delete (spec/ShardedDel.tla): some keys set, one of three
    shards closed, one Del over 1..3 keys in every order, shard back, read-back of every key."""
    K = dict(Keys='<<"a","b","c">>', Home="<<1,2,3>>", Shards="{1,2,3}") if ctx.quick else \
        dict(Keys='<<"a","b","c","d">>', Home="<<1,2,3,1>>", Shards="{1,2,3}")
    cfg = core.render_cfg(spec="Spec", constants=K, invariants=["Emit"], properties=["DelRemovesEveryReachableKey"])
    r = ctx.tlc("ShardedDel", cfg, constants=K, name="sharddel", timeout=600, workers=2, heap="2g")
    path, _ = ctx.write_cases("sharddel.ndjson", r.printed)
    ctx.samples += core.sample_of(r.printed[len(r.printed) // 2:], 1)[:1]
    ctx.replay(PKG, OVERLAY, "^TestVerifC12ShardDel$", path, label="sharddel", shards=SHARDS, binp=binp)


def guarded_entry_points():
    """Read lib/store/redis/redis.go of the tree under test: which methods of *Redis go through the breaker
    (their body, or the body of the *Redis method they delegate to, calls r.brk.<something>), and with which
    call.  Returns (entry points without the Ctx suffix, {call shape: count}, methods that bypass the breaker)."""
    src = open(os.path.join(core.REPO, "lib/store/redis/redis.go"), encoding="utf-8").read()
    parts = re.split(r"(?m)^func \(r \*Redis\) (\w+)\(", src)
    bodies = {parts[i]: parts[i + 1] for i in range(1, len(parts) - 1, 2)}
    direct = {n: re.findall(r"r\.brk\.(\w+)\(", b) for n, b in bodies.items()}
    guarded = {n for n, c in direct.items() if c}
    changed = True
    while changed:                      # delegation: X -> r.YCtx(...) with Y guarded
        changed = False
        for n, b in bodies.items():
            if n not in guarded and any(m in guarded for m in re.findall(r"\br\.(\w+)\(", b)):
                guarded.add(n)
                changed = True
    shapes = {}
    for c in direct.values():
        for x in c:
            shapes[x] = shapes.get(x, 0) + 1
    base = lambda n: n[:-3] if n.endswith("Ctx") else n
    exported = {n for n in bodies if n[0].isupper() and n != "String"}
    return {base(n) for n in guarded if n[0].isupper()}, shapes, sorted({base(n) for n in exported - guarded})


def brk(ctx, binp, wire_path, known):
    entries, shapes, bypass = guarded_entry_points()
    known = set(known)
    missing = sorted(entries - known)
    if missing:
        raise core.Infra("breaker-guarded entry points of redis.go without a driver call (extend RedisWire/wire_test.go): %s" % missing)
    ctx.notes["breaker_entry_points"] = len(entries)
    ctx.notes["breaker_call_shapes_in_source"] = shapes
    ctx.notes["methods_bypassing_breaker"] = bypass
    K = dict(MaxLen=3 if ctx.quick else 4, Methods=sorted('"%s"' % m for m in entries))
    cfg = core.render_cfg(spec="Spec", constants=K, invariants=["Emit"])
    r = ctx.tlc("RedisBrk", cfg, constants=K, name="brk", timeout=600, workers=2, heap="2g")
    path, n = ctx.write_cases("brk.ndjson", r.printed)
    ctx.replay(PKG, OVERLAY, "^TestVerifC12Breaker$", path, label="brk", shards=SHARDS, binp=binp, env=dict(VERIF_WIRE=wire_path))


def replay(ctx, rp):
    path, _ = ctx.write_cases("replay.ndjson", [rp["case"]])
    key = rp.get("key") or ""
    test = "^TestVerifC12$"
    if key.startswith("C12:wire"):
        test = "^TestVerifC12Wire$"
    elif key.startswith("C12:kv:del-fault"):
        test = "^TestVerifC12ShardDel$"
    elif key.startswith("C12:breaker") or key.startswith("C12:nil-reply"):
        test = "^TestVerifC12Breaker$"
    env = dict(VERIF_FORMS="both")
    if test == "^TestVerifC12Breaker$":
        K = dict(Quick=False)
        r = ctx.tlc("RedisWire", core.render_cfg(spec="Spec", constants=K, invariants=["Emit"]), constants=K, name="wire",
                    timeout=600, workers=1, heap="2g")
        env["VERIF_WIRE"] = ctx.write_cases("wire.ndjson", r.printed)[0]
    ctx.replay(PKG, OVERLAY, test, path, label="replay", env=env)
