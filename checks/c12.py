"""C12 - Redis wrapper and sharded KV store.  spec/RedisKV.tla (sequential model of the Redis keyspace with the
wrapper's reply conversion; model-checked for sanity invariants), RedisKVGen.tla (history generator) -> replay
through redis.Redis and kv.New on 1-3 miniredis shards; spec/RedisWire.tla (canonical wire command of every
wrapper method) -> comparison with the commands recorded by miniredis' pre-hook; breaker clause driven through
the real per-address breaker."""
import json, os, re
from concurrent.futures import ThreadPoolExecutor, as_completed
from vlib import core

PKG = "./lib/store/kv"
OVERLAY = {"lib/store/kv/zz_verif_c12_test.go": "c12/kv_test.go",
           "lib/store/kv/zz_verif_c12_wire_test.go": "c12/wire_test.go",
           "lib/store/kv/zz_verif_c12_shard_test.go": "c12/shard_test.go"}
W = 3       # TLC workers per generation run (4 runs in parallel)
SIMW = 3    # TLC simulation workers (num traces are generated per worker)
META = dict(
    text="Model-based replay against a sequential TLA+ model of the Redis keyspace (strings, generic key commands, "
         "hashes, lists, sets, sorted sets, expiry) whose replies are the Redis replies after the wrapper's documented "
         "conversion (absent key -> zero value where the wrapper swallows redis.Nil, redis.Nil otherwise; bool for 0/1; "
         "pairs with integer scores; WRONGTYPE / not-an-integer as error classes). TLC enumerates every history of "
         "2-3 commands per command family and simulates long mixed histories with clock steps; each history is executed "
         "through redis.Redis (plain and Ctx forms chosen pseudo-randomly) and through kv.New on 1, 2 and 3 miniredis "
         "shards with different weights; every reply is compared with the model and at the end the union of the shards' "
         "keyspaces (type, value, TTL; every key on exactly one shard) must equal the model's keyspace. The model also has "
         "(i) a pipeline family: Pipelined/PipelinedCtx with 2-4 queued modelled commands incl. reads of absent keys and type "
         "clashes - every command's own result/error as seen through its Cmder must be the model's (plain go-redis form: "
         "redis.Nil only on the absent read) and the pipeline's error must be the first failed command's error (go-redis' "
         "documented rule); (ii) a context dimension: every modelled method in its Ctx form with a context that is already "
         "cancelled / past its deadline must return the context's error, put nothing on the wire and leave the keyspace "
         "unchanged (what go-redis does for the same call). A fault model (ShardedDel) covers "
         "the multi-key delete with one of three shards down: every order of 1-3 keys spanning the shards; every named key "
         "whose shard answers must be removed and counted, an error reported iff a named key's shard is down, checked by "
         "count/error and by reading every key back after the shard has returned. A second TLA+ "
         "table (RedisWire) gives the canonical RESP command for every wrapper method incl. geo, HyperLogLog, BitOp*, "
         "BitPos, Scan family, scripts; TLC enumerates argument tuples and the command that reaches miniredis "
         "(pre-hook) is compared, and for every method the Ctx form with a dead context must send nothing and return the context's "
         "error. The breaker clause (RedisBrk.tla) ranges over every entry point of the wrapper that goes through the breaker - "
         "the list is read from redis.go of the tree under test (every method calling a method of r.brk, directly or by "
         "delegation; an entry point without a driver call is exit 2) and includes Pipelined/PipelinedCtx, Eval, EvalSha: "
         "bursts of redis.Nil replies and of cancelled contexts through each entry point never make a later call be "
         "rejected, an outage through it does, and what a call of a burst returns (redis.Nil / an error that is context.Canceled) "
         "is itself a prediction (keys C12:ctx-form:ignores-context:<M>, C12:ctx-form:error:<M>, C12:pipeline:error-shape); driven on the real per-address breaker with a forced coin and frozen clock.",
    note="Trusted: TLC, miniredis 2.23.1 as the Redis environment (never the oracle: every expected value comes from "
         "the specification), go-redis' encoding of a command it is handed. Fully modelled (reply + effect): Get Set "
         "SetEx SetNX SetNXEx GetSet Incr IncrBy Decr DecrBy MGet Del Exists Expire ExpireAt Persist TTL Keys; HSet HSetNX "
         "HGet HMGet HMSet HGetAll HKeys HVals HLen HDel HExists HIncrBy; LPush RPush LPop RPop LLen LIndex LRange LRem "
         "LTrim; SAdd SRem SCard SIsMember SMembers SUnion SInter SDiff and their Store forms; ZAdd ZAddFloat(int-valued) "
         "ZAdds ZScore ZIncrBy ZCard ZCount ZRank ZRevRank ZRem ZRange ZRevRange Z(Rev)RangeWithScores "
         "Z(Rev)RangeByScoreWithScores(+AndLimit) ZRemRangeByScore ZRemRangeByRank ZUnionStore(2 keys, SUM). Only the "
         "emitted wire command is checked (no reply conversion / effect claimed) for geo, HyperLogLog, BitCount, BitOp*, "
         "BitPos, GetBit/SetBit, Scan/SScan/HScan, SPop, SRandMember, Eval/EvalSha/ScriptLoad, Ping; pipelines are covered "
         "for the wire commands of one two-command pipeline and for the breaker clause only; blocking pops and ScriptLoad "
         "bypass the breaker (reported in evidence) and are not driven; cluster type and TLS are not covered. TTL of an absent/persistent key: the model says -2/-1, the "
         "wrapper returns 0 (go-redis reports the sentinels as Duration(-2/-1) and the wrapper truncates to seconds); "
         "the statement's 'same result after the documented conversion' admits both, so both are accepted and the "
         "observation is counted in evidence (ttl.sentinel-as-0). During transparency runs the breaker's coin is forced "
         "to never reject (H2), because WRONGTYPE replies count as breaker failures (C01 behaviour).",
    technique="TLA+ model of Redis (RedisKV) + wire-command table (RedisWire); TLC-generated histories replayed on redis.Redis and kv.Store over miniredis",
    design="4/C12")

FINISH = dict(rule="histories = complete TLC enumeration (BFS over the history variable) per command family up to MaxLen "
                   "commands over the family's bounded argument domain, plus seeded TLC simulation of long mixed histories; "
                   "every reply of every history on every target (wrapper, 1/2/3-shard store) and the final keyspace are "
                   "compared with the model; wire tier: every argument tuple enumerated by TLC for every method row")

BASE = dict(Keys='{"k1","k2"}', Mem='<<"a","b">>', R=40, MaxList=4, VS='{"a","1"}', SecS="{2}", NS="{2}",
            IdxS="{-1,0,1}", ScoreS="{-1,0,2}", PageS="{0,1}", SizeS="{0,1,2}", MaxAdv=1, KVOnly=False, PipeLens="{2,3}")


def consts(**kw):
    K = dict(BASE)
    K.update(kw)
    fams = K.pop("fams")
    K["Fams"] = "{%s}" % ",".join('"%s"' % f for f in fams.split(","))
    return K


def mc(ctx):
    # one key, every family: all type clashes, expiry of every type; two keys for the multi-key set commands
    for name, kw, bound in (
            ("RedisKV-mc1", dict(fams="str,key,hash,list,set,zset,pipe", Keys='{"k1"}', VS='{"a","1"}', NS="{2}", IdxS="{-1,0,1}",
                                 ScoreS="{0,1}", PageS="{0,1}", SizeS="{0,1}", MaxList=3, R=4, SecS="{1,2}", MaxAdv=1), "clock <= 3"),
            ("RedisKV-mc2", dict(fams="str,key,set", Keys='{"k1","k2"}', VS='{"1"}', NS="{2}", R=4, SecS="{1}", MaxAdv=1), "clock <= 2")):
        K = consts(**kw)
        cfg = core.render_cfg(spec="Spec", constants=K, invariants=["TypeOK", "WrongTypeOnlyOnTypeClash"],
                              properties=["TTLSemantics"], constraints=["Bound_"], view="core")
        ctx.tlc("RedisKV", cfg, constants=K, defs=dict(Bound_=bound), name=name, timeout=900, workers=W, heap="4g")


def gen(ctx, name, maxlen, simulate=None, simw=1, ctxfrom=0, **kw):
    K = consts(**kw)
    K["MaxLen"] = maxlen
    K["CtxFrom"] = ctxfrom
    cfg = core.render_cfg(spec="GSpec", constants=K, invariants=["Emit"])
    r = ctx.tlc("RedisKVGen", cfg, constants=K, name=name, simulate=simulate, depth=maxlen + 2, timeout=1200,
                workers=(simw if simulate else W), heap="4g")
    return r.printed


def run(ctx):
    mc(ctx)
    binp = ctx.go_build(PKG, OVERLAY, name="c12drv")
    ctx.assumptions += ["miniredis 2.23.1 is the Redis environment", "breaker coin forced to never-reject in transparency runs (H2)"]
    one = '{"k1"}'
    mixkw = dict(fams="str,key,hash,list,set,zset,pipe", PipeLens="{2,3,4}", Keys='{"k1","k2","k3"}', Mem='<<"a","b","c">>', VS='{"a","1","-2"}',
                 SecS="{1,3}", NS="{-3,2}", IdxS="{-2,0,1}", ScoreS="{-1,0,2}", PageS="{0,1}", SizeS="{0,2}", MaxAdv=2)
    if ctx.quick:
        plans = [("str2", 2, dict(fams="str,key")),
                 ("str3", 3, dict(fams="str,key", Keys=one, VS='{"1"}')),
                 ("hash2", 2, dict(fams="hash,key", KVOnly=True)),
                 ("hash3", 3, dict(fams="hash", Keys=one, VS='{"1"}')),
                 ("list2", 2, dict(fams="list")),
                 ("list3", 3, dict(fams="list", Keys=one, VS='{"a"}', IdxS="{-1,1}")),
                 ("set2", 2, dict(fams="set")),
                 ("set3", 3, dict(fams="set", Keys=one)),
                 ("zset2", 2, dict(fams="zset", ScoreS="{0,2}", IdxS="{-1,0}", SizeS="{0,1}")),
                 # pipelines of 3 queued commands (reads of absent keys, type clashes, several failing commands)
                 ("pipe3", 3, dict(fams="pipe", VS='{"1"}', PipeLens="{3}")),
                 # context dimension: one ordinary command, then any command in its Ctx form with a dead context
                 ("ctxA", 2, dict(fams="str,key,hash", ctxfrom=2, VS='{"1"}')),
                 ("ctxB", 2, dict(fams="list,set", ctxfrom=2, VS='{"a"}', IdxS="{0}")),
                 ("ctxZ", 2, dict(fams="zset", Keys=one, ctxfrom=2, ScoreS="{0,2}", IdxS="{0}", SizeS="{0,1}", PageS="{0}"))]
        qkw = dict(mixkw, Keys='{"k1","k2"}', IdxS="{-2,1}", ScoreS="{-1,2}", SizeS="{1}")
        sims = [("mix", 40, 12, qkw),
                ("mixkv", 40, 12, dict(qkw, KVOnly=True))]
    else:
        plans = [("str2", 2, dict(fams="str,key", VS='{"a","1","-2"}', SecS="{1,2}", NS="{-3,2}")),
                 ("str3", 3, dict(fams="str,key", Keys=one)),
                 ("strkv3", 3, dict(fams="str,key", VS='{"1"}', KVOnly=True)),
                 ("hash2", 2, dict(fams="hash,key", Mem='<<"a","b","c">>', VS='{"a","1","-2"}')),
                 ("hash3", 3, dict(fams="hash", Keys=one)),
                 ("hashkv3", 3, dict(fams="hash", VS='{"1"}', KVOnly=True)),
                 ("list2", 2, dict(fams="list,key", IdxS="{-2,-1,0,1,2}", VS='{"a","1","-2"}')),
                 ("list3", 3, dict(fams="list", Keys=one, IdxS="{-2,0,1}")),
                 ("set2", 2, dict(fams="set,key", Keys='{"k1","k2","k3"}', Mem='<<"a","b","c">>')),
                 ("set3", 3, dict(fams="set")),
                 ("zset2", 2, dict(fams="zset", ScoreS="{-1,0,2}", IdxS="{-2,-1,0,1}", Mem='<<"a","b","c">>', SizeS="{0,1}")),
                 ("zset3", 3, dict(fams="zset", Keys=one, ScoreS="{0,2}", IdxS="{-1}", PageS="{1}", SizeS="{1}", KVOnly=True)),
                 ("pipe3", 3, dict(fams="pipe", PipeLens="{3}")),
                 ("pipe4", 4, dict(fams="pipe", Keys=one, PipeLens="{2,4}")),
                 ("ctxA", 2, dict(fams="str,key,hash", ctxfrom=2)),
                 ("ctxB", 2, dict(fams="list,set", ctxfrom=2)),
                 ("ctxZ", 2, dict(fams="zset", ctxfrom=2, ScoreS="{0,2}", IdxS="{-1,0}", SizeS="{0,1}"))]
        sims = [("mix", 40, 150, dict(mixkw, IdxS="{-3,-1,0,1,2}", ScoreS="{-2,0,1,2}", MaxList=5)),
                ("mixkv", 40, 150, dict(mixkw, IdxS="{-3,-1,0,1,2}", ScoreS="{-2,0,1,2}", MaxList=5, KVOnly=True)),
                ("mix80", 80, 60, dict(mixkw)), ]
    ctx.exhaustive = True
    # TLC generation in parallel (each run is start-up dominated), replay one after the other (16 shards each)
    jobs = [(n, ml, num, kw) for n, ml, num, kw in sims] + [(n, ml, None, kw) for n, ml, kw in plans]

    def produce(job):
        name, maxlen, num, kw = job
        try:
            if num is None:
                return name, gen(ctx, name, maxlen, **kw), None
            return name, gen(ctx, name, maxlen, simulate=num, simw=SIMW, **kw), None
        except Exception as e:      # re-raised in the main thread
            return name, None, e

    with ThreadPoolExecutor(5) as ex:
        for fut in as_completed([ex.submit(produce, j) for j in jobs]):
            name, cases, err = fut.result()
            if err is not None:
                raise err
            path, _ = ctx.write_cases(name + ".ndjson", cases)
            if name in ("str2", "zset2", "mix"):
                ctx.samples += core.sample_of(cases[len(cases) // 3:], 1)[:1]
            ctx.replay(PKG, OVERLAY, "^TestVerifC12$", path, label=name, shards=16, binp=binp)
    wire_path, methods = wire(ctx, binp)
    brk(ctx, binp, wire_path, methods)
    shard_del(ctx, binp)


def wire(ctx, binp):
    K = dict(Quick=ctx.quick)
    cfg = core.render_cfg(spec="Spec", constants=K, invariants=["Emit"])
    r = ctx.tlc("RedisWire", cfg, constants=K, name="wire", timeout=600, workers=1, heap="2g")
    path, n = ctx.write_cases("wire.ndjson", r.printed)
    ctx.samples += core.sample_of(r.printed, 1)
    ctx.replay(PKG, OVERLAY, "^TestVerifC12Wire$", path, label="wire", shards=4, binp=binp)
    methods = {json.loads(l)["m"] for l in r.printed}
    ctx.notes["wire_methods_checked"] = len(methods)
    ctx.notes["wire_rows"] = n
    return path, methods


def shard_del(ctx, binp):
    """Fault histories of the sharded store's multi-key delete (spec/ShardedDel.tla): some keys set, one of three
    shards closed, one Del over 1..3 keys in every order, shard back, read-back of every key."""
    K = dict(Keys='<<"a","b","c">>', Home="<<1,2,3>>", Shards="{1,2,3}") if ctx.quick else \
        dict(Keys='<<"a","b","c","d">>', Home="<<1,2,3,1>>", Shards="{1,2,3}")
    cfg = core.render_cfg(spec="Spec", constants=K, invariants=["Emit"], properties=["DelRemovesEveryReachableKey"])
    r = ctx.tlc("ShardedDel", cfg, constants=K, name="sharddel", timeout=600, workers=2, heap="2g")
    path, _ = ctx.write_cases("sharddel.ndjson", r.printed)
    ctx.samples += core.sample_of(r.printed[len(r.printed) // 2:], 1)[:1]
    ctx.replay(PKG, OVERLAY, "^TestVerifC12ShardDel$", path, label="sharddel", shards=16, binp=binp)


def guarded_entry_points():
    """Read lib/store/redis/redis.go of the tree under test: which methods of *Redis go through the breaker
    (their body, or the body of the *Redis method they delegate to, calls r.brk.<something>), and with which
    call.  Returns (entry points without the Ctx suffix, {call shape: count}, methods that bypass the breaker)."""
    src = open(os.path.join(core.REPO, "lib/store/redis/redis.go"), encoding="utf-8").read()
    parts = re.split(r"(?m)^func \(r \*Redis\) (\w+)\(", src)
    bodies = {parts[i]: parts[i + 1] for i in range(1, len(parts) - 1, 2)}
    direct = {n: re.findall(r"r\.brk\.(\w+)\(", b) for n, b in bodies.items()}
    guarded = {n for n, c in direct.items() if c}
    changed = True
    while changed:                      # delegation: X -> r.YCtx(...) with Y guarded
        changed = False
        for n, b in bodies.items():
            if n not in guarded and any(m in guarded for m in re.findall(r"\br\.(\w+)\(", b)):
                guarded.add(n)
                changed = True
    shapes = {}
    for c in direct.values():
        for x in c:
            shapes[x] = shapes.get(x, 0) + 1
    base = lambda n: n[:-3] if n.endswith("Ctx") else n
    exported = {n for n in bodies if n[0].isupper() and n != "String"}
    return {base(n) for n in guarded if n[0].isupper()}, shapes, sorted({base(n) for n in exported - guarded})


def brk(ctx, binp, wire_path, known):
    entries, shapes, bypass = guarded_entry_points()
    known = set(known)
    missing = sorted(entries - known)
    if missing:
        raise core.Infra("breaker-guarded entry points of redis.go without a driver call (extend RedisWire/wire_test.go): %s" % missing)
    ctx.notes["breaker_entry_points"] = len(entries)
    ctx.notes["breaker_call_shapes_in_source"] = shapes
    ctx.notes["methods_bypassing_breaker"] = bypass
    K = dict(MaxLen=3 if ctx.quick else 4, Methods=sorted('"%s"' % m for m in entries))
    cfg = core.render_cfg(spec="Spec", constants=K, invariants=["Emit"])
    r = ctx.tlc("RedisBrk", cfg, constants=K, name="brk", timeout=600, workers=2, heap="2g")
    path, n = ctx.write_cases("brk.ndjson", r.printed)
    ctx.replay(PKG, OVERLAY, "^TestVerifC12Breaker$", path, label="brk", shards=16, binp=binp, env=dict(VERIF_WIRE=wire_path))


def replay(ctx, rp):
    path, _ = ctx.write_cases("replay.ndjson", [rp["case"]])
    key = rp.get("key") or ""
    test = "^TestVerifC12$"
    if key.startswith("C12:wire"):
        test = "^TestVerifC12Wire$"
    elif key.startswith("C12:kv:del-fault"):
        test = "^TestVerifC12ShardDel$"
    elif key.startswith("C12:breaker") or key.startswith("C12:nil-reply"):
        test = "^TestVerifC12Breaker$"
    env = dict(VERIF_FORMS="both")
    if test == "^TestVerifC12Breaker$":
        K = dict(Quick=False)
        r = ctx.tlc("RedisWire", core.render_cfg(spec="Spec", constants=K, invariants=["Emit"]), constants=K, name="wire",
                    timeout=600, workers=1, heap="2g")
        env["VERIF_WIRE"] = ctx.write_cases("wire.ndjson", r.printed)[0]
    ctx.replay(PKG, OVERLAY, test, path, label="replay", env=env)
