"""C17 - in-memory cache.  spec/MemCache.tla (abstract cache over the C10 wheel contract),
spec/MemCacheGen.tla (behaviour generator with pinned jitter) -> replay on the real collection.Cache
whose expiry wheel is driven by a hand-operated ticker; spec/MemCacheTake.tla validates recorded traces
of concurrent Take callers."""
import json, os
from vlib import core

PKG = "./lib/collection"
OVERLAY = {"lib/collection/zz_verif_c17_test.go": "c17/cache_test.go",
           "lib/collection/zz_verif_c17conc_test.go": "c17/take_test.go"}
W = 6
SHARDS = 12

META = dict(
    text="Model-based replay plus trace validation. TLC model-checks the abstract cache (spec/MemCache.tla: size bound, "
         "LRU victim stated independently through last-use stamps, freshness, drop only by Del/eviction/age inside the "
         "95-105% window, Take fetches only on a miss and caches only on success) and enumerates behaviours "
         "(MemCacheGen.tla: Set/SetWithExpire/Get/Del/Take over 2-3 keys separated by tick runs that hit every phase "
         "class of the 300-slot wheel, expiries below/inside/beyond one revolution, limits 0/1/2, pinned jitter "
         "classes) exhaustively to a small depth and by seeded simulation beyond; each behaviour is executed on the "
         "real Cache built by NewCache (only the wheel's ticker is replaced) and every Get/Take result, fetch count and "
         "the entry count after every single tick are compared with the specification. Concurrent Take: recorded "
         "call/fetch/Get traces of 2-16 goroutines on one cache and on two cache instances used at the same time with the "
         "same keys are validated by TLC against spec/MemCacheTake.tla (flights, cached values and the fetch-at-most-once "
         "rule are per cache instance; a successful Take is followed by a Get on the same instance).",
    note="Tick granularity is resolved by the wheel contract of C10 (delay x s fires at tick floor(x)); the jitter is "
         "pinned to three classes through the mathx.Unstable hook, products kept >= 1 ms away from a whole second. "
         "Excluded (recorded, not judged): expiries below 2 s (a jittered delay below the wheel interval makes MoveTimer "
         "run the callback at once; the statement does not decide that case). The single-flight of Take is checked on "
         "recorded traces (legal-history monitor), not by enumerating goroutine interleavings; stats logging is not "
         "covered. Trusted: TLC, driver barrier (sequential run loop + goroutine count back to baseline), Go runtime.",
    technique="TLA+ spec (MemCache) + TLC-generated behaviours replayed on the real cache + TLC trace validation of concurrent Take",
    design="4/C17")

FINISH = dict(rule="behaviours = complete TLC enumeration (BFS over the history variable) of macro-steps [pre ticks; op] up "
                   "to MaxOps operations followed by ticks past the last drop tick + one wheel revolution with probes of "
                   "every key, plus seeded TLC simulation of longer behaviours; every tick and every operation is "
                   "compared with the specification; every recorded concurrent-Take history must be accepted by the "
                   "trace specification")

ALL = '{"set","setx","get","del","takeok","takeerr"}'


def mc(ctx):
    deep = 0 if ctx.quick else 1
    props = ["DropReasons", "LRUVictim", "TakeRule"]
    invs = ["TypeOK", "Bounded", "Shape", "Fresh", "NoOverstay"]
    K = dict(Keys='{"a","b","c"}', Limit=2, Expire=2, Expires="{}", MaxVal=1)
    cfg = core.render_cfg(spec="Spec", constants=K, invariants=invs, properties=props, constraints=["Bound"], view="core")
    ctx.tlc("MemCache", cfg, constants=K, defs=dict(Bound="T <= 2 /\\ clk <= %d" % (4 + deep)), name="MemCache-mc-lru",
            timeout=900, workers=W)
    K = dict(Keys='{"a","b"}', Limit=0, Expire=2, Expires="{3}", MaxVal=2)
    cfg = core.render_cfg(spec="Spec", constants=K, invariants=invs, properties=props, constraints=["Bound"], view="core")
    ctx.tlc("MemCache", cfg, constants=K, defs=dict(Bound="T <= 6 /\\ clk <= %d" % (3 + deep)), name="MemCache-mc-exp",
            timeout=900, workers=W)
    K = dict(Keys='{"a","b"}', Limit=1, Expire=20, Expires="{}", MaxVal=1)
    cfg = core.render_cfg(spec="Spec", constants=K, invariants=invs, properties=props, constraints=["Bound"], view="core")
    ctx.tlc("MemCache", cfg, constants=K, defs=dict(Bound="T <= 22 /\\ clk <= 2"), name="MemCache-mc-window",
            timeout=900, workers=W)


def gen(ctx, name, *, keys, limit, expire, expires="{}", maxops, pre0, pre, jit="{1,499,999}", kinds=ALL,
        tail=301, simulate=None, depth=None):
    K = dict(Keys=keys, Limit=limit, Expire=expire, Expires=expires, MaxVal=1000, MaxOps=maxops, Pre0=pre0, Pre=pre,
             TailTicks=tail, Jit=jit, Kinds=kinds)
    cfg = core.render_cfg(spec="GSpec", constants=K, invariants=["GenInv", "Emit"])
    r = ctx.tlc("MemCacheGen", cfg, constants=K, name=name, simulate=simulate, depth=depth, timeout=1500,
                workers=(1 if simulate else W))
    return r.printed


def plans(ctx):
    P, S = [], []
    one = '{"a"}'
    two = '{"a","b"}'
    three = '{"a","b","c"}'
    nolru = '{"set","get","del","takeok","takeerr"}'
    if ctx.quick:
        # expiry / re-set family: one and two keys, every phase class around the window of a 20 s expiry
        P.append(("e20", dict(keys=one, limit=0, expire=20, maxops=2, pre0="{0,1,149,298,299}", pre="{0,1,18,19,20,21}", kinds=nolru)))
        P.append(("e20d3", dict(keys=one, limit=0, expire=20, maxops=3, pre0="{0,299}", pre="{0,19,20}", kinds=nolru)))
        P.append(("e20k2", dict(keys=two, limit=0, expire=20, maxops=2, pre0="{0,299}", pre="{0,1,19,20}", jit="{1,999}", kinds=nolru)))
        # below and beyond one revolution of the 300-slot wheel
        P.append(("e2", dict(keys=one, limit=0, expire=2, expires="{3}", maxops=3, pre0="{0,298}", pre="{0,1,2}",
                             jit="{1,999}", kinds='{"set","setx","get","takeok"}', tail=301)))
        P.append(("e310", dict(keys=one, limit=0, expire=310, expires="{20}", maxops=2, pre0="{0,149,299}",
                               pre="{0,1,5,294,295,300,310}", jit="{1,999}", kinds='{"set","setx","get"}', tail=301)))
        # LRU family: 3 keys, limits 1 and 2, no ticks between operations
        P.append(("lru2", dict(keys=three, limit=2, expire=20, maxops=4, pre0="{0}", pre="{0}", jit="{499}", kinds=nolru, tail=2)))
        P.append(("lru1", dict(keys=two, limit=1, expire=20, maxops=4, pre0="{0}", pre="{0}", jit="{499}", kinds=nolru, tail=2)))
        # LRU and expiry together
        P.append(("lru2t", dict(keys=three, limit=2, expire=20, maxops=3, pre0="{0}", pre="{0,19}", jit="{1,999}",
                                kinds='{"set","get","takeok"}', tail=301)))
        S.append(("sim", dict(keys=three, limit=2, expire=20, expires="{2,310}", maxops=12, pre0="{0,1,149,298,299}",
                              pre="{0,1,2,18,19,20,21,150}", kinds=ALL, tail=301), 400, 14))
        S.append(("sim0", dict(keys=two, limit=0, expire=20, expires="{2,310}", maxops=12, pre0="{0,1,149,298,299}",
                               pre="{0,1,2,18,19,20,21,150,294,300}", kinds=ALL, tail=301), 300, 14))
    else:
        P.append(("e20", dict(keys=one, limit=0, expire=20, maxops=3, pre0="{0,149,299}", pre="{0,1,19,20,21}", kinds=nolru)))
        P.append(("e20d4", dict(keys=one, limit=0, expire=20, maxops=4, pre0="{0,299}", pre="{0,19,20}", jit="{1,999}",
                                kinds='{"set","get","del","takeok"}')))
        P.append(("e20k2", dict(keys=two, limit=0, expire=20, maxops=3, pre0="{0,299}", pre="{0,19,20}", jit="{1,999}", kinds=nolru)))
        P.append(("e2", dict(keys=two, limit=0, expire=2, expires="{3}", maxops=3, pre0="{0,298}", pre="{0,1,2}",
                             jit="{1,999}", kinds='{"set","setx","get","takeok"}', tail=301)))
        P.append(("e2d4", dict(keys=one, limit=0, expire=2, expires="{3}", maxops=4, pre0="{0,298}", pre="{0,1,2}",
                               jit="{1,999}", kinds='{"set","setx","get"}', tail=301)))
        P.append(("e310", dict(keys=one, limit=0, expire=310, expires="{20}", maxops=3, pre0="{0,149,299}",
                               pre="{0,1,5,294,295,300,310}", jit="{1,999}", kinds='{"set","setx","get"}', tail=301)))
        P.append(("e640", dict(keys=one, limit=0, expire=640, expires="{310}", maxops=2, pre0="{0,299}",
                               pre="{0,1,299,300,301,608,640}", jit="{1,999}", kinds='{"set","setx","get"}', tail=301)))
        P.append(("lru2", dict(keys=three, limit=2, expire=20, maxops=5, pre0="{0}", pre="{0}", jit="{499}",
                               kinds='{"set","get","takeok"}', tail=2)))
        P.append(("lru2e", dict(keys=three, limit=2, expire=20, maxops=4, pre0="{0}", pre="{0}", jit="{499}", kinds=nolru, tail=2)))
        P.append(("lru1", dict(keys=two, limit=1, expire=20, maxops=5, pre0="{0}", pre="{0}", jit="{499}",
                               kinds='{"set","get","del","takeok"}', tail=2)))
        P.append(("lru2t", dict(keys=three, limit=2, expire=20, maxops=4, pre0="{0}", pre="{0,19}", jit="{999}",
                                kinds='{"set","get","takeok"}', tail=301)))
        S.append(("sim", dict(keys=three, limit=2, expire=20, expires="{2,310}", maxops=20, pre0="{0,1,149,298,299}",
                              pre="{0,1,2,18,19,20,21,150}", kinds=ALL, tail=301), 6000, 22))
        S.append(("sim0", dict(keys=two, limit=0, expire=20, expires="{2,310}", maxops=20, pre0="{0,1,149,298,299}",
                               pre="{0,1,2,18,19,20,21,150,294,300}", kinds=ALL, tail=301), 4000, 22))
        S.append(("sim1", dict(keys=three, limit=1, expire=3, expires="{2,20}", maxops=20, pre0="{0,299}",
                               pre="{0,1,2,3}", kinds=ALL, tail=301), 3000, 22))
    return P, S


def run(ctx):
    if os.environ.get("VERIF_C17_ONLY") == "conc":      # development aid: only the concurrent-Take part
        conc(ctx, ctx.go_build(PKG, OVERLAY, name="c17drv"))
        return
    mc(ctx)
    binp = ctx.go_build(PKG, OVERLAY, name="c17drv")
    P, S = plans(ctx)
    ctx.exhaustive = True
    ctx.assumptions += [
        "tick granularity = C10 wheel contract: a delay of x seconds fires during tick T + floor(x)",
        "jitter pinned through mathx.SetVerifUnstable to R/1000 with R in {1,499,999}: factor 1.05 - R/10000",
        "excluded: expiries below 2 s (jittered delay below the wheel interval: MoveTimer fires at once; undecided by the statement)",
    ]
    for name, kw in P:
        cases = gen(ctx, name, **kw)
        path, cnt = ctx.write_cases(name + ".ndjson", cases)
        ctx.samples += core.sample_of(cases, 1)
        ctx.replay(PKG, OVERLAY, "^TestVerifC17$", path, label=name, env=dict(VERIF_EXPIRE=kw["expire"], VERIF_LIMIT=kw["limit"]),
                   shards=SHARDS, gomaxprocs=2, binp=binp)
    for name, kw, num, depth in S:
        cases = gen(ctx, name, simulate=num, depth=depth, **kw)
        path, cnt = ctx.write_cases(name + ".ndjson", cases)
        ctx.samples += core.sample_of(cases, 1)
        ctx.replay(PKG, OVERLAY, "^TestVerifC17$", path, label=name, env=dict(VERIF_EXPIRE=kw["expire"], VERIF_LIMIT=kw["limit"]),
                   shards=SHARDS, gomaxprocs=2, binp=binp)
    conc(ctx, binp)


INVS_TAKE = ["FlightsDisjoint", "CachedOnlyOnSuccess"]


def cross_overlaps(trace_path):
    """two-cache histories in which the fetch functions of two DIFFERENT caches ran at the same time for the SAME
    key (the situation in which per-instance flights and one shared flight group differ)"""
    hit, n, cur, seen = 0, 0, None, False
    for line in open(trace_path):
        line = line.strip()
        if not line:
            continue
        e = json.loads(line)
        if e["e"] == "reset":
            n += 1
            hit += 1 if seen else 0
            cur, seen = set(), False
        elif e["e"] == "fb":
            if any(k == e["k"] and c != e.get("c", 1) for c, k in cur):
                seen = True
            cur.add((e.get("c", 1), e["k"]))
        elif e["e"] == "fe":
            cur.discard((e.get("c", 1), e["k"]))
    return hit + (1 if seen else 0), n


def conc(ctx, binp):
    """Concurrent Take callers: record call/fetch traces on the real cache, validate them with TLC."""
    rounds = 60 if ctx.quick else 600
    runs = [("gated", 4, 5, rounds)] if ctx.quick else [("gated", 1, 4, rounds), ("gated", 4, 6, rounds), ("gated", 16, 8, rounds)]
    # two cache instances alive together and asked for the same keys while their fetches are in flight
    runs += [("twocache", 4, 5, rounds)] if ctx.quick else \
            [("twocache", 1, 4, rounds), ("twocache", 4, 6, rounds), ("twocache", 16, 8, rounds)]
    # many staggered callers on one fresh key with an almost immediate fetch
    runs += [("stagger", 4, 64, 400), ("stagger", 16, 64, 400)] if ctx.quick else \
            [("stagger", 2, 64, 1500), ("stagger", 4, 64, 1500), ("stagger", 8, 32, 1500), ("stagger", 16, 64, 1500)]
    thin = []
    for shape, gmp, procs, n in runs:
        lab = "take-%s-g%d" % (shape, gmp)
        tr = os.path.join(ctx.build, lab + ".ndjson")
        ctx.replay(PKG, OVERLAY, "^TestVerifC17Take$", None, label=lab, gomaxprocs=gmp, binp=binp,
                   env=dict(VERIF_TRACE=tr, VERIF_ROUNDS=n, VERIF_PROCS=procs, VERIF_SHAPE=shape))
        ctx.validate_traces("MemCacheTake", tr, key_prefix="C17:take", invariants=INVS_TAKE, name="trace-" + lab,
                            timeout=1200)
        if shape == "twocache":
            ov, tot = cross_overlaps(tr)
            ctx.notes["take_twocache_rounds_with_cross_cache_overlap"] = \
                ctx.notes.get("take_twocache_rounds_with_cross_cache_overlap", 0) + ov
            if ov * 10 < tot:
                thin.append("%s: %d of %d" % (lab, ov, tot))
    # vacuity guard (harness matter, looked at only when the code and the specification agree everywhere)
    if thin and not ctx.disagreements:
        raise core.Infra("two-cache Take recorder: too few rounds in which fetches of different caches overlapped on "
                         "one key (%s)" % "; ".join(thin))


def replay(ctx, rp):
    if rp.get("source") == "trace":
        tr = os.path.join(ctx.build, "take-replay.ndjson")
        open(tr, "w").write("\n".join(json.loads(rp["case"])) + "\n")
        ctx.validate_traces("MemCacheTake", tr, key_prefix="C17:take", invariants=INVS_TAKE, name="trace-replay")
        return
    path, _ = ctx.write_cases("replay.ndjson", [rp["case"]])
    msg = rp.get("msg") or ""
    expire = int(msg.split("expire=")[1].split("s")[0]) if "expire=" in msg else 20
    limit = int(msg.split("limit=")[1].split()[0]) if "limit=" in msg else 0
    ctx.replay(PKG, OVERLAY, "^TestVerifC17$", path, label="replay", env=dict(VERIF_EXPIRE=expire, VERIF_LIMIT=limit))
