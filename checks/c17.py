"""C17 - in-memory cache.  spec/MemCache.tla (abstract cache over the C10 wheel contract),
spec/MemCacheGen.tla (behaviour generator with pinned jitter) -> replay on the real collection.Cache
whose expiry wheel is driven by a hand-operated ticker; spec/MemCacheTake.tla validates recorded traces
of concurrent Take callers."""
import json, os
from vlib import core

PKG = "./lib/collection"
OVERLAY = {"lib/collection/zz_verif_c17_test.go": "c17/cache_test.go",
           "lib/collection/zz_verif_c17conc_test.go": "c17/take_test.go"}
W = 3            # two generator runs side by side
WM = 3            # model checking runs beside the generator
SHARDS = 8

META = dict(
    text="Model-based replay plus trace validation. TLC model-checks the abstract cache (spec/MemCache.tla: size bound, "
         "LRU victim stated independently through last-use stamps, freshness, drop only by Del/eviction/age inside the "
         "95-105% window, Take fetches only on a miss and caches only on success) and enumerates behaviours "
         "(MemCacheGen.tla: Set/SetWithExpire/Get/Del/Take over 2-3 keys separated by tick runs that hit every phase "
         "class of the 300-slot wheel, expiries below/inside/beyond one revolution, limits 0/1/2, pinned jitter "
         "classes) exhaustively to a small depth and by seeded simulation beyond. Goal-directed LRU families (limits 3, 4 "
         "and 5 over limit+2 keys; one history per class of histories equal up to renaming keys, no idle operations, only "
         "histories that reach an eviction) cover recency recorded by Set/Get/Take while the cache holds fewer entries "
         "than its limit - during the first fill, after a Del, after entries went for age - followed by new keys that "
         "overflow it. Each behaviour is executed on the "
         "real Cache built by NewCache (only the wheel's ticker is replaced) and every Get/Take result, fetch count, the "
         "set of keys held after every operation (so the victim of every eviction) and "
         "the entry count after every single tick are compared with the specification. Concurrent Take: recorded "
         "call/fetch/Get traces of 2-16 goroutines on one cache and on two cache instances used at the same time with the "
         "same keys are validated by TLC against spec/MemCacheTake.tla (flights, cached values and the fetch-at-most-once "
         "rule are per cache instance; a successful Take is followed by a Get on the same instance).",
    note="Tick granularity is resolved by the wheel contract of C10 (delay x s fires at tick floor(x)); the jitter is "
         "pinned to three classes through the mathx.Unstable hook, products kept >= 1 ms away from a whole second. "
         "Excluded (recorded, not judged): expiries below 2 s (a jittered delay below the wheel interval makes MoveTimer "
         "run the callback at once; the statement does not decide that case). The single-flight of Take is checked on "
         "recorded traces (legal-history monitor), not by enumerating goroutine interleavings; stats logging is not "
         "covered. Trusted: TLC, driver barrier (sequential run loop + goroutine count back to baseline), Go runtime.",
    technique="TLA+ spec (MemCache) + TLC-generated behaviours replayed on the real cache + TLC trace validation of concurrent Take",
    design="4/C17")

FINISH = dict(rule="behaviours = complete TLC enumeration (BFS over the history variable) of macro-steps [pre ticks; op] up "
                   "to MaxOps operations followed by ticks past the last drop tick + one wheel revolution with probes of "
                   "every key (LRU families with limit >= 3: complete up to renaming of keys, idle operations and "
                   "histories without eviction left out), plus seeded TLC simulation of longer behaviours; the LRU families "
                   "must contain recency changes below capacity of the classes fill/del/age followed by evictions (counted); "
                   "every tick and every operation is "
                   "compared with the specification; every recorded concurrent-Take history must be accepted by the "
                   "trace specification")

ALL = '{"set","setx","get","del","takeok","takeerr"}'


def mc(ctx):
    deep = 0 if ctx.quick else 1
    props = ["DropReasons", "LRUVictim", "TakeRule"]
    invs = ["TypeOK", "Bounded", "Shape", "Fresh", "NoOverstay"]
    K = dict(Keys='{"a","b","c"}', Limit=2, Expire=2, Expires="{}", MaxVal=1)
    cfg = core.render_cfg(spec="Spec", constants=K, invariants=invs, properties=props, constraints=["Bound"], view="core")
    ctx.tlc("MemCache", cfg, constants=K, defs=dict(Bound="T <= 2 /\\ clk <= %d" % (4 + deep)), name="MemCache-mc-lru",
            timeout=900, workers=WM)
    # limit 3 over 4 keys: recency recorded while the cache is below its limit decides a later eviction
    K = dict(Keys='{"a","b","c","d"}', Limit=3, Expire=2, Expires="{}", MaxVal=1)
    cfg = core.render_cfg(spec="Spec", constants=K, invariants=invs, properties=props, constraints=["Bound"], view="core")
    ctx.tlc("MemCache", cfg, constants=K, defs=dict(Bound="T <= 0 /\\ clk <= %d" % (5 + deep)), name="MemCache-mc-lru3",
            timeout=900, workers=WM)
    K = dict(Keys='{"a","b"}', Limit=0, Expire=2, Expires="{3}", MaxVal=2)
    cfg = core.render_cfg(spec="Spec", constants=K, invariants=invs, properties=props, constraints=["Bound"], view="core")
    ctx.tlc("MemCache", cfg, constants=K, defs=dict(Bound="T <= 6 /\\ clk <= %d" % (3 + deep)), name="MemCache-mc-exp",
            timeout=900, workers=WM)
    K = dict(Keys='{"a","b"}', Limit=1, Expire=20, Expires="{}", MaxVal=1)
    cfg = core.render_cfg(spec="Spec", constants=K, invariants=invs, properties=props, constraints=["Bound"], view="core")
    ctx.tlc("MemCache", cfg, constants=K, defs=dict(Bound="T <= 22 /\\ clk <= 2"), name="MemCache-mc-window",
            timeout=900, workers=WM)


def gen(ctx, name, *, keys, limit, expire, expires="{}", maxops, pre0, pre, jit="{1,499,999}", kinds=ALL,
        tail=301, simulate=None, depth=None, order="<<>>", idle="TRUE", mustevict="FALSE"):
    K = dict(Keys=keys, Limit=limit, Expire=expire, Expires=expires, MaxVal=1000, MaxOps=maxops, Pre0=pre0, Pre=pre,
             TailTicks=tail, Jit=jit, Kinds=kinds, Order=order, Idle=idle, MustEvict=mustevict)
    cfg = core.render_cfg(spec="GSpec", constants=K, invariants=["GenInv", "Emit"])
    r = ctx.tlc("MemCacheGen", cfg, constants=K, name=name, simulate=simulate, depth=depth, timeout=1500,
                workers=(1 if simulate else W))
    return r.printed


def plans(ctx):
    P, S = [], []
    one = '{"a"}'
    two = '{"a","b"}'
    three = '{"a","b","c"}'
    nolru = '{"set","get","del","takeok","takeerr"}'
    five, six, seven = ['{"a","b","c","d","e"}', '{"a","b","c","d","e","f"}', '{"a","b","c","d","e","f","g"}']
    # goal-directed LRU families (key spaces larger than the limit + 1): canonical order of first use, no idle operations,
    # only behaviours that reach an eviction
    def lru(keys, limit, maxops, kinds, **kw):
        order = "<<%s>>" % keys.strip("{}")
        return dict(dict(keys=keys, limit=limit, expire=20, maxops=maxops, pre0="{0}", pre="{0}", jit="{499}", kinds=kinds,
                         tail=2, order=order, idle="FALSE", mustevict="TRUE"), **kw)
    touch = '{"set","get","del","takeok"}'
    if ctx.quick:
        # expiry / re-set family: one and two keys, every phase class around the window of a 20 s expiry
        P.append(("e20", dict(keys=one, limit=0, expire=20, maxops=2, pre0="{0,1,149,298,299}", pre="{0,1,18,19,20,21}", kinds=nolru)))
        P.append(("e20d3", dict(keys=one, limit=0, expire=20, maxops=3, pre0="{0,299}", pre="{0,19,20}", kinds=nolru)))
        P.append(("e20k2", dict(keys=two, limit=0, expire=20, maxops=2, pre0="{0,299}", pre="{0,1,19,20}", jit="{1,999}", kinds=nolru)))
        # below and beyond one revolution of the 300-slot wheel
        P.append(("e2", dict(keys=one, limit=0, expire=2, expires="{3}", maxops=3, pre0="{0,298}", pre="{0,1,2}",
                             jit="{1,999}", kinds='{"set","setx","get","takeok"}', tail=301)))
        P.append(("e310", dict(keys=one, limit=0, expire=310, expires="{20}", maxops=2, pre0="{0,149,299}",
                               pre="{0,1,5,294,295,300,310}", jit="{1,999}", kinds='{"set","setx","get"}', tail=301)))
        # LRU family: 3 keys, limits 1 and 2, no ticks between operations
        P.append(("lru2", dict(keys=three, limit=2, expire=20, maxops=4, pre0="{0}", pre="{0}", jit="{499}", kinds=nolru, tail=2)))
        P.append(("lru1", dict(keys=two, limit=1, expire=20, maxops=4, pre0="{0}", pre="{0}", jit="{499}", kinds=nolru, tail=2)))
        # LRU and expiry together
        P.append(("lru2t", dict(keys=three, limit=2, expire=20, maxops=3, pre0="{0}", pre="{0,19}", jit="{1,999}",
                                kinds='{"set","get","takeok"}', tail=301)))
        # recency recorded below capacity (initial fill, after Del): limits 3 and 4
        P.append(("lru3", lru(five, 3, 6, touch)))
        P.append(("lru3d", lru(five, 3, 7, '{"set","get","del"}')))
        P.append(("lru4", lru(six, 4, 6, touch)))
        P.append(("lru4d", lru(six, 4, 8, '{"set","get","del"}')))
        S.append(("sim", dict(keys=three, limit=2, expire=20, expires="{2,310}", maxops=12, pre0="{0,1,149,298,299}",
                              pre="{0,1,2,18,19,20,21,150}", kinds=ALL, tail=301), 400, 14))
        # ... and after entries went for age: limits 3 and 4 over 5 and 6 keys, short-lived and long-lived entries
        S.append(("sim3", dict(keys=five, limit=3, expire=20, expires="{3}", maxops=12, pre0="{0,299}", pre="{0,1,4}",
                               jit="{1,999}", kinds='{"set","setx","get","del","takeok"}', tail=301, idle="FALSE"), 400, 14))
        S.append(("sim4", dict(keys=six, limit=4, expire=20, expires="{3}", maxops=14, pre0="{0,299}", pre="{0,1,4}",
                               jit="{1,999}", kinds='{"set","setx","get","del","takeok"}', tail=301, idle="FALSE"), 400, 16))
        S.append(("sim0", dict(keys=two, limit=0, expire=20, expires="{2,310}", maxops=12, pre0="{0,1,149,298,299}",
                               pre="{0,1,2,18,19,20,21,150,294,300}", kinds=ALL, tail=301), 300, 14))
    else:
        P.append(("e20", dict(keys=one, limit=0, expire=20, maxops=3, pre0="{0,149,299}", pre="{0,1,19,20,21}", kinds=nolru)))
        P.append(("e20d4", dict(keys=one, limit=0, expire=20, maxops=4, pre0="{0,299}", pre="{0,19,20}", jit="{1,999}",
                                kinds='{"set","get","del","takeok"}')))
        P.append(("e20k2", dict(keys=two, limit=0, expire=20, maxops=3, pre0="{0,299}", pre="{0,19,20}", jit="{1,999}", kinds=nolru)))
        P.append(("e2", dict(keys=two, limit=0, expire=2, expires="{3}", maxops=3, pre0="{0,298}", pre="{0,1,2}",
                             jit="{1,999}", kinds='{"set","setx","get","takeok"}', tail=301)))
        P.append(("e2d4", dict(keys=one, limit=0, expire=2, expires="{3}", maxops=4, pre0="{0,298}", pre="{0,1,2}",
                               jit="{1,999}", kinds='{"set","setx","get"}', tail=301)))
        P.append(("e310", dict(keys=one, limit=0, expire=310, expires="{20}", maxops=3, pre0="{0,149,299}",
                               pre="{0,1,5,294,295,300,310}", jit="{1,999}", kinds='{"set","setx","get"}', tail=301)))
        P.append(("e640", dict(keys=one, limit=0, expire=640, expires="{310}", maxops=2, pre0="{0,299}",
                               pre="{0,1,299,300,301,608,640}", jit="{1,999}", kinds='{"set","setx","get"}', tail=301)))
        P.append(("lru2", dict(keys=three, limit=2, expire=20, maxops=5, pre0="{0}", pre="{0}", jit="{499}",
                               kinds='{"set","get","takeok"}', tail=2)))
        P.append(("lru2e", dict(keys=three, limit=2, expire=20, maxops=4, pre0="{0}", pre="{0}", jit="{499}", kinds=nolru, tail=2)))
        P.append(("lru1", dict(keys=two, limit=1, expire=20, maxops=5, pre0="{0}", pre="{0}", jit="{499}",
                               kinds='{"set","get","del","takeok"}', tail=2)))
        P.append(("lru2t", dict(keys=three, limit=2, expire=20, maxops=4, pre0="{0}", pre="{0,19}", jit="{999}",
                                kinds='{"set","get","takeok"}', tail=301)))
        P.append(("lru3", lru(five, 3, 7, touch)))
        P.append(("lru3a", lru(five, 3, 6, '{"set","setx","get"}', expires="{3}", pre="{0,4}")))
        P.append(("lru4", lru(six, 4, 7, touch)))
        P.append(("lru5", lru(seven, 5, 8, '{"set","get"}')))
        S.append(("sim", dict(keys=three, limit=2, expire=20, expires="{2,310}", maxops=20, pre0="{0,1,149,298,299}",
                              pre="{0,1,2,18,19,20,21,150}", kinds=ALL, tail=301), 6000, 22))
        S.append(("sim3", dict(keys=five, limit=3, expire=20, expires="{3}", maxops=16, pre0="{0,299}", pre="{0,1,4}",
                               jit="{1,999}", kinds='{"set","setx","get","del","takeok"}', tail=301, idle="FALSE"), 3000, 18))
        S.append(("sim4", dict(keys=six, limit=4, expire=20, expires="{3}", maxops=18, pre0="{0,299}", pre="{0,1,4}",
                               jit="{1,999}", kinds='{"set","setx","get","del","takeok"}', tail=301, idle="FALSE"), 3000, 20))
        S.append(("sim0", dict(keys=two, limit=0, expire=20, expires="{2,310}", maxops=20, pre0="{0,1,149,298,299}",
                               pre="{0,1,2,18,19,20,21,150,294,300}", kinds=ALL, tail=301), 4000, 22))
        S.append(("sim1", dict(keys=three, limit=1, expire=3, expires="{2,20}", maxops=20, pre0="{0,299}",
                               pre="{0,1,2,3}", kinds=ALL, tail=301), 3000, 22))
    return P, S


# vacuity guard of the LRU families: (counter of the replay driver, families summed, minimum quick, minimum thorough)
LRU_GUARD = [("reord_fill", 200, 2000), ("evict_after_reord_fill", 200, 2000),
             ("reord_del", 50, 500), ("evict_after_reord_del", 10, 100),
             ("reord_age", 20, 200), ("evict_after_reord_age", 10, 100)]
LRU_FAMILIES = ("lru3", "lru3d", "lru3a", "lru4", "lru4d", "lru5", "sim3", "sim4")


def run(ctx):
    if os.environ.get("VERIF_C17_ONLY") == "conc":      # development aid: only the concurrent-Take part
        conc(ctx, ctx.go_build(PKG, OVERLAY, name="c17drv"))
        return
    from concurrent.futures import ThreadPoolExecutor
    binp = ctx.go_build(PKG, OVERLAY, name="c17drv")
    # model checking of the abstract cache needs nothing from the replay and the replay nothing from it: side thread; a
    # failure there (core.Infra) surfaces at the end of run(), after the real code has been judged
    mcx = ThreadPoolExecutor(1)
    mc_runs = mcx.submit(mc, ctx)
    P, S = plans(ctx)
    ctx.exhaustive = True
    ctx.assumptions += [
        "tick granularity = C10 wheel contract: a delay of x seconds fires during tick T + floor(x)",
        "jitter pinned through mathx.SetVerifUnstable to R/1000 with R in {1,499,999}: factor 1.05 - R/10000",
        "excluded: expiries below 2 s (jittered delay below the wheel interval: MoveTimer fires at once; undecided by the statement)",
        "families lru3/lru4/...: keys are interchangeable for the cache (opaque map keys), one history per class of "
        "histories equal up to renaming the keys is generated (first uses in a fixed order)",
    ]
    deferred = []

    def stage(fn, *a, **kw):
        """The families are independent of each other: harness trouble in one of them must not hide what another one
        observes on the real code; it is kept and raised at the end, unless something disagreed."""
        try:
            return fn(*a, **kw)
        except core.Infra as e:
            core.log("stage: harness trouble (deferred): %s" % str(e)[:300])
            deferred.append(e)
        except Exception as e:                          # a bug of the check itself is harness trouble, too
            import traceback
            core.log("stage: unexpected exception (deferred): %s" % traceback.format_exc()[-1500:])
            deferred.append(core.Infra("unexpected exception: %r" % (e,)))

    def prepare(name, kw, num=None, depth=None):
        cases = gen(ctx, name, **kw) if num is None else gen(ctx, name, simulate=num, depth=depth, **kw)
        path, _ = ctx.write_cases(name + ".ndjson", cases)
        return path, core.sample_of(cases, 1)

    # concurrent Take: the recordings are made now (short), TLC validates them beside the replay of the families
    rec = stage(conc_record, ctx, binp)
    concx = ThreadPoolExecutor(1)
    conc_runs = concx.submit(conc_validate, ctx, rec or [])
    lru_cnt = {}

    def replay_family(name, kw, fut):
        path, sample = fut.result()
        ctx.samples += sample
        cnt, _ = ctx.replay(PKG, OVERLAY, "^TestVerifC17$", path, label=name,
                            env=dict(VERIF_EXPIRE=kw["expire"], VERIF_LIMIT=kw["limit"]), shards=SHARDS, gomaxprocs=2, binp=binp)
        if name in LRU_FAMILIES:
            for k, v in cnt.items():
                lru_cnt[k] = lru_cnt.get(k, 0) + v

    # TLC generates the behaviours of the next families (two background threads) while the driver replays the previous ones
    genx = ThreadPoolExecutor(2)
    fams = [(name, kw, genx.submit(prepare, name, kw)) for name, kw in P]
    fams += [(name, kw, genx.submit(prepare, name, kw, num, depth)) for name, kw, num, depth in S]
    for name, kw, fut in fams:
        stage(replay_family, name, kw, fut)
    thin = stage(conc_runs.result) or []
    stage(mc_runs.result)
    # vacuity guard (harness matter, looked at only when the code and the specification agree everywhere): the LRU families
    # must contain recency changes made while the cache was below its limit - during the first fill, after a Del and after
    # an entry went for age - that were followed by an eviction
    for k, q, t in LRU_GUARD:
        ctx.notes["lru_" + k] = lru_cnt.get(k, 0)
    if not ctx.disagreements and not deferred:
        if thin:
            raise core.Infra("two-cache Take recorder: too few rounds in which fetches of different caches overlapped on "
                             "one key (%s)" % "; ".join(thin))
        lthin = ["%s=%d (< %d)" % (k, lru_cnt.get(k, 0), q if ctx.quick else t) for k, q, t in LRU_GUARD
                 if lru_cnt.get(k, 0) < (q if ctx.quick else t)]
        if lthin:
            raise core.Infra("LRU families are thin on recency changes below capacity: " + ", ".join(lthin))
    if deferred and not ctx.disagreements:
        raise deferred[0]
    if deferred:
        ctx.notes["harness-trouble"] = [str(e)[:300] for e in deferred]


INVS_TAKE = ["FlightsDisjoint", "CachedOnlyOnSuccess"]


def cross_overlaps(trace_path):
    """two-cache histories in which the fetch functions of two DIFFERENT caches ran at the same time for the SAME
    key (the situation in which per-instance flights and one shared flight group differ)"""
    hit, n, cur, seen = 0, 0, None, False
    for line in open(trace_path):
        line = line.strip()
        if not line:
            continue
        e = json.loads(line)
        if e["e"] == "reset":
            n += 1
            hit += 1 if seen else 0
            cur, seen = set(), False
        elif e["e"] == "fb":
            if any(k == e["k"] and c != e.get("c", 1) for c, k in cur):
                seen = True
            cur.add((e.get("c", 1), e["k"]))
        elif e["e"] == "fe":
            cur.discard((e.get("c", 1), e["k"]))
    return hit + (1 if seen else 0), n


def conc_record(ctx, binp):
    """Concurrent Take callers: record call/fetch traces on the real cache."""
    rounds = 60 if ctx.quick else 600
    runs = [("gated", 4, 5, rounds)] if ctx.quick else [("gated", 1, 4, rounds), ("gated", 4, 6, rounds), ("gated", 16, 8, rounds)]
    # two cache instances alive together and asked for the same keys while their fetches are in flight
    runs += [("twocache", 4, 5, rounds)] if ctx.quick else \
            [("twocache", 1, 4, rounds), ("twocache", 4, 6, rounds), ("twocache", 16, 8, rounds)]
    # many staggered callers on one fresh key with an almost immediate fetch
    runs += [("stagger", 4, 64, 400), ("stagger", 16, 64, 400)] if ctx.quick else \
            [("stagger", 2, 64, 1500), ("stagger", 4, 64, 1500), ("stagger", 8, 32, 1500), ("stagger", 16, 64, 1500)]
    rec = []
    for shape, gmp, procs, n in runs:
        lab = "take-%s-g%d" % (shape, gmp)
        tr = os.path.join(ctx.build, lab + ".ndjson")
        ctx.replay(PKG, OVERLAY, "^TestVerifC17Take$", None, label=lab, gomaxprocs=gmp, binp=binp,
                   env=dict(VERIF_TRACE=tr, VERIF_ROUNDS=n, VERIF_PROCS=procs, VERIF_SHAPE=shape))
        rec.append((shape, lab, tr))
    return rec


def conc_validate(ctx, rec):
    """... and validate the recorded traces with TLC."""
    thin = []
    for shape, lab, tr in rec:
        ctx.validate_traces("MemCacheTake", tr, key_prefix="C17:take", invariants=INVS_TAKE, name="trace-" + lab,
                            timeout=1200)
        if shape == "twocache":
            ov, tot = cross_overlaps(tr)
            ctx.notes["take_twocache_rounds_with_cross_cache_overlap"] = \
                ctx.notes.get("take_twocache_rounds_with_cross_cache_overlap", 0) + ov
            if ov * 10 < tot:
                thin.append("%s: %d of %d" % (lab, ov, tot))
    return thin


def conc(ctx, binp):
    thin = conc_validate(ctx, conc_record(ctx, binp))
    # vacuity guard (harness matter, looked at only when the code and the specification agree everywhere)
    if thin and not ctx.disagreements:
        raise core.Infra("two-cache Take recorder: too few rounds in which fetches of different caches overlapped on "
                         "one key (%s)" % "; ".join(thin))


def replay(ctx, rp):
    if rp.get("source") == "trace":
        tr = os.path.join(ctx.build, "take-replay.ndjson")
        open(tr, "w").write("\n".join(json.loads(rp["case"])) + "\n")
        ctx.validate_traces("MemCacheTake", tr, key_prefix="C17:take", invariants=INVS_TAKE, name="trace-replay")
        return
    path, _ = ctx.write_cases("replay.ndjson", [rp["case"]])
    msg = rp.get("msg") or ""
    expire = int(msg.split("expire=")[1].split("s")[0]) if "expire=" in msg else 20
    limit = int(msg.split("limit=")[1].split()[0]) if "limit=" in msg else 0
    ctx.replay(PKG, OVERLAY, "^TestVerifC17$", path, label="replay", env=dict(VERIF_EXPIRE=expire, VERIF_LIMIT=limit))
