"""C08 - rate limiters.  spec/PeriodLimit.tla + spec/TokenLimit.tla (model-checked), their generators
PeriodLimitGen/TokenLimitGen -> replay on the real PeriodLimit / TokenLimiter over miniredis (Lua scripts
executed by miniredis' gopher-lua, TTLs steered with FastForward, outages with Close/Restart)."""
from vlib import core

PKG = "./lib/limit"
OVERLAY = {"lib/limit/zz_verif_c08_test.go": "c08/limit_test.go"}
W = 6
META = dict(
    text="Model-based replay of both limiters. PeriodLimit.tla states the window/quota rule independently over "
         "the log of takes and is model-checked against the counter+TTL mechanism; TokenLimit.tla keeps the "
         "statement's ideal bucket next to the Lua script's Redis state and the in-process rescue bucket and is "
         "model-checked for ScriptIsIdeal, the burst+rate*t bound per bucket, Fallback and Return. TLC then "
         "enumerates every history (takes on 2 keys, concurrent bursts, server-clock advances; AllowN(now,n) with "
         "n up to above burst, caller/server clock steps with server <= caller, Down/Up) up to a bound for several "
         "quota/period and rate/burst configurations, plus seeded simulation of long histories; each history is "
         "executed on the real limiter over miniredis and every code / grant decision (and whether the request "
         "reached Redis) is compared with the specification; the burst+rate*t bound is additionally evaluated directly on "
         "the grants observed per bucket, and the Align() window length handed to Redis is compared with a TLC-printed "
         "table of AlignedWindow for the wall-clock seconds of the run. The fallback switch itself (reserveN failure path, "
         "startMonitor, waitForRedis) has a mechanism model TokenMonitorImpl.tla, model-checked over all interleavings of 3 "
         "callers, the monitor and Redis going down/up for NoDeadFallback / NeverStuck and the liveness property Return "
         "(a variant with the redisAlive store hoisted above the lock must be rejected: vacuity guard); a concurrent "
         "recovery stage looks for a dead fallback on the real limiter (rounds of outage/recovery under concurrent callers "
         "with one call per limiter failing late, exactly at the model's critical point). A further family runs without the "
         "coin override (real breaker, real coin) on a healthy Redis: drained bucket / exhausted window, then hundreds of "
         "further requests at frozen clocks - every request must still reach Redis and be decided as the model says "
         "(denials and OverQuota codes are not breaker failures). A concurrent-use stage built with the race detector puts "
         "many goroutines on one limiter at frozen clocks (requests for burst+1 tokens and with cancelled contexts must "
         "never be granted, tokens granted within the second <= burst; per key exactly quota-1 Allowed, one HitQuota); a "
         "race report is the disagreement C08:data-race.",
    note="Trusted: TLC, miniredis 2.23.1 (Lua via gopher-lua, TTL by FastForward) as the Redis environment, the "
         "driver's barrier (after Up it waits, bounded, for the monitor's ping, reading redisAlive/monitorStarted "
         "only as a barrier; the concurrent stage watches redisAlive to place one late failure - a direct call of the "
         "unexported failure handler startMonitor, what reserveN does when a script call fails - between the monitor's "
         "redisAlive := 1 and monitorStarted := false, a sub-microsecond window that natural traffic does not hit; its "
         "verdict is public: an EVAL of the limiter's key must reach Redis again within 8 s). The breaker inside redis.Redis has its coin forced to 'never reject' (H2) so that "
         "breaker rejections (C01) do not blur fallback/return. Not generated: server clock ahead of the caller "
         "clock (DESIGN 5), caller clock stepping backwards, requests between recovery and the monitor's ping, "
         "context cancellation. Align() is covered for the window length handed to Redis and the resulting TTL (table of "
         "PeriodLimit!AlignedWindow for the wall-clock seconds of the run, three zone offsets, four periods), not for "
         "histories across an aligned boundary (wall clock cannot be steered). Bound is stated per bucket (Redis bucket, rescue "
         "bucket): the rescue bucket starts full at the first outage, so no joint bound exists in the design.",
    technique="TLA+ specs (PeriodLimit, TokenLimit) + TLC-generated behaviours replayed on the real limiters over miniredis",
    design="4/C08")

FINISH = dict(rule="behaviours = complete TLC enumeration (BFS over the history variable) of all histories up to "
                   "MaxLen steps per configuration set, plus seeded TLC simulation of long histories; every step "
                   "of every behaviour is compared with the specification's prediction")

PCFG = "{<<1,1>>, <<2,1>>, <<3,2>>, <<2,3>>}"
TCFG = "{<<1,1>>, <<1,2>>, <<2,1>>, <<3,2>>, <<2,3>>}"


def mc(ctx):
    K = dict(Keys='{"a","b"}', Configs=PCFG, MaxAdv=2, MaxBurst=2)
    cfg = core.render_cfg(spec="Spec", constants=K, invariants=["TypeOK", "WindowQuota"],
                          properties=["KeysIndependent", "FreshOnlyAfterExpiry"], constraints=["Bound_"])
    ctx.tlc("PeriodLimit", cfg, constants=K, defs=dict(Bound_="Len(log) <= %d /\\ srv <= %d" % ((4, 4) if ctx.quick else (5, 6))),
            name="PeriodLimit-mc", timeout=900, workers=W, heap="2g")
    K = dict(Configs="{<<1,1>>, <<3,2>>, <<2,3>>}", MaxN=2, MaxStep=2)
    cfg = core.render_cfg(spec="Spec", constants=K, invariants=["TypeOK", "ScriptIsIdeal", "RedisIsIdeal", "Bound"],
                          properties=["Fallback", "Return", "OnlyPingReturns"], constraints=["Bound_"])
    ctx.tlc("TokenLimit", cfg, constants=K, defs=dict(Bound_="Len(glog) <= %d /\\ now <= %d" % ((3, 3) if ctx.quick else (3, 4))),
            name="TokenLimit-mc", timeout=900, workers=W, heap="3g")


def mc_monitor(ctx):
    """Mechanism model of the fallback switch: the code as written must satisfy NoDeadFallback / NeverStuck /
    Return for all interleavings of 3 callers, the monitor and Redis going down/up; the variant that stores
    redisAlive := 0 before taking the lock must be rejected (vacuity guard)."""
    K = dict(Callers='{"c1","c2","c3"}', Variant='"asis"')
    cfg = core.render_cfg(spec="Spec", constants=K, invariants=["TypeOK", "MonitorMatchesFlag", "NoDeadFallback", "NeverStuck"],
                          properties=["Return"])
    ctx.tlc("TokenMonitorImpl", cfg, constants=K, name="TokenMonitorImpl-asis", timeout=600, workers=W, heap="2g")
    K = dict(Callers='{"c1","c2"}', Variant='"hoisted"')
    cfg = core.render_cfg(spec="Spec", constants=K, invariants=["TypeOK", "NoDeadFallback"])
    r = ctx.tlc("TokenMonitorImpl", cfg, constants=K, name="TokenMonitorImpl-hoisted", timeout=600, workers=W, heap="2g",
                allow_violation=True)
    if r.violated != "NoDeadFallback":
        raise core.Infra("vacuous mechanism model: the hoisted-store variant of startMonitor is not rejected (%s)" % r.violated)
    ctx.notes["TokenMonitorImpl"] = "asis: NoDeadFallback, NeverStuck, Return hold (3 callers); hoisted-store variant rejected"


def real_breaker(ctx, binp):
    """Healthy Redis, the real per-address breaker with its real coin (no override): a drained bucket / an exhausted
    window followed by several hundred further requests at frozen clocks.  Denials (Nil reply of the token script)
    and OverQuota codes are not failures, so every request must still be decided by Redis (EVAL seen by the server)
    and the grants must be the model's - no fallback to the in-process bucket with its fresh full burst."""
    n = 400 if ctx.quick else 1500
    cases = gen_token(ctx, "tdrain", configs="{<<5,10>>, <<1,1>>, <<3,2>>, <<2,5>>}", maxlen=n, maxn=1, maxstep=0, maxdown=0)
    path, _ = ctx.write_cases("tdrain.ndjson", cases)
    ctx.replay(PKG, OVERLAY, "^TestVerifC08Token$", path, label="tdrain", shards=4, binp=binp, env=dict(VERIF_REAL_BREAKER=1))
    cases = gen_token(ctx, "tdrain2", configs="{<<5,10>>, <<3,2>>}", maxlen=(7 if ctx.quick else 8), maxn=2, maxstep=1, maxdown=0)
    path, _ = ctx.write_cases("tdrain2.ndjson", cases)
    ctx.replay(PKG, OVERLAY, "^TestVerifC08Token$", path, label="tdrain2", shards=16, binp=binp, env=dict(VERIF_REAL_BREAKER=1))
    K = dict(Keys='{"a"}', Configs="{<<3,5>>, <<1,2>>, <<10,3>>}", MaxAdv=0, MaxBurst=1, MaxLen=n)
    cfg = core.render_cfg(spec="GSpec", constants=K, invariants=["Emit"])
    r = ctx.tlc("PeriodLimitGen", cfg, constants=K, name="pdrain", timeout=900, workers=2, heap="3g")
    path, _ = ctx.write_cases("pdrain.ndjson", r.printed)
    ctx.replay(PKG, OVERLAY, "^TestVerifC08Period$", path, label="pdrain", shards=3, binp=binp, env=dict(VERIF_REAL_BREAKER=1))


def two_outages(ctx, binp):
    """Two outages within one caller second: the rescue bucket drained in the first outage must still be drained
    in the second one (recovery through the monitor's ping in between)."""
    import json
    cases = gen_token(ctx, "t2o", configs="{<<1,2>>}", maxlen=8, maxn=2, maxstep=0, maxdown=2)
    sel = []
    for c in cases:
        st = json.loads(c)
        downs = [i for i, x in enumerate(st) if x["op"] == "down"]
        if len(downs) < 2:
            continue
        a1 = [x for x in st[downs[0]:downs[1]] if x["op"] == "allow" and x["via"] == "rescue"]
        a2 = [x for x in st[downs[1]:] if x["op"] == "allow" and x["via"] == "rescue"]
        ping = [x for x in st[downs[0]:downs[1]] if x["op"] == "up" and x["ping"]]
        if a1 and a2 and ping and any(x["granted"] for x in a1) and any(not x["granted"] for x in a2):
            sel.append(c)
    want = 48 if ctx.quick else 400
    sel = sel[::max(1, len(sel) // want)][:want]          # a selection of inputs, the predictions stay TLC's
    if len(sel) < 10:
        raise core.Infra("two-outage family is nearly empty (%d)" % len(sel))
    path, _ = ctx.write_cases("t2o.ndjson", sel)
    ctx.replay(PKG, OVERLAY, "^TestVerifC08Token$", path, label="t2o", shards=16, binp=binp)


def race_stage(ctx, binp_race):
    """Concurrent callers on one limiter, binary built with -race.  Run outside ctx.replay because a race report
    makes the test binary exit non-zero; the report itself is the disagreement C08:data-race."""
    import json, subprocess, os
    big = not ctx.quick
    cfgs = [dict(kind="token", rate=5, burst=10, ones=10, twos=3, cancelled=2, calls=(600 if big else 250), rounds=(6 if big else 3)),
            dict(kind="token", rate=1, burst=1, ones=8, twos=2, cancelled=1, calls=(400 if big else 150), rounds=(4 if big else 2)),
            dict(kind="period", quota=5, period=3600, keys=4, takers=6, calls=(300 if big else 120), rounds=(4 if big else 2)),
            dict(kind="period", quota=1, period=3600, keys=2, takers=8, calls=(200 if big else 80), rounds=(3 if big else 2))]
    path, _ = ctx.write_cases("race.ndjson", cfgs)
    outp = os.path.join(ctx.build, "verdicts-race-0.ndjson")
    logp = os.path.join(ctx.build, "race-0.out")
    e = dict(os.environ)
    e.update(core.GOENV)
    e.update(VERIF_SEED=str(ctx.seed), VERIF_TIER=ctx.tier, VERIF_CASES=path, VERIF_OUT=outp, VERIF_SHARD="0", VERIF_SHARDS="1",
             GORACE="halt_on_error=0")
    import time
    t0 = time.time()
    with open(logp, "w") as fo:
        try:
            p = subprocess.run([binp_race, "-test.run", "^TestVerifC08Race$", "-test.count=1", "-test.timeout", "900s"],
                               cwd=os.path.join(core.REPO, "lib/limit"), env=e, stdout=fo, stderr=subprocess.STDOUT, timeout=1000)
            rc = p.returncode
        except subprocess.TimeoutExpired:
            raise core.Infra("race stage timed out")
    out = open(logp, errors="replace").read()
    core.log("race stage: rc=%s %.1fs" % (rc, time.time() - t0))
    raced = "WARNING: DATA RACE" in out
    if raced:
        i = out.index("WARNING: DATA RACE")
        rep = out[i:i + 2500]
        frames = [l.strip() for l in rep.splitlines() if "/lib/limit/" in l or "/lib/store/" in l][:6]
        ctx.disagree("C08:data-race", "race detector: concurrent callers on one limiter; frames: %s" % "; ".join(frames),
                     case=json.dumps(cfgs[0]), source="race")
    ctx.collect(outp, 0 if raced else rc, out, path, "race", "race")
    ctx.go_runs.append(dict(name="race", pkg=PKG, run="^TestVerifC08Race$", race=True, rc=rc, wall_s=round(time.time() - t0, 2)))


def concurrent(ctx, binp):
    cfgs = [dict(rounds=(25 if ctx.quick else 80), limiters=8, k=3)]
    path, _ = ctx.write_cases("concurrent.ndjson", cfgs)
    ctx.replay(PKG, OVERLAY, "^TestVerifC08Concurrent$", path, label="concurrent", shards=1, binp=binp, timeout=1200)


def gen_period(ctx, name, configs, maxlen, maxadv, maxburst, simulate=None):
    K = dict(Keys='{"a","b"}', Configs=configs, MaxAdv=maxadv, MaxBurst=maxburst, MaxLen=maxlen)
    cfg = core.render_cfg(spec="GSpec", constants=K, invariants=["Emit"])
    r = ctx.tlc("PeriodLimitGen", cfg, constants=K, name=name, simulate=simulate, depth=maxlen + 2, timeout=900,
                workers=(1 if simulate else W), heap="3g")
    return r.printed


def gen_token(ctx, name, configs, maxlen, maxn, maxstep, maxdown, simulate=None):
    K = dict(Configs=configs, MaxN=maxn, MaxStep=maxstep, MaxLen=maxlen, MaxDown=maxdown)
    cfg = core.render_cfg(spec="GSpec", constants=K, invariants=["Emit"])
    r = ctx.tlc("TokenLimitGen", cfg, constants=K, name=name, simulate=simulate, depth=maxlen + 2, timeout=900,
                workers=(1 if simulate else W), heap="3g")
    return r.printed


def one_per_prefix(cases):
    """TLC's simulator evaluates the Emit invariant on every successor of the last state of a trace, so a
    simulated trace is printed once per possible last step; keep one behaviour per trace."""
    seen, out = set(), []
    for c in cases:
        k = c.rsplit(',{"op"', 1)[0]
        if k not in seen:
            seen.add(k)
            out.append(c)
    return out


def run(ctx):
    from concurrent.futures import ThreadPoolExecutor
    ex = ThreadPoolExecutor(1)
    race_build = ex.submit(lambda: ctx.go_build(PKG, OVERLAY, race=True, name="c08race"))   # ~20 s, in the background
    mc(ctx)
    mc_monitor(ctx)
    binp = ctx.go_build(PKG, OVERLAY, name="c08drv")
    ctx.assumptions += ["server clock never ahead of the caller clock (DESIGN 5)", "caller clock monotone",
                        "breaker coin forced to never-reject (H2)"]
    if ctx.quick:
        pplans = [("p4", dict(configs=PCFG, maxlen=4, maxadv=3, maxburst=2))]
        psims = [("ps", dict(configs="{<<3,2>>, <<4,3>>, <<2,5>>}", maxlen=40, maxadv=4, maxburst=5), 300)]
        tplans = [("t4", dict(configs=TCFG, maxlen=4, maxn=3, maxstep=3, maxdown=0)),
                  ("t4o", dict(configs="{<<1,2>>, <<3,2>>}", maxlen=4, maxn=2, maxstep=1, maxdown=1))]
        tsims = [("ts", dict(configs="{<<3,2>>, <<2,5>>, <<5,3>>, <<4,8>>}", maxlen=40, maxn=4, maxstep=4, maxdown=0), 300),
                 ("tso", dict(configs="{<<3,2>>, <<2,5>>}", maxlen=25, maxn=3, maxstep=3, maxdown=2), 60)]
    else:
        pplans = [("p4", dict(configs=PCFG, maxlen=4, maxadv=3, maxburst=3)),
                  ("p5", dict(configs=PCFG, maxlen=5, maxadv=2, maxburst=2))]
        psims = [("ps", dict(configs="{<<3,2>>, <<4,3>>, <<2,5>>, <<7,4>>, <<1,3>>}", maxlen=60, maxadv=5, maxburst=8), 1500)]
        tplans = [("t5", dict(configs=TCFG, maxlen=5, maxn=3, maxstep=3, maxdown=0)),
                  ("t6", dict(configs="{<<3,2>>}", maxlen=6, maxn=3, maxstep=2, maxdown=0)),
                  ("t5o", dict(configs="{<<1,2>>, <<3,2>>}", maxlen=5, maxn=2, maxstep=1, maxdown=1))]
        tsims = [("ts", dict(configs="{<<3,2>>, <<2,5>>, <<5,3>>, <<4,8>>, <<7,4>>, <<1,1>>}", maxlen=60, maxn=5, maxstep=5, maxdown=0), 3000),
                 ("tso", dict(configs="{<<3,2>>, <<2,5>>, <<5,3>>}", maxlen=50, maxn=3, maxstep=3, maxdown=4), 400)]
    ctx.exhaustive = True
    for name, kw in pplans:
        cases = gen_period(ctx, name, **kw)
        path, _ = ctx.write_cases(name + ".ndjson", cases)
        ctx.samples += core.sample_of(cases, 1)
        ctx.replay(PKG, OVERLAY, "^TestVerifC08Period$", path, label=name, shards=16, binp=binp)
    for name, kw, num in psims:
        cases = one_per_prefix(gen_period(ctx, name, simulate=num, **kw))
        path, _ = ctx.write_cases(name + ".ndjson", cases)
        ctx.replay(PKG, OVERLAY, "^TestVerifC08Period$", path, label=name, shards=16, binp=binp)
    for name, kw in tplans:
        cases = gen_token(ctx, name, **kw)
        path, _ = ctx.write_cases(name + ".ndjson", cases)
        ctx.samples += core.sample_of(cases, 1)
        ctx.replay(PKG, OVERLAY, "^TestVerifC08Token$", path, label=name, shards=16, binp=binp)
    for name, kw, num in tsims:
        cases = one_per_prefix(gen_token(ctx, name, simulate=num, **kw))
        path, _ = ctx.write_cases(name + ".ndjson", cases)
        ctx.replay(PKG, OVERLAY, "^TestVerifC08Token$", path, label=name, shards=16, binp=binp)
    align(ctx, binp)
    real_breaker(ctx, binp)
    two_outages(ctx, binp)
    concurrent(ctx, binp)
    race_stage(ctx, race_build.result())


def align(ctx, binp):
    """Align(): table of AlignedWindow for the wall-clock seconds of the next 20 minutes."""
    import time
    K = dict(T0=int(time.time()) - 5, Span=1200, Offsets="{0, 28800, -16200}", Periods="{7, 60, 3600, 86400}")
    cfg = core.render_cfg(spec="Spec", constants=K, invariants=["Emit"])
    r = ctx.tlc("PeriodAlignGen", cfg, constants=K, name="align", timeout=300, workers=1, heap="2g")
    path, _ = ctx.write_cases("align.ndjson", r.printed)
    ctx.replay(PKG, OVERLAY, "^TestVerifC08Align$", path, label="align", shards=1, binp=binp)


def replay(ctx, rp):
    path, _ = ctx.write_cases("replay.ndjson", [rp["case"]])
    key = rp.get("key") or ""
    if key.startswith("C08:data-race") or ":concurrent:" in key:
        return race_stage(ctx, ctx.go_build(PKG, OVERLAY, race=True, name="c08race"))
    if key.startswith("C08:token:no-return:concurrent"):
        return concurrent(ctx, ctx.go_build(PKG, OVERLAY, name="c08drv"))
    if key.startswith("C08:period:align"):
        return align(ctx, ctx.go_build(PKG, OVERLAY, name="c08drv"))
    test = "^TestVerifC08Period$" if key.startswith("C08:period") else "^TestVerifC08Token$"
    ctx.replay(PKG, OVERLAY, test, path, label="replay")
