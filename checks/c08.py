"""C08 - rate limiters.  spec/PeriodLimit.tla + spec/TokenLimit.tla (model-checked), their generators
PeriodLimitGen/TokenLimitGen -> replay on the real PeriodLimit / TokenLimiter over miniredis (Lua scripts
executed by miniredis' gopher-lua, TTLs steered with FastForward, outages with Close/Restart)."""
from vlib import core

PKG = "./lib/limit"
OVERLAY = {"lib/limit/zz_verif_c08_test.go": "c08/limit_test.go"}
W = 6                       # TLC workers
SHARDS = 8                  # driver processes per replay (other checks run on the same machine)
META = dict(
    text="Model-based replay of both limiters. PeriodLimit.tla states the window/quota rule independently over "
         "the log of takes and is model-checked against the counter+TTL mechanism; TokenLimit.tla keeps the "
         "statement's ideal bucket next to the Lua script's Redis state and the in-process rescue bucket and is "
         "model-checked for ScriptIsIdeal, the burst+rate*t bound per bucket, Fallback and Return. TLC then "
         "enumerates every history (takes on 2 keys, concurrent bursts, server-clock advances; AllowN(now,n) with "
         "n up to above burst, caller/server clock steps with server <= caller, Down/Up) up to a bound for several "
         "quota/period and rate/burst configurations, plus seeded simulation of long histories; each history is "
         "executed on the real limiter over miniredis and every code / grant decision (and whether the request "
         "reached Redis) is compared with the specification; the burst+rate*t bound is additionally evaluated directly on "
         "the grants observed per bucket, and the Align() window length handed to Redis is compared with a TLC-printed "
         "table of AlignedWindow for the wall-clock seconds of the run. The fallback switch itself (reserveN failure path, "
         "startMonitor, waitForRedis) has a mechanism model TokenMonitorImpl.tla, model-checked over all interleavings of 3 "
         "callers, the monitor and Redis going down/up for NoDeadFallback / NeverStuck and the liveness property Return "
         "(a variant with the redisAlive store hoisted above the lock must be rejected: vacuity guard); a concurrent "
         "recovery stage looks for a dead fallback on the real limiter (rounds of outage/recovery under concurrent callers "
         "with one call per limiter failing late, exactly at the model's critical point). A further family runs without the "
         "coin override (real breaker, real coin) on a healthy Redis: drained bucket / exhausted window, then hundreds of "
         "further requests at frozen clocks - every request must still reach Redis and be decided as the model says "
         "(denials and OverQuota codes are not breaker failures). A two-outage family (drain the rescue bucket in outage 1, recover "
         "through the monitor's ping, outage 2 in the same caller second) checks that the in-process bucket keeps its state. "
         "Outage DURATION is a dimension of its own: TokenLimit!Wait lets real (wall-clock) time pass during an outage without "
         "changing anything of the state, anywhere between Down and Up (before the limiter has noticed the outage or while its "
         "monitor is pinging); a family of TLC-enumerated behaviours with holds below and above 1 s and 2 s (thorough: 5 s) is "
         "replayed side by side (own server per worker), half of them with outages as dropped connections instead of Close/Restart: "
         "requests during the outage are the rescue bucket's and after Up the limiter returns to Redis however old its monitor is "
         "(mechanism side: TokenMonitorImpl's variant of a monitor with a ping budget must be rejected). The Up step waits for the "
         "return while the driver itself PINGs the server directly at the monitor's pace: a limiter still in fallback after an "
         "unbroken series of answered PINGs over 10 s is the disagreement C08:token:no-return (whether or not a ping of the monitor "
         "reached the server); a server that does not answer the driver either is harness trouble. "
         "RATE and BURST of the in-process bucket are dimensions of their own: the bucket of the outage is refilled continuously from "
         "the clock the caller supplies (the script sees whole seconds), so TokenLimit.tla keeps a millisecond part of the caller clock "
         "(Step) and the in-process bucket twice: refilled continuously, in millitokens - exact for every rate - and refilled once per whole "
         "caller second like the script's (the statement counts time in whole seconds, so either is 'a bucket of the same rate and burst'); a "
         "request is decided only where both readings agree (granted if both hold n tokens, denied if neither does: ReadingsAgree), which on "
         "whole-second behaviours is always. Model-checked with half-second steps for Bound (t real-valued for that bucket), NotStarved (what "
         "has been refilled in whole seconds is granted), AllowExact and DenialIdempotent; two families "
         "of behaviours that begin with the outage are replayed for 14 configurations (rates 3, 7, 300, 600, 999 not dividing 1000, 1500 and "
         "5000 above it, 5 and 1000 dividing it; burst above, equal to and below the rate): every behaviour up to a bound with millisecond "
         "steps just before / at the refill instant of the k-th token (1000*k/rate ms rounded down and up) and request sizes at the "
         "boundary of the grant rule (all the bucket holds, one more, burst+1), and seeded long behaviours with several outages and "
         "steps of 1 ms .. 1 s, seconds, a minute and an hour; the bound burst+rate*t is evaluated on the observed grants with t in ms. "
         "Concurrent use (code -> spec): many goroutines on ONE limiter, in rounds of barrier-separated phases with clock steps "
         "between them (one caller asking for burst+1 tokens, callers for 1 and 2 tokens, callers with cancelled contexts; "
         "several takers per key on several keys), once with the binary built with the race detector (a race report is the "
         "disagreement C08:data-race) and once, with more calls, without it; the driver only records the multiset of results "
         "per phase and the number of script executions the server saw, and TLC (TokenLimitConc.tla / PeriodLimitConc.tla) decides "
         "whether some sequential order of the calls is a behaviour of TokenLimit / PeriodLimit with exactly those results "
         "(every order searched for rounds with few grants, the canonical order justified by the model-checked properties "
         "AllowExact / DenialIdempotent otherwise; m concurrent takes of a key = PeriodLimit!Burst); hand-made rounds with a "
         "known answer guard the acceptor against vacuity.",
    note="Trusted: TLC, miniredis 2.23.1 (Lua via gopher-lua, TTL by FastForward) as the Redis environment, the "
         "driver's barrier (after Up it waits for the monitor's ping, reading redisAlive/monitorStarted: reached = barrier; "
         "not reached although the server has answered the driver's own direct PINGs (raw connection, PING with an argument) for 10 s "
         "in a row = C08:token:no-return, confirmed in the message by a further AllowN that does not reach Redis; reachability of the "
         "server after an outage is asked with that direct PING and a GET through the wrapper, never with the wrapper's Ping the "
         "monitor relies on; hold steps are lower bounds of real time, no verdict depends on an upper bound except the generous 10 s; "
         "during a Close/Restart outage a foreign listener on the server's port makes the behaviour disturbed (rerun), a server "
         "that cannot be restarted is replaced and the behaviour rerun; the concurrent recovery stage watches redisAlive to place one late failure - a direct call of the "
         "unexported failure handler startMonitor, what reserveN does when a script call fails - between the monitor's "
         "redisAlive := 1 and monitorStarted := false, a sub-microsecond window that natural traffic does not hit; its "
         "verdict is public: an EVAL of the limiter's key must reach Redis again within 8 s). The breaker inside redis.Redis has its coin forced to 'never reject' (H2) so that "
         "breaker rejections (C01) do not blur fallback/return. Not generated: server clock ahead of the caller "
         "clock (DESIGN 5), caller clock stepping backwards, requests between recovery and the monitor's ping, "
         "context cancellation in sequential histories (cancelled callers take part in the concurrent-use stage; a denied one needs "
         "no explanation, a granted one is judged like any grant). In the concurrent-use stage a script execution beyond the number of "
         "calls (go-redis re-sending after a late reply) is admitted as an unobserved execution that may have taken tokens; a call "
         "that never reached Redis although it was up is a disagreement. Align() is covered for the window length handed to Redis and the resulting TTL (table of "
         "PeriodLimit!AlignedWindow for the wall-clock seconds of the run, three zone offsets, four periods), not for "
         "histories across an aligned boundary (wall clock cannot be steered). Bound is stated per bucket (Redis bucket, rescue "
         "bucket): the rescue bucket starts full at the first outage, so no joint bound exists in the design. In-process bucket: a token "
         "interval of 1/rate s cannot be hit exactly on a nanosecond clock (time.Second/rate truncates: rate high by less than rate/10^9 of "
         "itself, e.g. 1500 -> 1500.0015/s, one surplus token per 11 minutes of sustained demand); TokenLimit!RescueSlack bounds that surplus since "
         "the bucket was last full and denials closer than that to the threshold are not generated (all grants and all other denials are "
         "compared exactly; an interval coarser than nanoseconds exceeds the slack within milliseconds).",
    technique="TLA+ specs (PeriodLimit, TokenLimit) + TLC-generated behaviours replayed on the real limiters over miniredis",
    design="4/C08")

FINISH = dict(rule="behaviours = complete TLC enumeration (BFS over the history variable) of all histories up to "
                   "MaxLen steps per configuration set, plus seeded TLC simulation of long histories; every step "
                   "of every behaviour is compared with the specification's prediction")

PCFG = "{<<1,1>>, <<2,1>>, <<3,2>>, <<2,3>>}"
TCFG = "{<<1,1>>, <<1,2>>, <<2,1>>, <<3,2>>, <<2,3>>}"
NOSUB = dict(MsSteps="{}", EdgeK="{}", LongSteps="{}", Wide="FALSE")       # whole caller seconds, request sizes 1..MaxN only


def mc(ctx):
    K = dict(Keys='{"a","b"}', Configs=PCFG, MaxAdv=2, MaxBurst=2)
    cfg = core.render_cfg(spec="Spec", constants=K, invariants=["TypeOK", "WindowQuota"],
                          properties=["KeysIndependent", "FreshOnlyAfterExpiry"], constraints=["Bound_"])
    ctx.tlc("PeriodLimit", cfg, constants=K, defs=dict(Bound_="Len(log) <= %d /\\ srv <= %d" % ((4, 4) if ctx.quick else (5, 6))),
            name="PeriodLimit-mc", timeout=900, workers=W, heap="2g")
    K = dict(Configs="{<<1,1>>, <<3,2>>, <<2,3>>}", MaxN=2, MaxStep=2, Holds="{1000}", **NOSUB)
    cfg = core.render_cfg(spec="Spec", constants=K, invariants=["TypeOK", "ScriptIsIdeal", "RedisIsIdeal", "Bound"],
                          properties=["Fallback", "Return", "OnlyPingReturns", "AllowExact", "DenialIdempotent", "NotStarved", "ReadingsAgree"], constraints=["Bound_"])
    ctx.tlc("TokenLimit", cfg, constants=K, defs=dict(Bound_="Len(glog) <= %d /\\ now <= %d" % ((3, 3) if ctx.quick else (3, 4))),
            name="TokenLimit-mc", timeout=900, workers=W, heap="3g")
    # the same properties with the caller clock moving by milliseconds (the in-process bucket is refilled continuously,
    # the script sees whole seconds), rates that do not divide 1000 and request sizes relative to the bucket
    K = dict(Configs=("{<<3,2>>, <<7,4>>}" if ctx.quick else "{<<3,2>>, <<7,4>>, <<2,3>>}"), MaxN=1, MaxStep=1, Holds="{}", MsSteps="{500}", EdgeK="{}", LongSteps="{}", Wide="TRUE")
    cfg = core.render_cfg(spec="Spec", constants=K, invariants=["TypeOK", "ScriptIsIdeal", "RedisIsIdeal", "Bound"],
                          properties=["Fallback", "Return", "OnlyPingReturns", "AllowExact", "DenialIdempotent", "NotStarved", "ReadingsAgree"], constraints=["Bound_"])
    ctx.tlc("TokenLimit", cfg, constants=K, defs=dict(Bound_="Len(glog) <= %d /\\ now <= %d" % ((2, 1) if ctx.quick else (3, 1))),
            name="TokenLimit-mc-ms", timeout=900, workers=W, heap="3g")


def mc_monitor(ctx):
    """Mechanism model of the fallback switch: the code as written must satisfy NoDeadFallback / NeverStuck /
    Return for all interleavings of 3 callers, the monitor and Redis going down/up; the variant that stores
    redisAlive := 0 before taking the lock must be rejected (vacuity guard)."""
    K = dict(Callers='{"c1","c2","c3"}', Variant='"asis"')
    cfg = core.render_cfg(spec="Spec", constants=K, invariants=["TypeOK", "MonitorMatchesFlag", "NoDeadFallback", "NeverStuck"],
                          properties=["Return"])
    ctx.tlc("TokenMonitorImpl", cfg, constants=K, name="TokenMonitorImpl-asis", timeout=600, workers=W, heap="2g")
    K = dict(Callers='{"c1","c2"}', Variant='"hoisted"')
    cfg = core.render_cfg(spec="Spec", constants=K, invariants=["TypeOK", "NoDeadFallback"])
    r = ctx.tlc("TokenMonitorImpl", cfg, constants=K, name="TokenMonitorImpl-hoisted", timeout=600, workers=W, heap="2g",
                allow_violation=True)
    if r.violated != "NoDeadFallback":
        raise core.Infra("vacuous mechanism model: the hoisted-store variant of startMonitor is not rejected (%s)" % r.violated)
    # second guard, for the liveness property: a monitor whose pings succeed only for a limited time after its start
    K = dict(Callers='{"c1"}', Variant='"deadline"')
    # (NeverStuck is the safety form of Return: in fallback mode somebody who can still bring the limiter back is there;
    # TLC rejects the liveness property Return for this variant with the same behaviour continued by Up and stuttering)
    cfg = core.render_cfg(spec="Spec", constants=K, invariants=["TypeOK", "MonitorMatchesFlag", "NeverStuck"])
    r = ctx.tlc("TokenMonitorImpl", cfg, constants=K, name="TokenMonitorImpl-deadline", timeout=600, workers=W, heap="2g",
                allow_violation=True)
    if r.violated != "NeverStuck":
        raise core.Infra("vacuous mechanism model: a monitor whose pings stop succeeding after a while is not rejected (%s)" % r.violated)
    ctx.notes["TokenMonitorImpl"] = "asis: NoDeadFallback, NeverStuck, Return hold (3 callers); hoisted-store variant rejected (NoDeadFallback); " \
                                    "monitor with a ping budget rejected (NeverStuck)"


def real_breaker(ctx, binp):
    """Healthy Redis, the real per-address breaker with its real coin (no override): a drained bucket / an exhausted
    window followed by several hundred further requests at frozen clocks.  Denials (Nil reply of the token script)
    and OverQuota codes are not failures, so every request must still be decided by Redis (EVAL seen by the server)
    and the grants must be the model's - no fallback to the in-process bucket with its fresh full burst."""
    n = 400 if ctx.quick else 1500
    cases = gen_token(ctx, "tdrain", configs="{<<5,10>>, <<1,1>>, <<3,2>>, <<2,5>>}", maxlen=n, maxn=1, maxstep=0, maxdown=0)
    path, _ = ctx.write_cases("tdrain.ndjson", cases)
    ctx.replay(PKG, OVERLAY, "^TestVerifC08Token$", path, label="tdrain", shards=4, binp=binp, env=dict(VERIF_REAL_BREAKER=1))
    cases = gen_token(ctx, "tdrain2", configs="{<<5,10>>, <<3,2>>}", maxlen=(7 if ctx.quick else 8), maxn=2, maxstep=1, maxdown=0)
    path, _ = ctx.write_cases("tdrain2.ndjson", cases)
    ctx.replay(PKG, OVERLAY, "^TestVerifC08Token$", path, label="tdrain2", shards=SHARDS, binp=binp, env=dict(VERIF_REAL_BREAKER=1))
    K = dict(Keys='{"a"}', Configs="{<<3,5>>, <<1,2>>, <<10,3>>}", MaxAdv=0, MaxBurst=1, MaxLen=n)
    cfg = core.render_cfg(spec="GSpec", constants=K, invariants=["Emit"])
    r = ctx.tlc("PeriodLimitGen", cfg, constants=K, name="pdrain", timeout=900, workers=2, heap="3g")
    path, _ = ctx.write_cases("pdrain.ndjson", r.printed)
    ctx.replay(PKG, OVERLAY, "^TestVerifC08Period$", path, label="pdrain", shards=3, binp=binp, env=dict(VERIF_REAL_BREAKER=1))


def two_outages(ctx, binp):
    """Two outages within one caller second: the rescue bucket drained in the first outage must still be drained
    in the second one (recovery through the monitor's ping in between)."""
    import json
    cases = gen_token(ctx, "t2o", configs="{<<1,2>>}", maxlen=8, maxn=2, maxstep=0, maxdown=2)
    sel = []
    for c in cases:
        st = json.loads(c)
        downs = [i for i, x in enumerate(st) if x["op"] == "down"]
        if len(downs) < 2:
            continue
        a1 = [x for x in st[downs[0]:downs[1]] if x["op"] == "allow" and x["via"] == "rescue"]
        a2 = [x for x in st[downs[1]:] if x["op"] == "allow" and x["via"] == "rescue"]
        ping = [x for x in st[downs[0]:downs[1]] if x["op"] == "up" and x["ping"]]
        if a1 and a2 and ping and any(x["granted"] for x in a1) and any(not x["granted"] for x in a2):
            sel.append(c)
    want = 48 if ctx.quick else 400
    sel = sel[::max(1, len(sel) // want)][:want]          # a selection of inputs, the predictions stay TLC's
    if len(sel) < 10:
        raise core.Infra("two-outage family is nearly empty (%d)" % len(sel))
    path, _ = ctx.write_cases("t2o.ndjson", sel)
    ctx.replay(PKG, OVERLAY, "^TestVerifC08Token$", path, label="t2o", shards=SHARDS, binp=binp)


def outage_duration(ctx, binp):
    """Outage DURATION: TokenLimit!Wait lets real time pass during an outage (before the limiter has noticed it, or
    while its monitor is already pinging), for less and for more than 1 s / 2 s (thorough: 5 s).  Whatever the duration,
    requests during the outage are the rescue bucket's and after Up the limiter returns to Redis.  The behaviours mostly
    wait, so they are replayed side by side (VERIF_PAR workers per process, each with its own server); every other one has
    its outages as dropped connections instead of Close/Restart."""
    import json, random
    holds = [300, 1300, 2600] if ctx.quick else [150, 700, 1300, 2600, 5300]
    cases = gen_token(ctx, "thold", configs="{<<1,2>>, <<3,2>>}", maxlen=(5 if ctx.quick else 6), maxn=(1 if ctx.quick else 2), maxstep=1, maxdown=1,
                      holds="{" + ", ".join(map(str, holds)) + "}")
    groups = {}
    for c in cases:
        st = json.loads(c)
        ops = [x["op"] for x in st]
        if "hold" not in ops:
            continue
        h, d = ops.index("hold"), ops.index("down")
        u = next((i for i in range(h + 1, len(st)) if ops[i] == "up"), None)
        noticed = "allow" in ops[d + 1:h]                                     # the monitor is pinging during the hold
        during = "allow" in ops[h + 1:(len(st) if u is None else u)]          # requests to the rescue bucket after the hold
        ping = u is not None and st[u]["ping"]                                # Up with the monitor running: the return to Redis
        after = u is not None and "allow" in ops[u + 1:]                      # requests after the return
        groups.setdefault((st[h]["ms"], noticed, during, ping, after), []).append(c)
    rnd = random.Random(ctx.seed * 104729 + 8)
    per = 16 if ctx.quick else 60                         # behaviours per hold value
    sel = []
    for ms in holds:
        gs = [g for k, g in sorted(groups.items()) if k[0] == ms]
        for g in gs:
            rnd.shuffle(g)
        # the return to Redis after the hold is what the dimension is about: groups with Up;Ping first and twice as often
        order = [g for k, g in sorted(groups.items()) if k[0] == ms and k[3]] * 2 + gs
        n0 = len(sel)
        while order and len(sel) - n0 < per:
            order = [g for g in order if g]
            for g in order:
                if g and len(sel) - n0 < per:
                    sel.append(g.pop())
    if len(sel) < len(holds) * per // 2:
        raise core.Infra("outage-duration family is nearly empty (%d)" % len(sel))
    sel.sort(key=lambda c: -max(x.get("ms", 0) for x in json.loads(c)))   # the long ones first
    path, _ = ctx.write_cases("thold.ndjson", sel)
    before = len(ctx.disagreements)
    cnt, _ = ctx.replay(PKG, OVERLAY, "^TestVerifC08Token$", path, label="thold", shards=(4 if ctx.quick else 8), binp=binp,
                        env=dict(VERIF_PAR=(12 if ctx.quick else 16)))
    if len(ctx.disagreements) == before:                  # vacuity guards only when nothing disagrees
        for k, n in (("up.ping.monitor-older-than-1s", 6), ("up.ping.monitor-older-than-2s", 3), ("hold.monitor-running", 10),
                     ("hold.outage-not-yet-noticed", 3), ("allow.rescue", 10)):
            if cnt.get(k, 0) < n:
                raise core.Infra("outage-duration family is vacuous: counter %s = %d < %d" % (k, cnt.get(k, 0), n))
    ctx.notes["outage-duration"] = "%d behaviours with an outage held for %s ms of real time; %d returns to Redis with the monitor older than 1 s, " \
        "%d older than 2 s, %d older than 5 s" % (len(sel), "/".join(map(str, holds)), cnt.get("up.ping.monitor-older-than-1s", 0),
                                                  cnt.get("up.ping.monitor-older-than-2s", 0), cnt.get("up.ping.monitor-older-than-5s", 0))


# rate/burst configurations of the in-process-bucket families: rates that do not divide 1000 (3, 7, 300, 999), that
# exceed it (1500, 5000), that divide it (5, 600 does not, 1000 does); burst above, equal to and below the rate
RCFG = ["<<3,10>>", "<<7,20>>", "<<7,7>>", "<<300,600>>", "<<300,150>>", "<<999,999>>", "<<999,2500>>", "<<1500,1500>>",
        "<<1500,4000>>", "<<5000,2500>>", "<<5000,12000>>", "<<600,600>>", "<<5,10>>", "<<1000,1000>>"]


def rescue_gen(ctx):
    """The behaviours of the two in-process-bucket families (TLC; run() has them generated in the background)."""
    cfgs = "{" + ", ".join(RCFG) + "}"
    return [("redge", gen_token(ctx, "redge", configs=cfgs, maxlen=(4 if ctx.quick else 5), maxn=0, maxstep=1, maxdown=1,
                                edgek=("{1, 2}" if ctx.quick else "{1, 2, 3}"), wide=True, downfirst=True)),
            ("rsim", one_per_prefix(gen_token(ctx, "rsim", configs=cfgs, maxlen=(60 if ctx.quick else 80), maxn=2, maxstep=2, maxdown=3,
                                              mssteps="{1, 250, 999}", edgek="{1, 2, 5}", longsteps="{60, 3600}", wide=True, downfirst=True,
                                              simulate=(400 if ctx.quick else 1000))))]


def rescue_rate(ctx, binp, fams=None):
    """RATE and BURST of the in-process bucket ("keeps limiting with an in-process bucket of the same rate and burst").
    The bucket of the outage is refilled continuously from the caller's clock, so the behaviours of these families move
    that clock by milliseconds (TokenLimit!Step) as well as by seconds, minutes and hours, and ask for what the model's
    bucket holds, one more, and burst + 1 (Wide).  redge: every behaviour that begins with the outage, up to a bound, with
    millisecond steps at the refill instants of the first tokens (just before / at 1000*k/rate ms); rsim: seeded long
    behaviours with several outages, sub-second, multi-second and long steps.  Every decision is compared with the
    millitoken bucket of TokenLimit.tla, the bound burst + rate*t is evaluated on the observed grants with t in ms."""
    import json
    before = len(ctx.disagreements)
    fams = fams.result() if fams is not None else rescue_gen(ctx)
    cnt = {}
    seen = {}                                             # per configuration: what the inputs exercise (vacuity guard)
    for name, cases in fams:
        for c in cases:
            st = json.loads(c)
            k = (st[0]["rate"], st[0]["burst"])
            d = seen.setdefault(k, dict(sub=0, denied=0, granted=0))
            ms = 0
            for x in st[1:]:
                if x["op"] == "step":
                    ms = (ms + x["ms"]) % 1000
                elif x["op"] == "allow" and x["via"] == "rescue":
                    d["sub"] += 1 if ms else 0
                    d["granted"] += 1 if x["granted"] else 0
                    d["denied"] += 1 if (not x["granted"] and x["n"] <= k[1]) else 0
        path, _ = ctx.write_cases(name + ".ndjson", cases)
        ctx.samples += core.sample_of(cases, 1)
        # 64-128 servers side by side: outages as dropped connections only, so that no port is ever released
        # (a released port is easily grabbed by a neighbour; Close/Restart outages are covered by the other families)
        c, _ = ctx.replay(PKG, OVERLAY, "^TestVerifC08Token$", path, label=name, shards=(4 if ctx.quick else 8), binp=binp,
                          env=dict(VERIF_PAR=16, VERIF_DROPALL=1))
        for k, n in c.items():
            cnt[k] = cnt.get(k, 0) + n
    if len(ctx.disagreements) == before:                  # vacuity guards only when nothing disagrees
        want = {tuple(int(x) for x in c.strip("<>").split(",")) for c in RCFG}
        for k in sorted(want):
            d = seen.get(k)
            if not d or d["sub"] < 20 or d["denied"] < 10 or d["granted"] < 10:
                raise core.Infra("in-process-bucket family is vacuous for rate=%d burst=%d: %s" % (k[0], k[1], d))
        for k, n in (("allow.rescue.subsecond", 1000), ("allow.redis.subsecond", 20), ("step", 1000)):
            if cnt.get(k, 0) < n:
                raise core.Infra("in-process-bucket family is vacuous: counter %s = %d < %d" % (k, cnt.get(k, 0), n))
    ctx.notes["in-process-bucket"] = "%d configurations (rates 3..5000, burst above/equal/below the rate), %d decisions of the in-process bucket at " \
        "sub-second caller times" % (len(RCFG), cnt.get("allow.rescue.subsecond", 0))


# ---------------------------------------------------------------- concurrent use (code -> spec)

def tla(v):
    """python value -> TLA+ literal (records, sequences, strings, integers, booleans)"""
    if isinstance(v, bool):
        return "TRUE" if v else "FALSE"
    if isinstance(v, int):
        return str(v)
    if isinstance(v, str):
        return '"%s"' % v
    if isinstance(v, (list, tuple)):
        return "<<" + ", ".join(tla(x) for x in v) + ">>"
    if isinstance(v, dict):
        return "[" + ", ".join("%s |-> %s" % (k, tla(x)) for k, x in v.items()) + "]"
    raise TypeError(v)


def conc_cases(ctx, heavy):
    """Inputs of the concurrent-use stage: caller mixes, phases and clock steps between them (seeded).  heavy: the
    plain binary (many calls); otherwise the binary built with the race detector (fewer calls, same shapes)."""
    import random
    rnd = random.Random(ctx.seed * 7919 + (1 if heavy else 0))
    mul = (4 if heavy else 1) * (1 if ctx.quick else 4)

    def ticks(n, maxd, frozen=0.5):
        out = [[0, 0]]
        for _ in range(n - 1):
            if rnd.random() < frozen:
                out.append([0, 0])
            else:
                dc = rnd.randint(1, maxd)
                out.append([dc, rnd.randint(0, dc)])       # the server clock never overtakes the caller clock
        return out

    def advs(n, period):
        return [0] + [rnd.choice([0, 0, 1, period // 2, period - 1, period, period + 1]) for _ in range(n - 1)]

    cfgs = []
    # drain: the bucket is empty after the first few calls of a phase, the bound burst + rate*t is what is exercised
    cfgs.append(dict(kind="token", rate=5, burst=10, ones=10, twos=3, cancelled=2, per=4, ticks=ticks(6, 3), rounds=3 * mul))
    # roomy: demand of a round < burst - every request for 1 or 2 tokens must be granted, burst+1 never
    cfgs.append(dict(kind="token", rate=1, burst=600, ones=10, twos=3, cancelled=2, per=3, ticks=ticks(6, 2, 0.7), rounds=4 * mul))
    cfgs.append(dict(kind="token", rate=3, burst=40, ones=10, twos=3, cancelled=2, per=3, ticks=ticks(6, 4), rounds=3 * mul))
    cfgs.append(dict(kind="token", rate=1, burst=1, ones=8, twos=2, cancelled=1, per=3, ticks=ticks(5, 2), rounds=2 * mul))
    cfgs.append(dict(kind="period", quota=5, period=3600, keys=4, takers=6, per=5, advs=advs(5, 3600), rounds=2 * mul))
    cfgs.append(dict(kind="period", quota=1, period=7, keys=2, takers=8, per=4, advs=advs(5, 7), rounds=2 * mul))
    cfgs.append(dict(kind="period", quota=30, period=60, keys=3, takers=6, per=3, advs=advs(5, 60), rounds=2 * mul))
    return cfgs


def conc_run(ctx, binp, label, race):
    """Run the recording driver TestVerifC08Race (no ctx bookkeeping here: may run in a background thread).  Outside
    ctx.replay because a race report makes the test binary exit non-zero."""
    import subprocess, os, time
    path, _ = ctx.write_cases(label + ".ndjson", conc_cases(ctx, heavy=not race))
    outp = os.path.join(ctx.build, "verdicts-%s-0.ndjson" % label)
    logp = os.path.join(ctx.build, "%s-0.out" % label)
    trp = os.path.join(ctx.build, "trace-%s.ndjson" % label)
    e = dict(os.environ)
    e.update(core.GOENV)
    e.update(VERIF_SEED=str(ctx.seed), VERIF_TIER=ctx.tier, VERIF_CASES=path, VERIF_OUT=outp, VERIF_TRACE=trp, VERIF_SHARD="0",
             VERIF_SHARDS="1", GORACE="halt_on_error=0", GOMAXPROCS="8")
    t0 = time.time()
    with open(logp, "w") as fo:
        try:
            p = subprocess.run([binp, "-test.run", "^TestVerifC08Race$", "-test.count=1", "-test.timeout", "900s"],
                               cwd=os.path.join(core.REPO, "lib/limit"), env=e, stdout=fo, stderr=subprocess.STDOUT, timeout=1000)
            rc = p.returncode
        except subprocess.TimeoutExpired:
            rc = None
    return dict(label=label, race=race, rc=rc, cases=path, outp=outp, logp=logp, trace=trp, wall=time.time() - t0)


def conc_collect(ctx, run):
    """Bookkeeping of one recording run; a race-detector report is the disagreement C08:data-race.  Returns the
    recorded rounds."""
    import json, os
    if run["rc"] is None:
        raise core.Infra("concurrent-use stage %s timed out" % run["label"])
    out = open(run["logp"], errors="replace").read()
    core.log("concurrent-use stage %s: rc=%s %.1fs" % (run["label"], run["rc"], run["wall"]))
    raced = "WARNING: DATA RACE" in out
    if raced:
        i = out.index("WARNING: DATA RACE")
        rep = out[i:i + 2500]
        frames = [l.strip() for l in rep.splitlines() if "/lib/limit/" in l or "/lib/store/" in l][:6]
        ctx.disagree("C08:data-race", "race detector: concurrent callers on one limiter; frames: %s" % "; ".join(frames),
                     case=open(run["cases"]).readline().strip(), source=run["label"])
    ctx.collect(run["outp"], 0 if raced else run["rc"], out, run["cases"], run["label"], run["label"])
    ctx.go_runs.append(dict(name=run["label"], pkg=PKG, run="^TestVerifC08Race$", race=run["race"], rc=run["rc"], wall_s=round(run["wall"], 2)))
    rounds = [json.loads(l) for l in open(run["trace"]) if l.strip()] if os.path.exists(run["trace"]) else []
    for r in rounds:
        r["from"] = run["label"]
    return rounds


def _phase(p, token, canon=False):
    q = dict(extra=max(0, p["evals"] - p["calls"]), lost=max(0, p["calls"] - p["evals"]))
    if token:
        q.update(dc=p["dc"], ds=p["ds"], canon=canon, obs=[dict(n=o["n"], live=o["live"], granted=o["granted"], cnt=o["cnt"]) for o in p["obs"]])
    else:
        q.update(d=p["d"], obs=[dict(k=o["k"], m=o["m"], allowed=o["allowed"], hit=o["hit"], over=o["over"]) for o in p["obs"]])
    return q


def _orders(p):
    """size of the search for one phase when the grants are taken in every order"""
    n = 1
    for o in p["obs"]:
        if o["granted"]:
            n *= o["cnt"] + 1
    return n


def _tphase(dc, ds, obs):
    return dict(dc=dc, ds=ds, calls=0, evals=0, obs=[dict(n=n, live=True, granted=g, cnt=c) for n, g, c in obs])


def conc_validate(ctx, rounds):
    """TLC decides for every recorded round whether some sequential order of the calls is a behaviour of TokenLimit /
    PeriodLimit with exactly the recorded results (spec/TokenLimitConc.tla, spec/PeriodLimitConc.tla).  Hand-made rounds
    with a known answer ride along as the vacuity guard of the acceptor (looked at only if nothing else disagrees)."""
    import json, copy
    tok = [r for r in rounds if r["kind"] == "token"]
    per = [r for r in rounds if r["kind"] == "period"]
    before = len(ctx.disagreements)
    guard = []                                            # (kind, index, must be accepted, what)
    if tok:
        r0 = copy.deepcopy(tok[0])
        r0["phases"][0]["obs"].append(dict(n=r0["burst"] + 1, live=True, granted=True, cnt=1))
        syn = [(r0, False, "a granted request for burst+1 tokens added to a recorded round"),
               (dict(rate=2, burst=3, phases=[_tphase(0, 0, [(1, True, 4)])]), False, "burst+1 tokens granted within one second"),
               (dict(rate=2, burst=3, phases=[_tphase(0, 0, [(1, True, 3), (1, False, 5)]), _tphase(1, 1, [(1, True, 3)])]), False,
                "burst, then rate+1 tokens granted one second later"),
               (dict(rate=2, burst=3, phases=[_tphase(0, 0, [(1, True, 3), (1, False, 5)]), _tphase(1, 1, [(2, True, 1), (2, False, 7), (1, False, 1)])]),
                True, "burst, then rate tokens granted one second later"),
               (dict(rate=2, burst=3, phases=[_tphase(0, 0, [(1, True, 1), (1, False, 1)])]), False, "a request denied although tokens are left in every order"),
               (dict(rate=2, burst=3, phases=[_tphase(0, 0, [(2, True, 1), (2, False, 1), (1, True, 1)])]), True, "2 tokens granted, 2 denied, then 1 granted")]
        for r, acc, what in syn:
            for canon in (False, True):                   # every order / the canonical order only: same answer
                r = dict(copy.deepcopy(r), kind="token", synthetic=what, canon=canon)
                tok.append(r)
                guard.append(("token", len(tok), acc, what + (" [canonical order]" if canon else "")))
    if per:
        def pph(d, a, h, o):
            return dict(d=d, calls=0, evals=0, errors=0, obs=[dict(k="k0", m=a + h + o, allowed=a, hit=h, over=o)])
        syn = [(dict(quota=3, period=10, phases=[pph(0, 2, 1, 4), pph(10, 2, 1, 0)]), True, "quota-1 Allowed, one HitQuota, rest OverQuota; again after expiry"),
               (dict(quota=3, period=10, phases=[pph(0, 3, 0, 4)]), False, "quota takes Allowed"),
               (dict(quota=3, period=10, phases=[pph(0, 2, 1, 4), pph(9, 1, 0, 0)]), False, "Allowed again one second before the window's expiry")]
        for r, acc, what in syn:
            r.update(kind="period", synthetic=what)
            per.append(r)
            guard.append(("period", len(per), acc, what))
    verdict = {}
    for kind, rs, module in (("token", tok, "TokenLimitConc"), ("period", per, "PeriodLimitConc")):
        if not rs:
            continue
        token = kind == "token"
        if token:
            for r in rs:
                r.setdefault("canon", max(_orders(p) for p in r["phases"]) > 64)
            ctx.counters["concv.token.rounds-searched-in-every-order"] = len([r for r in rs if not r["canon"] and "synthetic" not in r])
            K = dict(Configs="{" + ", ".join(sorted({"<<%d, %d>>" % (r["rate"], r["burst"]) for r in rs})) + "}", MaxN=1, MaxStep=1, Holds="{}", **NOSUB,
                     Rounds=tla([dict(rate=r["rate"], burst=r["burst"], phases=[_phase(p, True, r["canon"]) for p in r["phases"]]) for r in rs]))
        else:
            keys = sorted({o["k"] for r in rs for p in r["phases"] for o in p["obs"]})
            K = dict(Keys="{" + ", ".join('"%s"' % k for k in keys) + "}", MaxAdv=1, MaxBurst=2,
                     Configs="{" + ", ".join(sorted({"<<%d, %d>>" % (r["quota"], r["period"]) for r in rs})) + "}",
                     Rounds=tla([dict(quota=r["quota"], period=r["period"], phases=[_phase(p, False) for p in r["phases"]]) for r in rs]))
        cfg = core.render_cfg(spec="CSpec", constants=K, invariants=["Accept", "Stuck"], view="CView")
        res = ctx.tlc(module, cfg, constants=K, name="conc-" + kind, timeout=900, workers=W, heap="3g")
        accepted, stuck = set(), {}
        for line in res.printed:
            d = json.loads(line)
            if "accept" in d:
                accepted.add(d["accept"])
            elif "stuck" in d:
                stuck.setdefault(d["stuck"], []).append(d)
        for i, r in enumerate(rs, 1):
            verdict[(kind, i)] = i in accepted
            if i in accepted or "synthetic" in r:
                continue
            if i not in stuck:
                raise core.Infra("%s: round %d neither accepted nor reported as stuck" % (module, i))
            key, msg = (conc_describe_token if token else conc_describe_period)(r, stuck[i])
            ctx.disagree(key, msg, case=json.dumps(r, separators=(",", ":")), source=r.get("from", "conc"))
        n = len([r for r in rs if "synthetic" not in r])
        ctx.traces += n
        ctx.counters["concv.%s.rounds-validated" % kind] = n
        ctx.counters["concv.%s.calls" % kind] = sum(sum(o.get("cnt", o.get("m", 0)) for o in p["obs"]) for r in rs if "synthetic" not in r for p in r["phases"])
        ctx.counters["concv.%s.resent-executions" % kind] = sum(max(0, p["evals"] - p["calls"]) for r in rs for p in r["phases"])
    if len(ctx.disagreements) == before:
        for kind, i, acc, what in guard:
            if verdict.get((kind, i)) != acc:
                raise core.Infra("vacuous acceptor (%s): hand-made round '%s' is %s" % (kind, what, "rejected" if acc else "accepted"))
        errs = sum(p.get("errors", 0) for r in per for p in r["phases"])
        if errs:        # cannot happen: a take that returned an error leaves its key unexplained
            raise core.Infra("%d takes returned an error in accepted rounds" % errs)
    ctx.notes["concurrent-use"] = "%d token rounds and %d period rounds recorded from the real limiters, each accepted by TLC iff some order of " \
        "the calls is a behaviour of TokenLimit / PeriodLimit with the recorded results" % (
            len([r for r in tok if "synthetic" not in r]), len([r for r in per if "synthetic" not in r]))


def conc_describe_token(r, stuck):
    """The furthest TLC got in explaining the round: latest phase, fewest results left."""
    best = min(stuck, key=lambda d: (-d["ph"], sum(d["rem"])))
    p = r["phases"][best["ph"] - 1]
    left = [(o, c) for o, c in zip(p["obs"], best["rem"]) if c > 0]
    sec = sum(q["dc"] for q in r["phases"][:best["ph"]])
    res = "; ".join("%d x AllowN(n=%d%s)=%s" % (o["cnt"], o["n"], "" if o["live"] else ", cancelled ctx", str(o["granted"]).lower()) for o in p["obs"])
    if any(o["granted"] for o, _ in left):
        left = [(o, c) for o, c in left if o["granted"]]
    else:
        left = [(o, c) for o, c in left if o["live"] and o["n"] <= best["avail"]] or left
    rest = "; ".join("%d x n=%d %s" % (c, o["n"], "granted" if o["granted"] else "denied") for o, c in left)
    where = "rate=%d burst=%d, %s concurrent callers on one limiter, phase %d of %d at caller second %d (%s)" % (
        r["rate"], r["burst"], r.get("callers", "?"), best["ph"], len(r["phases"]), sec, r.get("from", ""))
    if not left:
        lost = max(0, p["calls"] - p["evals"])
        return "C08:token:concurrent:route", "%s: %d of %d calls never reached Redis although it was up (results: %s)" % (where, lost, p["calls"], res)
    if any(o["granted"] and o["n"] > r["burst"] for o, _ in left):
        key = "C08:token:concurrent:granted-impossible"
    elif any(o["granted"] for o, _ in left):
        key = "C08:token:concurrent:bound"
    else:
        key = "C08:token:concurrent:denied-available"
    return key, "%s: results %s - no order of these calls is a behaviour of TokenLimit; after the explainable ones the bucket holds %d " \
                "tokens and there remain: %s" % (where, res, best["avail"], rest)


def conc_describe_period(r, stuck):
    best = min(stuck, key=lambda d: (-d["ph"], len(d["want"])))
    p = r["phases"][best["ph"] - 1]
    where = "quota=%d period=%d, %s concurrent takers per key, phase %d of %d at server second %d (%s)" % (
        r["quota"], r["period"], r.get("takers", "?"), best["ph"], len(r["phases"]), sum(q["d"] for q in r["phases"][:best["ph"]]), r.get("from", ""))
    if not best["want"]:
        return "C08:period:concurrent:route", "%s: %d of %d takes never reached Redis although it was up" % (where, p["calls"] - p["evals"], p["calls"])
    parts = []
    for w in best["want"]:
        o, b = p["obs"][w["j"] - 1], w["bag"]
        parts.append("key %s, %d takes: Allowed x%d, HitQuota x%d, OverQuota x%d; specification %d, %d, %d" % (
            o["k"], o["m"], o["allowed"], o["hit"], o["over"], b["allowed"], b["hit"], b["over"]))
    key = "C08:period:concurrent:error" if p.get("errors") else "C08:period:concurrent:codes"
    return key, "%s: %s%s" % (where, " | ".join(parts), (" (%d takes returned an error)" % p["errors"]) if p.get("errors") else "")


def conc_record(ctx, binp):
    """Both recordings of the concurrent-use stage: the binary built with the race detector, then the plain binary
    with more calls.  No ctx bookkeeping besides the build: runs in a background thread next to the other stages."""
    runs = [conc_run(ctx, ctx.go_build(PKG, OVERLAY, race=True, name="c08race"), "race", True)]
    runs.append(conc_run(ctx, binp, "conc", False))
    return runs


def conc_stage(ctx, runs):
    """Concurrent use of one limiter: what the two recordings saw, judged by TLC."""
    rounds = []
    for run in runs:
        rounds += conc_collect(ctx, run)
    if not rounds:
        raise core.Infra("concurrent-use stage recorded nothing")
    conc_validate(ctx, rounds)


def concurrent(ctx, binp):
    cfgs = [dict(rounds=(25 if ctx.quick else 80), limiters=8, k=3)]
    path, _ = ctx.write_cases("concurrent.ndjson", cfgs)
    ctx.replay(PKG, OVERLAY, "^TestVerifC08Concurrent$", path, label="concurrent", shards=1, binp=binp, timeout=1200)


def gen_period(ctx, name, configs, maxlen, maxadv, maxburst, simulate=None):
    K = dict(Keys='{"a","b"}', Configs=configs, MaxAdv=maxadv, MaxBurst=maxburst, MaxLen=maxlen)
    cfg = core.render_cfg(spec="GSpec", constants=K, invariants=["Emit"])
    r = ctx.tlc("PeriodLimitGen", cfg, constants=K, name=name, simulate=simulate, depth=maxlen + 2, timeout=900,
                workers=(1 if simulate else W), heap="3g")
    return r.printed


def gen_token(ctx, name, configs, maxlen, maxn, maxstep, maxdown, simulate=None, holds="{}", mssteps="{}", edgek="{}",
              longsteps="{}", wide=False, downfirst=False):
    K = dict(Configs=configs, MaxN=maxn, MaxStep=maxstep, MaxLen=maxlen, MaxDown=maxdown, Holds=holds, MsSteps=mssteps, EdgeK=edgek,
             LongSteps=longsteps, Wide=("TRUE" if wide else "FALSE"), DownFirst=("TRUE" if downfirst else "FALSE"))
    cfg = core.render_cfg(spec="GSpec", constants=K, invariants=["Emit"])
    r = ctx.tlc("TokenLimitGen", cfg, constants=K, name=name, simulate=simulate, depth=maxlen + 2, timeout=900,
                workers=(1 if simulate else W), heap="3g")
    return r.printed


def one_per_prefix(cases):
    """TLC's simulator evaluates the Emit invariant on every successor of the last state of a trace, so a
    simulated trace is printed once per possible last step; keep one behaviour per trace."""
    seen, out = set(), []
    for c in cases:
        k = c.rsplit(',{"op"', 1)[0]
        if k not in seen:
            seen.add(k)
            out.append(c)
    return out


def run(ctx):
    from concurrent.futures import ThreadPoolExecutor
    ex = ThreadPoolExecutor(2)
    # the concurrent-use recordings (build with the race detector ~20 s, two recording runs) are made in the background;
    # the bookkeeping and the validation of what they recorded happen at the end, in this thread
    binp = ctx.go_build(PKG, OVERLAY, name="c08drv")
    conc_runs = ex.submit(conc_record, ctx, binp)
    # so are the model-checking runs (they need nothing from the replay and the replay nothing from them); a failure
    # of theirs (core.Infra) surfaces at the end of run(), after the real code has been judged
    mc_runs = ex.submit(lambda: (mc(ctx), mc_monitor(ctx)))
    ctx.assumptions += ["server clock never ahead of the caller clock (DESIGN 5)", "caller clock monotone",
                        "breaker coin forced to never-reject (H2)",
                        "in-process bucket: requests on which the whole-second and the continuous reading of the bucket differ are not generated",
                        "in-process bucket: denials within RescueSlack (nanosecond granularity of the token interval) of the threshold are not generated"]
    if ctx.quick:
        pplans = [("p4", dict(configs=PCFG, maxlen=4, maxadv=3, maxburst=2))]
        psims = [("ps", dict(configs="{<<3,2>>, <<4,3>>, <<2,5>>}", maxlen=40, maxadv=4, maxburst=5), 300)]
        tplans = [("t4", dict(configs=TCFG, maxlen=4, maxn=3, maxstep=3, maxdown=0)),
                  ("t4o", dict(configs="{<<1,2>>, <<3,2>>}", maxlen=4, maxn=2, maxstep=1, maxdown=1))]
        tsims = [("ts", dict(configs="{<<3,2>>, <<2,5>>, <<5,3>>, <<4,8>>}", maxlen=40, maxn=4, maxstep=4, maxdown=0), 300),
                 ("tso", dict(configs="{<<3,2>>, <<2,5>>}", maxlen=25, maxn=3, maxstep=3, maxdown=2), 60)]
    else:
        pplans = [("p4", dict(configs=PCFG, maxlen=4, maxadv=3, maxburst=3)),
                  ("p5", dict(configs=PCFG, maxlen=5, maxadv=2, maxburst=2))]
        psims = [("ps", dict(configs="{<<3,2>>, <<4,3>>, <<2,5>>, <<7,4>>, <<1,3>>}", maxlen=60, maxadv=5, maxburst=8), 1500)]
        tplans = [("t5", dict(configs=TCFG, maxlen=5, maxn=3, maxstep=3, maxdown=0)),
                  ("t6", dict(configs="{<<3,2>>}", maxlen=6, maxn=3, maxstep=2, maxdown=0)),
                  ("t5o", dict(configs="{<<1,2>>, <<3,2>>}", maxlen=5, maxn=2, maxstep=1, maxdown=1))]
        tsims = [("ts", dict(configs="{<<3,2>>, <<2,5>>, <<5,3>>, <<4,8>>, <<7,4>>, <<1,1>>}", maxlen=60, maxn=5, maxstep=5, maxdown=0), 3000),
                 ("tso", dict(configs="{<<3,2>>, <<2,5>>, <<5,3>>}", maxlen=50, maxn=3, maxstep=3, maxdown=4), 400)]
    ctx.exhaustive = True
    deferred = []

    def stage(fn, *a, **kw):
        """One family = one stage; the families are independent of each other.  Harness trouble in one of them must not
        hide what another one observes on the real code: it is kept and raised at the end, unless something disagreed."""
        try:
            return fn(*a, **kw)
        except core.Infra as e:
            core.log("stage %s: harness trouble (deferred): %s" % (getattr(fn, "__name__", "?"), str(e)[:300]))
            deferred.append(e)

    def prepare(gen, name, kw, num=None):
        cases = gen(ctx, name, **kw) if num is None else one_per_prefix(gen(ctx, name, simulate=num, **kw))
        path, _ = ctx.write_cases(name + ".ndjson", cases)
        return path, (core.sample_of(cases, 1) if num is None else [])

    def replay_family(test, name, fut):
        path, sample = fut.result()
        ctx.samples += sample
        ctx.replay(PKG, OVERLAY, test, path, label=name, shards=SHARDS, binp=binp)

    # TLC generates the behaviours of the next families (third background thread) while the drivers replay the previous ones
    genx = ThreadPoolExecutor(1)
    fams = [("^TestVerifC08Period$", name, genx.submit(prepare, gen_period, name, kw)) for name, kw in pplans]
    fams += [("^TestVerifC08Period$", name, genx.submit(prepare, gen_period, name, kw, num)) for name, kw, num in psims]
    fams += [("^TestVerifC08Token$", name, genx.submit(prepare, gen_token, name, kw)) for name, kw in tplans]
    fams += [("^TestVerifC08Token$", name, genx.submit(prepare, gen_token, name, kw, num)) for name, kw, num in tsims]
    rfams = genx.submit(rescue_gen, ctx)
    for test, name, fut in fams:
        stage(replay_family, test, name, fut)
    stage(align, ctx, binp)
    stage(real_breaker, ctx, binp)
    stage(two_outages, ctx, binp)
    stage(outage_duration, ctx, binp)
    stage(rescue_rate, ctx, binp, rfams)
    stage(concurrent, ctx, binp)
    stage(lambda: conc_stage(ctx, conc_runs.result()))
    stage(mc_runs.result)
    if deferred and not ctx.disagreements:
        raise deferred[0]
    if deferred:
        ctx.notes["harness-trouble"] = [str(e)[:300] for e in deferred]


def align(ctx, binp):
    """Align(): table of AlignedWindow for the wall-clock seconds of the next 20 minutes."""
    import time
    K = dict(T0=int(time.time()) - 5, Span=1200, Offsets="{0, 28800, -16200}", Periods="{7, 60, 3600, 86400}")
    cfg = core.render_cfg(spec="Spec", constants=K, invariants=["Emit"])
    r = ctx.tlc("PeriodAlignGen", cfg, constants=K, name="align", timeout=300, workers=1, heap="2g")
    path, _ = ctx.write_cases("align.ndjson", r.printed)
    ctx.replay(PKG, OVERLAY, "^TestVerifC08Align$", path, label="align", shards=1, binp=binp)


def replay(ctx, rp):
    path, _ = ctx.write_cases("replay.ndjson", [rp["case"]])
    key = rp.get("key") or ""
    if key.startswith("C08:data-race") or ":concurrent:" in key:
        return conc_stage(ctx, conc_record(ctx, ctx.go_build(PKG, OVERLAY, name="c08drv")))
    if key.startswith("C08:token:no-return:concurrent"):
        return concurrent(ctx, ctx.go_build(PKG, OVERLAY, name="c08drv"))
    if key.startswith("C08:period:align"):
        return align(ctx, ctx.go_build(PKG, OVERLAY, name="c08drv"))
    test = "^TestVerifC08Period$" if key.startswith("C08:period") else "^TestVerifC08Token$"
    if key.startswith("C08:token:no-return"):
        # the outage may have been long by accident (a slow restart) when the disagreement was seen: replay the behaviour as
        # recorded and with the outage held for 1.3 / 2.6 / 5.3 s before Redis comes back (TokenLimit!Wait changes nothing of
        # the state, so the predictions of all other steps stand; at most one hold per outage as in TokenLimitGen)
        import json
        st = json.loads(rp["case"])
        cases = [st]
        for ms in (1300, 2600, 5300):
            out, held = [], False
            for x in st:
                if x["op"] == "down":
                    held = False
                if x["op"] == "hold":
                    held = True
                if x["op"] == "up" and x.get("ping") and not held:
                    out.append(dict(op="hold", ms=ms))
                out.append(x)
            if out != st:
                cases.append(out)
        path, _ = ctx.write_cases("replay.ndjson", cases)
        return ctx.replay(PKG, OVERLAY, test, path, label="replay", env=dict(VERIF_PAR=len(cases)))
    ctx.replay(PKG, OVERLAY, test, path, label="replay")
