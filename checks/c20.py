"""C20 - code generator naming.  spec/Naming.tla (the naming rule over character sequences,
model-checked), spec/NamingGen.tla (TLC enumerates identifiers and prints the promised file name
for every template) -> replay on the current tools/god/util/format + util/stringx sources, copied
into a scratch module (tools/god is a separate module that cannot be built offline)."""
import glob, json, os, shutil, subprocess, time
from vlib import core

RUN = "^TestVerifC20$"

META = dict(
    text="TLA+ naming rule (spec/Naming.tla): identifiers, templates and file names are sequences over a small "
         "character alphabet with an explicit case table; Words = cut at underscores and before upper-case letters, "
         "Parse = first 'go' / 'designer' occurrence in any casing, their styles (lower/upper/title, otherwise "
         "rejected), Render = prefix + cased words joined by the text between the two words + suffix. TLC "
         "model-checks the rule (words partition the identifier, render shape, parse re-assembles the template, "
         "round trip satisfiable, determinism) and, through NamingGen.tla, enumerates every identifier up to a "
         "length bound (plus seeded simulation of long identifiers) and prints input and predicted output for every "
         "template of a template set (explicit list, and the product prefixes x spellings x separators x suffixes); "
         "the Go driver calls format.FileNamingFormat / stringx ToCamel / ToSnake on the copied current sources "
         "inside recover(), compares result/error, re-evaluates every pair sequentially and from two goroutines "
         "(determinism), and checks the camel->snake round trip where the statement promises it. All 4 x 256 casings "
         "of the two words are enumerated by the specification (only lower/upper/title are styles). A concurrent "
         "stage runs 16 goroutines over TLC-generated long identifiers x templates on a -race build (a race report "
         "is a disagreement, C20:data-race) and on the plain build, comparing every concurrent result with the "
         "prediction and with the value the same call returned alone. History independence: every shard's cases are "
         "evaluated again in reversed and in seeded order in the same process and compared with the prediction, and "
         "the collision family (NamingPairGen.tla: all (template, identifier) readings of one character string, "
         "equal concatenation, different promised results) is evaluated in one process in forward/reversed/seeded "
         "order. Identifier alphabets include the boundary characters a/z, A/Z, 0/9.",
    note="Trusted: TLC, the token->rune table of the driver, the copy of the two leaf packages (tools/god/config and "
         "the rest of the generator cannot be compiled offline). Identifier alphabet {a,b,A,B,1,_,U+4E2D} (+space for "
         "camel/snake); characters for which 'title casing of a word' or 'upper-case letter' is not fixed by the "
         "statement (separators inside words, non-ASCII upper-case letters) and templates that contain 'go'/'designer' "
         "more than once before the designer word are not generated. Templates with a rune whose upper-case form has "
         "another UTF-8 length (U+0131, U+0250) are generated in the thorough tier only (DESIGN.md section 5).",
    technique="TLA+ naming rule + TLC-enumerated (template, identifier) cases replayed on the copied generator packages",
    design="4/C20")

FINISH = dict(rule="cases = complete TLC enumeration (BFS: one state per identifier) of the identifiers up to MaxLen "
                   "over the identifier alphabet, each with the promised file name / rejection for every template of "
                   "the run's template set, plus seeded TLC simulation of identifiers up to length 12; every "
                   "(template, identifier) pair, ToCamel, ToSnake and the round trip are compared with the prediction")


def seq(s):
    toks = s if isinstance(s, (list, tuple)) else list(s)
    return "<<" + ",".join('"%s"' % c for c in toks) + ">>"


def sset(l):
    return "{" + ",".join(seq(t) for t in l) + "}"


ID7 = '{"a","b","A","B","1","_","zh"}'
VALID8 = ["go_designer", "goDesigner", "GoDesigner", "GODESIGNER", "x_Go-DESIGNER.go", "GO#designerX", "godesigner",
          "Go_designer_x"]
INVALID6 = ["designer", "go", "designer_go", "gO_designer", "go_dEsigner", ""]
D, G = list("designer"), list("go")
UNICODE = [["di"] + G + ["_"] + D, ["ta"] + G + ["_"] + D, G + ["_", "di"] + D, G + ["ta"] + D, G + ["_"] + D + ["di"],
           G + ["_"] + D + ["ta"], ["x", "di"] + list("Go") + list("DESIGNER")]
NOPRODUCT = dict(TplPrefixes="{}", GoForms="{}", TplThroughs="{}", DesForms="{}", TplSuffixes="{}")
PRODUCT = dict(TplPrefixes=sset(["", "x_"]), GoForms=sset(["go", "GO", "Go", "gO"]), TplThroughs=sset(["", "_", "-1"]),
               DesForms=sset(["designer", "DESIGNER", "Designer", "desiGner"]), TplSuffixes=sset(["", ".x"]))


def consts(idchars, maxlen, extra, product=None, emit_from=0):
    K = dict(IdChars=idchars, MaxLen=maxlen, Templates="TemplateList", Extra=sset(extra), EmitFrom=emit_from)
    K.update(product or NOPRODUCT)
    return K


PLANS = {
    "ids4": consts(ID7, 4, VALID8 + INVALID6),
    "ids5": consts(ID7, 5, VALID8 + INVALID6),
    "ids6": consts(ID7, 6, ["Go_designer", "goDESIGNER", "go"]),
    "tpl2": consts(ID7, 2, VALID8 + INVALID6, PRODUCT),
    "tpl3": consts(ID7, 3, VALID8 + INVALID6, PRODUCT),
    "sim": consts(ID7, 12, VALID8 + INVALID6, emit_from=5),
    "space4": consts('{"a","A","_","sp","1"}', 4, []),
    "space6": consts('{"a","A","_","sp","1"}', 6, []),
    "unicode": consts(ID7, 2, UNICODE),
    # every casing of the two words (4 x 256 spellings) x two separators: lower / upper / title are the
    # styles, the other 1015 x 2 templates must be rejected
    "casing": consts('{"a","B","_"}', 2, [],
                     dict(TplPrefixes=sset([""]), GoForms='Casings(<<"g","o">>)', TplThroughs=sset(["", "_"]),
                          DesForms='Casings(<<"d","e","s","i","g","n","e","r">>)', TplSuffixes=sset([""]))),
    # boundary characters of every ASCII class (a/z, A/Z, 0/9) in identifiers
    "bound5": consts('{"a","z","Z","9","_"}', 5, ["go_designer", "GoDesigner", "GODESIGNER", "go"]),
    "bound6": consts('{"a","z","Z","9","_"}', 6, ["go_designer", "GoDesigner", "GODESIGNER", "go"]),
    "bound8c": consts('{"a","A","y","z","Z","0","9","_"}', 4, ["goDesigner", "Go_DESIGNER", "designer"]),
    # concurrent stage: long identifiers with many words (most of them in the round-trip domain)
    "conc": consts('{"a","b","c","_"}', 15, VALID8 + INVALID6, emit_from=8),
}


PAIR_BASES = ["go_designer", "GoDesigner", "x_godesigner", "GO-designer.1"]
PAIR_TAIL = '{"a","B","_","1"}'


def pairs(ctx, binp, name, maxlen):
    """Collision family (spec/NamingPairGen.tla): all readings (template, identifier) of one string, evaluated one
    after the other in ONE process in forward / reversed / seeded order."""
    only = os.environ.get("VERIF_PLANS")
    if only and name not in only.split(","):
        return
    K = dict(IdChars=PAIR_TAIL, MaxLen=maxlen, Templates="<<>>", Bases=sset(PAIR_BASES))
    cfg = core.render_cfg(spec="Spec", constants=K, invariants=["Collides", "Emit"])
    r = ctx.tlc("NamingPairGen", cfg, constants=K, name=name, timeout=900, workers=6)
    cases = [p for p in r.printed if p.startswith('{"tail"')]
    if not cases:
        raise core.Infra("NamingPairGen printed no case")
    path, cnt = ctx.write_cases(name + ".ndjson", cases)
    ctx.samples += core.sample_of(cases[len(cases) // 2:], 1)
    ctx.notes.setdefault("pairs", {})[name] = dict(tails=len(cases), bases=len(PAIR_BASES))
    ctx.replay(".", {}, "^TestVerifC20Pairs$", path, label=name, shards=1, binp=binp)


def mc(ctx, maxlen):
    K = dict(IdChars=ID7, MaxLen=maxlen, Templates="<<" + ",".join(seq(t) for t in VALID8 + INVALID6) + ">>")
    cfg = core.render_cfg(spec="Spec", constants=K,
                          invariants=["WordsPartition", "RenderShape", "ParseRebuilds", "RoundTripModel", "Deterministic"])
    ctx.tlc("Naming", cfg, constants=K, name="Naming-mc", workers=6, timeout=900)


def build_driver(ctx):
    """Copy the current format/stringx sources (non-test files) + kit + driver into a scratch module."""
    mod = os.path.join(ctx.build, "mod")
    shutil.rmtree(mod, ignore_errors=True)
    util = os.path.join(core.REPO, "tools", "god", "util")
    ncopied = 0
    for pkg in ("format", "stringx"):
        os.makedirs(os.path.join(mod, pkg))
        for f in sorted(glob.glob(os.path.join(util, pkg, "*.go"))):
            if f.endswith("_test.go"):
                continue
            shutil.copy(f, os.path.join(mod, pkg))
            ncopied += 1
    if ncopied < 2:
        raise core.Infra("tools/god/util/{format,stringx} sources not found under %s" % util)
    os.makedirs(os.path.join(mod, "verifkit"))
    for f in glob.glob(os.path.join(core.HARNESS, "kit", "*.go")):
        shutil.copy(f, os.path.join(mod, "verifkit"))
    os.makedirs(os.path.join(mod, "drv"))
    for f in ("naming_test.go", "concurrent_test.go", "pairs_test.go"):
        shutil.copy(os.path.join(core.HARNESS, "c20", f), os.path.join(mod, "drv", f))
    open(os.path.join(mod, "go.mod"), "w").write("module verifc20\n\ngo 1.19\n\nrequire golang.org/x/text v0.5.0\n")
    # checksums of the cached golang.org/x/text: the repository's go.sum when there is one (an
    # untracked file in some trees); with -mod=mod and GOSUMDB=off go re-derives them from the
    # module cache otherwise
    for cand in (os.path.join(core.REPO, "go.sum"), os.path.join(core.REPO, "tools", "god", "go.sum")):
        if os.path.exists(cand):
            shutil.copy(cand, os.path.join(mod, "go.sum"))
            break
    e = dict(os.environ)
    e.update(core.GOENV)
    bins = []
    for name, flags in (("c20drv", []), ("c20race", ["-race"])):
        binp = os.path.join(ctx.build, name + ".test")
        t0 = time.time()
        p = subprocess.run(["go", "test", "-c", "-vet=off"] + flags + ["-o", binp, "./drv"], cwd=mod, env=e,
                           capture_output=True, text=True, timeout=900)
        core.log("go build %s (scratch module): rc=%s %.1fs" % (name, p.returncode, time.time() - t0))
        if p.returncode != 0 or not os.path.exists(binp):
            raise core.Infra("driver %s does not build against the current tools/god/util sources:\n%s"
                             % (name, (p.stdout + p.stderr)[-4000:]))
        bins.append(binp)
    return bins


def concurrent(ctx, racebin, binp, name, plan, goroutines=16, iters=3, **kw):
    """N goroutines evaluate every pair of a TLC-generated file at overlapping times: first the race-detector
    build (stops at the first report), then - if it reported nothing - the plain build (more overlap)."""
    only = os.environ.get("VERIF_PLANS")
    if only and name not in only.split(","):
        return
    header, cases = gen(ctx, name, plan, **kw)
    path, cnt = ctx.write_cases(name + ".ndjson", [header] + cases)
    ctx.notes.setdefault("pairs", {})[name] = dict(identifiers=len(cases), templates=len(json.loads(header)["templates"]),
                                                   goroutines=goroutines, iterations=iters)
    for kind, exe in (("race", racebin), ("plain", binp)):
        label = "%s-%s" % (name, kind)
        outp = os.path.join(ctx.build, "verdicts-%s.ndjson" % label)
        logp = os.path.join(ctx.build, label + ".out")
        e = dict(os.environ)
        e.update(core.GOENV)
        e.update(VERIF_SEED=str(ctx.seed), VERIF_TIER=ctx.tier, VERIF_CASES=path, VERIF_OUT=outp,
                 VERIF_GOROUTINES=str(goroutines), VERIF_ITER=str(iters), VERIF_CONC_SECONDS="240",
                 GOMAXPROCS=str(max(4, min(8, core.maxpar()))), GORACE="halt_on_error=1")
        t0 = time.time()
        with open(logp, "w") as fo:
            try:
                rc = subprocess.run([exe, "-test.run", "^TestVerifC20Concurrent$", "-test.count=1", "-test.timeout", "600s"],
                                    cwd=ctx.build, env=e, stdout=fo, stderr=subprocess.STDOUT, timeout=700).returncode
            except subprocess.TimeoutExpired:
                raise core.Infra("concurrent stage %s timed out" % label)
        out = open(logp, errors="replace").read()
        races = out.count("WARNING: DATA RACE")
        wall = time.time() - t0
        ctx.go_runs.append(dict(name=label, run="TestVerifC20Concurrent", race=(kind == "race"), rc=rc,
                                wall_s=round(wall, 2), data_races=races))
        finished = os.path.exists(outp) and '"counters"' in (open(outp).read().splitlines() or [""])[-1]
        cnt, bad = {}, []
        if finished:
            # (a race report makes the test binary exit non-zero although the driver finished: the verdict file decides)
            cnt, bad = ctx.collect(outp, 0 if rc in (0, 1, 66) else rc, out, path, label, "concurrent")
        core.log("concurrent %s: cases=%d steps=%d bad=%d data-races=%d finished=%s rc=%s %.1fs" % (
            label, len(cases), cnt.get("steps", 0), len(bad), races, finished, rc, wall))
        if races:
            # GORACE=halt_on_error=1: the process stops at the first report, before a corrupted shared object can
            # make a conversion loop or allocate without bound
            i = out.index("WARNING: DATA RACE")
            ctx.disagree("C20:data-race", "the race detector reported a data race while %d goroutines called ToCamel/"
                         "ToSnake/FileNamingFormat on the copied sources (the results are not a function of the inputs "
                         "alone); report:\n%s" % (goroutines, out[i:i + 3000]), case=None, source="concurrent")
            return
        if not finished:
            raise core.Infra("concurrent stage %s did not finish (rc=%s) and there is no race report\n%s" % (label, rc, out[-3000:]))
        if rc != 0 and not bad:
            raise core.Infra("concurrent stage %s exited rc=%s without a disagreement or a race report\n%s" % (label, rc, out[-3000:]))
        if bad:
            return


def gen(ctx, name, plan, simulate=None, depth=None):
    K = dict(PLANS[plan])
    cfg = core.render_cfg(spec="Spec", constants=K, invariants=["Emit"])
    r = ctx.tlc("NamingGen", cfg, constants=K, name=name, simulate=simulate, depth=depth, timeout=1500,
                workers=(1 if simulate else 6))
    header = [p for p in r.printed if p.startswith('{"templates"')]
    cases = [p for p in r.printed if not p.startswith('{"templates"')]
    if not header or not cases:
        raise core.Infra("NamingGen %s printed no header/cases" % name)
    if simulate:
        cases = sorted(set(cases))
    return header[0], cases


def one(ctx, binp, name, plan, **kw):
    only = os.environ.get("VERIF_PLANS")  # development aid: run a subset of the plans
    if only and name.split("-")[0] not in only.split(","):
        return
    header, cases = gen(ctx, name, plan, **kw)
    path, cnt = ctx.write_cases(name + ".ndjson", [header] + cases)
    ctx.samples += core.sample_of(cases[len(cases) // 2:], 1)
    ctx.notes.setdefault("pairs", {})[name] = dict(identifiers=len(cases), templates=len(json.loads(header)["templates"]))
    ctx.replay(".", {}, RUN, path, label=name, shards=16, binp=binp)


def run(ctx):
    ctx.assumptions += [
        "the two leaf packages are tested as a copy of the current sources in a scratch module (tools/god cannot be "
        "built offline); tools/god/config is not exercised",
        "title casing of a word = first character upper-case, rest lower-case; words never contain separators "
        "(identifier alphabet has none), so strings.Title's notion of word boundaries is not involved",
        "the round trip is promised only for identifiers made of [a-z]+ words joined by single underscores "
        "(and the empty identifier); elsewhere only 'does not panic' is compared for ToCamel/ToSnake",
        "templates in which 'go' or 'designer' occurs more than once before the designer word are not generated",
    ]
    mc(ctx, 3 if ctx.quick else 4)
    binp, racebin = build_driver(ctx)
    ctx.exhaustive = True
    one(ctx, binp, "casing", "casing")
    one(ctx, binp, "unicode", "unicode")
    if ctx.quick:
        one(ctx, binp, "ids4", "ids4")
        one(ctx, binp, "tpl2", "tpl2")
        one(ctx, binp, "space4", "space4")
        one(ctx, binp, "bound5", "bound5")
        pairs(ctx, binp, "collide", 3)
        one(ctx, binp, "sim", "sim", simulate=200, depth=13)
        concurrent(ctx, racebin, binp, "conc", "conc", simulate=40, depth=16)
    else:
        one(ctx, binp, "ids5", "ids5")
        one(ctx, binp, "ids6", "ids6")
        one(ctx, binp, "tpl3", "tpl3")
        one(ctx, binp, "space6", "space6")
        one(ctx, binp, "bound6", "bound6")
        one(ctx, binp, "bound8c", "bound8c")
        pairs(ctx, binp, "collide", 4)
        one(ctx, binp, "sim", "sim", simulate=2500, depth=13)
        concurrent(ctx, racebin, binp, "conc", "conc", goroutines=16, iters=10, simulate=150, depth=16)


def replay(ctx, rp):
    plan = (rp.get("label") or "ids4").split("-")[0]
    if plan == "collide":
        binp, racebin = build_driver(ctx)
        path, _ = ctx.write_cases("replay.ndjson", [rp["case"]])
        ctx.replay(".", {}, "^TestVerifC20Pairs$", path, label="replay", binp=binp)
        return
    if plan not in PLANS:
        raise core.Infra("replay file names unknown plan %r" % plan)
    binp, racebin = build_driver(ctx)
    K = dict(PLANS[plan], MaxLen=0, EmitFrom=0)
    cfg = core.render_cfg(spec="Spec", constants=K, invariants=["Emit"])
    r = ctx.tlc("NamingGen", cfg, constants=K, name="header", workers=1)
    header = [p for p in r.printed if p.startswith('{"templates"')][0]
    if not rp.get("case"):
        raise core.Infra("this replay file carries no single case (data-race report): re-run `bin/check C20`")
    path, _ = ctx.write_cases("replay.ndjson", [header, rp["case"]])
    ctx.replay(".", {}, RUN, path, label="replay", binp=binp)
