"""C20 - code generator naming.  spec/Naming.tla (the naming rule over character sequences,
model-checked), spec/NamingGen.tla (TLC enumerates identifiers and prints the promised file name
for every template) -> replay on the current tools/god/util/format + util/stringx + config sources (and the
util/* leaf packages they import), copied into a scratch module that carries the path of the real module
(github.com/gotid/god/tools/god is a separate module that cannot be built offline)."""
import glob, json, os, re, shutil, subprocess, time
from concurrent.futures import ThreadPoolExecutor, as_completed
from vlib import core

POOL = 4    # TLC runs in parallel (each is start-up dominated) ...
W = 2       # ... with this many TLC workers each (4 for the casing family: 2048 templates per state)

RUN = "^TestVerifC20$"

META = dict(
    text="TLA+ naming rule (spec/Naming.tla): identifiers, templates and file names are sequences over a small "
         "character alphabet with an explicit case table; Words = cut at underscores and before upper-case letters, "
         "Parse = first 'go' / 'designer' occurrence in any casing, their styles (lower/upper/title, otherwise "
         "rejected), Render = prefix + cased words joined by the text between the two words + suffix. TLC "
         "model-checks the rule (words partition the identifier, render shape, parse re-assembles the template, "
         "round trip satisfiable, determinism) and, through NamingGen.tla, enumerates every identifier up to a "
         "length bound (plus seeded simulation of long identifiers) and prints input and predicted output for every "
         "template of a template set (explicit list, and the product prefixes x spellings x separators x suffixes); "
         "the Go driver calls format.FileNamingFormat / stringx ToCamel / ToSnake on the copied current sources "
         "inside recover(), compares result/error, re-evaluates every pair sequentially and from two goroutines "
         "(determinism), and checks the camel->snake round trip where the statement promises it. All 4 x 256 casings "
         "of the two words are enumerated by the specification (only lower/upper/title are styles). A concurrent "
         "stage runs 16 goroutines over TLC-generated long identifiers x templates on a -race build (a race report "
         "is a disagreement, C20:data-race) and on the plain build, comparing every concurrent result with the "
         "prediction and with the value the same call returned alone. History independence: every shard's cases are "
         "evaluated again in reversed and in seeded order in the same process and compared with the prediction, and "
         "the collision family (NamingPairGen.tla: all (template, identifier) readings of one character string, "
         "equal concatenation, different promised results) is evaluated in one process in forward/reversed/seeded "
         "order. Identifier alphabets include the boundary characters a/z, A/Z, 0/9 and words that start with a digit "
         "and go on with letters (first and later position, lower/upper/title templates; the specification reports "
         "this coverage per case and the run is refused as vacuous without it). The unicode family puts runes whose "
         "Unicode case mapping changes the UTF-8 length or lands on an ASCII letter (U+0131, U+017F, U+0130, U+0250, "
         "U+2C65) before, between and after the two words (rendered verbatim) and inside a would-be word "
         "(de<U+017F>igner, des<U+0131>gner, DES<U+0130>GNER: not the word, rejected / the later real word counts). "
         "Via the configuration (family cfg, Via = \"config\" in the specification): the templates go the way of the "
         "generators' --style flag - cfg, err := config.NewConfig(template) on the copied tools/god/config, rejected if "
         "err != nil, else FileNamingFormat(cfg.NamingFormat, id); the specification says that no template stands for "
         "the default 'godesigner' and every other template is the template, so white space (space, TAB, LF, U+00A0, "
         "U+3000) at the beginning of the prefix / the end of the suffix is rendered and a blank template is rejected "
         "(product of such prefixes x spellings x separators x suffixes, plus blank / empty / invalid templates; the "
         "run is refused as vacuous without rendered lead/trail/both templates, a rejected blank one and the rendered "
         "empty one). Conversion families (conv*, no templates): identifiers over letters whose lower-case form has "
         "another UTF-8 length (U+023A/U+023E -> 3-byte U+2C65/U+2C66, U+2C66 -> 2-byte upper case, U+0130 -> i, "
         "U+212A -> k, U+00C9) and the bytes 0xFF / 0xC3 that are no UTF-8; ToSnake is compared with the "
         "specification's conversion (cut before every upper-case letter, lower-case, join with '_') on every string "
         "without white space, ToCamel on strings whose underscore-separated parts are letters/digits beginning with a "
         "letter; for inputs that are no UTF-8 modulo 'invalid byte <-> U+FFFD'; everywhere: no panic, a UTF-8 input "
         "gives a UTF-8 result, and the value is the same in two goroutines and in the later passes. Family bytes: "
         "FileNamingFormat with invalid bytes in identifier and template (copied, modulo the same replacement).",
    note="Trusted: TLC, the token->rune table of the driver, the copy of the leaf packages into a scratch module named "
         "github.com/gotid/god/tools/god (util/format, util/stringx, config and every tools/god/util/* package they "
         "import, packages of the root module through a replace onto the checked tree; an import of any other tools/god "
         "package is a harness problem: the rest of the generator cannot be compiled offline; the call sequence "
         "NewConfig -> FileNamingFormat(cfg.NamingFormat, name) of the generators is reproduced by the driver). "
         "Identifier alphabet {a,b,A,B,1,_,U+4E2D} (+space for camel/snake, + the case-length letters and invalid "
         "bytes in the conversion families); characters for which 'title casing of a word' or 'upper-case letter' is not fixed by the "
         "statement (separators inside words, non-ASCII upper-case letters) and templates that contain 'go'/'designer' "
         "more than once before the designer word are not generated. U+212A (Kelvin sign) is not generated: neither "
         "word has a k.",
    technique="TLA+ naming rule + TLC-enumerated (template, identifier) cases replayed on the copied generator packages",
    design="4/C20")

FINISH = dict(rule="cases = complete TLC enumeration (BFS: one state per identifier) of the identifiers up to MaxLen "
                   "over the identifier alphabet, each with the promised file name / rejection for every template of "
                   "the run's template set, plus seeded TLC simulation of identifiers up to length 12; every "
                   "(template, identifier) pair, ToCamel, ToSnake and the round trip are compared with the prediction")


def seq(s):
    toks = s if isinstance(s, (list, tuple)) else list(s)
    return "<<" + ",".join('"%s"' % c for c in toks) + ">>"


def sset(l):
    return "{" + ",".join(seq(t) for t in l) + "}"


ID7 = '{"a","b","A","B","1","_","zh"}'
VALID8 = ["go_designer", "goDesigner", "GoDesigner", "GODESIGNER", "x_Go-DESIGNER.go", "GO#designerX", "godesigner",
          "Go_designer_x"]
INVALID6 = ["designer", "go", "designer_go", "gO_designer", "go_dEsigner", ""]
D, G = list("designer"), list("go")
GD = G + ["_"] + D
# runes whose case mapping has another UTF-8 length: di = U+0131 (upper 'I'), ls = U+017F (upper 'S'), ta = U+0250
# (upper U+2C6F, longer), ax = U+2C65 (upper U+023A, shorter), Id = U+0130 (lower 'i')
#  - outside the two words (prefix / between / suffix): the template is valid, the rune is copied
UNICODE = [[u] + GD for u in ("di", "ta", "ax", "ls", "Id")] + \
          [G + [u] + D for u in ("ta", "ax", "ls")] + [G + ["_", "di"] + D, G + ["Id", "-"] + D] + \
          [GD + [u] for u in ("di", "ta", "ax", "ls")] + \
          [["x", "di"] + list("Go") + list("DESIGNER"), ["ax"] + list("Go_Designer.go"), ["ta"] + list("Go_Designer.go"),
           ["ls", "_"] + list("GO") + ["ax", "ax"] + list("Designer") + ["_", "di"]]
#  - inside a would-be word, where a Unicode case mapping would complete the word (ls -> S, di -> I, Id -> i):
#    the template lacks the word and is rejected; followed by a real 'designer' the real one is the word
UNICODE += [list("gode") + ["ls"] + list("igner"), list("go_des") + ["di"] + list("gner"),
            list("go_de") + ["ls", "di"] + list("gner"), list("GO_DE") + ["ls"] + list("IGNER"),
            list("GO_DES") + ["Id"] + list("GNER"), list("Go_Des") + ["di"] + list("gner.go"),
            list("go_des") + ["Id"] + list("gner"), ["ta"] + list("go-de") + ["ls"] + list("igner"),
            list("go_de") + ["ls"] + list("igner_Designer"), list("go.des") + ["di"] + list("gner.designer")]
NOPRODUCT = dict(TplPrefixes="{}", GoForms="{}", TplThroughs="{}", DesForms="{}", TplSuffixes="{}")
PRODUCT = dict(TplPrefixes=sset(["", "x_"]), GoForms=sset(["go", "GO", "Go", "gO"]), TplThroughs=sset(["", "_", "-1"]),
               DesForms=sset(["designer", "DESIGNER", "Designer", "desiGner"]), TplSuffixes=sset(["", ".x"]))


def consts(idchars, maxlen, extra, product=None, emit_from=0, via="direct"):
    K = dict(IdChars=idchars, MaxLen=maxlen, Templates="TemplateList", Extra=sset(extra), EmitFrom=emit_from,
             Via='"%s"' % via)
    K.update(product or NOPRODUCT)
    return K


# via the configuration: white space at the outer ends of the template (sp, tb = TAB, nl = LF, nb = U+00A0,
# is = U+3000), blank templates, no template at all (= the default), and the ordinary valid / invalid ones
CFG_PRODUCT = dict(TplPrefixes=sset(["", ["sp"], ["tb", "nb"], ["x", "sp"]]), GoForms=sset(["go", "Go"]),
                   TplThroughs=sset(["_", ["sp"]]), DesForms=sset(["designer", "DESIGNER"]),
                   TplSuffixes=sset(["", ["sp"], ["nl", "is"], [".", "x", "tb"]]))
CFG_EXTRA = VALID8 + INVALID6 + [["sp"], ["sp", "sp"], ["tb"], ["nl"], ["nb"], ["is"], ["sp", "tb", "nl"],
                                 ["sp"] + G, D + ["sp"], ["tb"] + D + ["_"] + G + ["nl"], ["sp"] + list("gO_designer"),
                                 ["sp"] + list("godesigner"), list("godesigner") + ["sp"],
                                 ["tb"] + list("GoDesigner.go") + ["sp"], ["sp"] + list("GO") + ["sp"] + D + ["nl"],
                                 ["nb"] + list("go_dEsigner") + ["sp"], list("Go") + ["sp"] + list("Designer") + ["is"]]
# letters whose case mapping has another UTF-8 length and bytes that are no UTF-8, for the conversions
CONV9Q = '{"a","B","_","1","Ax","tx","xff","Kv","zh"}'
CONV14 = '{"a","B","_","1","Ax","Tx","ax","tx","xff","xc3","Ee","Kv","Id","zh"}'
CONV9 = '{"a","B","_","Ax","Tx","tx","xff","xc3","Kv"}'
BYTES_TPL = ["go_designer", "GoDesigner", "GODESIGNER", "go", ["xff"], ["xff"] + G + ["xff"] + D + ["xff"],
             ["xc3"] + list("Go_DESIGNER.go"), list("GO") + ["xc3", "xff"] + list("Designer") + ["xc3"],
             list("go_des") + ["xff"] + list("igner")]

PLANS = {
    "cfg": consts('{"a","B","_"}', 3, CFG_EXTRA, CFG_PRODUCT, via="config"),
    "cfgw3": consts('{"a","B","_","1","zh"}', 3, CFG_EXTRA, CFG_PRODUCT, via="config"),
    "conv4": consts(CONV9Q, 4, []),
    "conv5": consts(CONV9, 5, []),
    "convw4": consts(CONV14, 4, []),
    "convsim": consts(CONV14, 12, [], emit_from=5),
    "bytes3": consts('{"a","B","_","1","xff"}', 3, BYTES_TPL),
    "bytes5": consts('{"a","B","_","1","xff","xc3"}', 5, BYTES_TPL),
    "ids4": consts(ID7, 4, VALID8 + INVALID6),
    "ids5": consts(ID7, 5, VALID8 + INVALID6),
    "ids6": consts(ID7, 6, ["Go_designer", "goDESIGNER", "go"]),
    "tpl2": consts(ID7, 2, VALID8 + INVALID6, PRODUCT),
    "tpl3": consts(ID7, 3, VALID8 + INVALID6, PRODUCT),
    "sim": consts(ID7, 12, VALID8 + INVALID6, emit_from=5),
    "space4": consts('{"a","A","_","sp","1"}', 4, []),
    "space6": consts('{"a","A","_","sp","1"}', 6, []),
    "unicode": consts(ID7, 2, UNICODE),
    # every casing of the two words (4 x 256 spellings) x two separators: lower / upper / title are the
    # styles, the other 1015 x 2 templates must be rejected
    "casing": consts('{"a","B","_"}', 2, [],
                     dict(TplPrefixes=sset([""]), GoForms='Casings(<<"g","o">>)', TplThroughs=sset(["", "_"]),
                          DesForms='Casings(<<"d","e","s","i","g","n","e","r">>)', TplSuffixes=sset([""]))),
    # boundary characters of every ASCII class (a/z, A/Z, 0/9) in identifiers
    "bound5": consts('{"a","z","Z","9","_"}', 5, ["go_designer", "GoDesigner", "GODESIGNER", "go"]),
    "bound6": consts('{"a","z","Z","9","_"}', 6, ["go_designer", "GoDesigner", "GODESIGNER", "go"]),
    "bound8c": consts('{"a","A","y","z","Z","0","9","_"}', 4, ["goDesigner", "Go_DESIGNER", "designer"]),
    # concurrent stage: long identifiers with many words (most of them in the round-trip domain)
    "conc": consts('{"a","b","c","_"}', 15, VALID8 + INVALID6, emit_from=8),
}


PAIR_BASES = ["go_designer", "GoDesigner", "x_godesigner", "GO-designer.1"]
PAIR_TAIL = '{"a","B","_","1"}'


def pairs(ctx, binp, name, maxlen):
    """Collision family (spec/NamingPairGen.tla): all readings (template, identifier) of one string, evaluated one
    after the other in ONE process in forward / reversed / seeded order.  Returns the replay step (run by the
    caller in the main thread) or None."""
    only = os.environ.get("VERIF_PLANS")
    if only and name not in only.split(","):
        return None
    K = dict(IdChars=PAIR_TAIL, MaxLen=maxlen, Templates="<<>>", Bases=sset(PAIR_BASES), Via='"direct"')
    cfg = core.render_cfg(spec="Spec", constants=K, invariants=["Collides", "Emit"])
    r = ctx.tlc("NamingPairGen", cfg, constants=K, name=name, timeout=900, workers=W)
    cases = [p for p in r.printed if p.startswith('{"tail"')]
    if not cases:
        raise core.Infra("NamingPairGen printed no case")

    def consume():
        path, cnt = ctx.write_cases(name + ".ndjson", cases)
        ctx.samples += core.sample_of(cases[len(cases) // 2:], 1)
        ctx.notes.setdefault("pairs", {})[name] = dict(tails=len(cases), bases=len(PAIR_BASES))
        ctx.replay(".", {}, "^TestVerifC20Pairs$", path, label=name, shards=1, binp=binp)
    return consume


def mc(ctx, maxlen, via="direct"):
    """Model checking of the rule itself.  via="config": the hand-over through the configuration (white-space and
    blank templates, no template) and the conversions over the case-length letters / invalid bytes."""
    tpls, idchars, name = VALID8 + INVALID6, ID7, "Naming-mc"
    if via == "config":
        tpls = CFG_EXTRA + [["sp"] + GD, GD + ["tb"], ["nb", "x"] + list("Go") + ["sp"] + list("DESIGNER") + ["sp", "nl"]]
        idchars, name = '{"a","B","_","Ax","tx","xff","Id"}', "Naming-mc-cfg"
    only = os.environ.get("VERIF_PLANS")
    if only and "mc" not in only.split(","):
        return None
    K = dict(IdChars=idchars, MaxLen=maxlen, Templates="<<" + ",".join(seq(t) for t in tpls) + ">>", Via='"%s"' % via)
    cfg = core.render_cfg(spec="Spec", constants=K,
                          invariants=["WordsPartition", "RenderShape", "ParseRebuilds", "RoundTripModel", "Deterministic",
                                      "ConversionShape", "ConfigPassThrough"])
    ctx.tlc("Naming", cfg, constants=K, name=name, workers=W, timeout=900)
    return None


MODPATH = "github.com/gotid/god/tools/god"   # the scratch module carries the real module's path
ROOTMOD = "github.com/gotid/god"
DRIVER_FILES = ("naming_test.go", "concurrent_test.go", "pairs_test.go")


def go_imports(path):
    """Import paths of one Go source file (import declarations precede every other declaration)."""
    src = open(path, errors="replace").read()
    src = re.sub(r"/\*.*?\*/", "", src, flags=re.S)
    out = []
    for m in re.finditer(r'^import\s*(\((.*?)\)|(?:[\w.]+\s+)?"([^"]+)")', src, flags=re.M | re.S):
        if m.group(3):
            out.append(m.group(3))
        else:
            for line in m.group(2).splitlines():
                line = line.split("//")[0]
                q = re.search(r'"([^"]+)"', line)
                if q:
                    out.append(q.group(1))
    return out


def requirements(gomod):
    req = {}
    if os.path.exists(gomod):
        for m in re.finditer(r"^\s*(?:require\s+)?([\w./~-]+\.[\w./~-]+)\s+(v[^\s/]+)", open(gomod).read(), flags=re.M):
            req.setdefault(m.group(1), m.group(2))
    return req


def copy_sources(mod):
    """Copy the current non-test sources of tools/god/util/{format,stringx} and tools/god/config (the entry point
    through which every generator hands --style to FileNamingFormat) into the scratch module at the same
    relative path, plus - transitively - every other tools/god/util/<leaf> package they import.  Returns the
    relative package directories and the third-party / root-module import paths met on the way."""
    god = os.path.join(core.REPO, "tools", "god")
    todo, done, foreign = ["util/format", "util/stringx", "config"], [], set()
    while todo:
        rel = todo.pop(0)
        if rel in done:
            continue
        src = os.path.join(god, rel)
        files = [f for f in sorted(glob.glob(os.path.join(src, "*.go"))) if not f.endswith("_test.go")]
        if not files:
            raise core.Infra("tools/god/%s has no Go sources under %s" % (rel, god))
        os.makedirs(os.path.join(mod, rel))
        for f in files:
            shutil.copy(f, os.path.join(mod, rel))
            for imp in go_imports(f):
                if imp == MODPATH or imp.startswith(MODPATH + "/"):
                    dep = imp[len(MODPATH) + 1:]
                    if not re.fullmatch(r"util/[^/]+|config", dep):
                        raise core.Infra("tools/god/%s imports %s: only tools/god/config and the leaf packages "
                                         "tools/god/util/* can be copied into the scratch module (the rest of the generator does not build offline)"
                                         % (rel, imp))
                    if dep not in done and dep not in todo:
                        todo.append(dep)
                elif "." in imp.split("/")[0]:
                    foreign.add(imp)
        done.append(rel)
    return done, foreign


def build_driver(ctx):
    """Copy the current format/stringx/config sources (non-test files, and the util/* leaf packages they import) + kit +
    driver into a scratch module that has the path of the real module, so that imports between the copied
    packages resolve exactly as in tools/god."""
    mod = os.path.join(ctx.build, "mod")
    shutil.rmtree(mod, ignore_errors=True)
    pkgs, foreign = copy_sources(mod)
    ctx.notes["copied_packages"] = ["tools/god/" + p for p in pkgs]
    os.makedirs(os.path.join(mod, "zz_verif", "kit"))
    for f in glob.glob(os.path.join(core.HARNESS, "kit", "*.go")):
        shutil.copy(f, os.path.join(mod, "zz_verif", "kit"))
    os.makedirs(os.path.join(mod, "zz_verif", "drv"))
    for f in DRIVER_FILES:
        shutil.copy(os.path.join(core.HARNESS, "c20", f), os.path.join(mod, "zz_verif", "drv", f))
    # requirements: the versions the repository's root module pins (those are in the module cache), then the ones of
    # tools/god/go.mod; golang.org/x/text v0.5.0 is what the cache holds for the stringx package
    pins = requirements(os.path.join(core.REPO, "go.mod"))
    for k, v in requirements(os.path.join(core.REPO, "tools", "god", "go.mod")).items():
        pins.setdefault(k, v)
    pins.setdefault("golang.org/x/text", "v0.5.0")
    req, replace = {"golang.org/x/text": pins["golang.org/x/text"]}, ""
    for imp in sorted(foreign):
        if imp == ROOTMOD or imp.startswith(ROOTMOD + "/"):
            # a package of the repository's root module: the current tree itself
            req[ROOTMOD] = "v0.0.0"
            replace = "\nreplace %s => %s\n" % (ROOTMOD, core.REPO)
            continue
        owner = max([m for m in pins if imp == m or imp.startswith(m + "/")], key=len, default=None)
        if owner:
            req[owner] = pins[owner]
    open(os.path.join(mod, "go.mod"), "w").write("module %s\n\ngo 1.19\n\nrequire (\n%s)\n%s" % (
        MODPATH, "".join("\t%s %s\n" % kv for kv in sorted(req.items())), replace))
    # checksums of the cached modules: the repository's go.sum when there is one (an
    # untracked file in some trees); with -mod=mod and GOSUMDB=off go re-derives them from the
    # module cache otherwise
    for cand in (os.path.join(core.REPO, "go.sum"), os.path.join(core.REPO, "tools", "god", "go.sum")):
        if os.path.exists(cand):
            shutil.copy(cand, os.path.join(mod, "go.sum"))
            break
    e = dict(os.environ)
    e.update(core.GOENV)
    e["GOWORK"] = "off"
    bins = []
    for name, flags in (("c20drv", []), ("c20race", ["-race"])):
        binp = os.path.join(ctx.build, name + ".test")
        t0 = time.time()
        p = subprocess.run(["go", "test", "-c", "-vet=off"] + flags + ["-o", binp, "./zz_verif/drv"], cwd=mod, env=e,
                           capture_output=True, text=True, timeout=900)
        core.log("go build %s (scratch module %s: %s): rc=%s %.1fs" % (name, MODPATH, " ".join(pkgs), p.returncode,
                                                                     time.time() - t0))
        if p.returncode != 0 or not os.path.exists(binp):
            raise core.Infra("driver %s does not build against the current tools/god/util sources:\n%s"
                             % (name, (p.stdout + p.stderr)[-4000:]))
        bins.append(binp)
    return bins


def concurrent(ctx, racebin, binp, name, plan, goroutines=16, iters=3, **kw):
    """N goroutines evaluate every pair of a TLC-generated file at overlapping times: first the race-detector
    build (stops at the first report), then - if it reported nothing - the plain build (more overlap).
    Generates the cases and returns the stage itself as a step for the main thread (or None)."""
    only = os.environ.get("VERIF_PLANS")
    if only and name not in only.split(","):
        return None
    header, cases = gen(ctx, name, plan, **kw)
    return lambda: concurrent_run(ctx, racebin, binp, name, header, cases, goroutines, iters)


def concurrent_run(ctx, racebin, binp, name, header, cases, goroutines, iters):
    path, cnt = ctx.write_cases(name + ".ndjson", [header] + cases)
    ctx.notes.setdefault("pairs", {})[name] = dict(identifiers=len(cases), templates=len(json.loads(header)["templates"]),
                                                   goroutines=goroutines, iterations=iters)
    for kind, exe in (("race", racebin), ("plain", binp)):
        label = "%s-%s" % (name, kind)
        outp = os.path.join(ctx.build, "verdicts-%s.ndjson" % label)
        logp = os.path.join(ctx.build, label + ".out")
        e = dict(os.environ)
        e.update(core.GOENV)
        e.update(VERIF_SEED=str(ctx.seed), VERIF_TIER=ctx.tier, VERIF_CASES=path, VERIF_OUT=outp,
                 VERIF_GOROUTINES=str(goroutines), VERIF_ITER=str(iters), VERIF_CONC_SECONDS="240",
                 GOMAXPROCS=str(max(4, min(8, core.maxpar()))), GORACE="halt_on_error=1")
        t0 = time.time()
        with open(logp, "w") as fo:
            try:
                rc = subprocess.run([exe, "-test.run", "^TestVerifC20Concurrent$", "-test.count=1", "-test.timeout", "600s"],
                                    cwd=ctx.build, env=e, stdout=fo, stderr=subprocess.STDOUT, timeout=700).returncode
            except subprocess.TimeoutExpired:
                raise core.Infra("concurrent stage %s timed out" % label)
        out = open(logp, errors="replace").read()
        races = out.count("WARNING: DATA RACE")
        wall = time.time() - t0
        ctx.go_runs.append(dict(name=label, run="TestVerifC20Concurrent", race=(kind == "race"), rc=rc,
                                wall_s=round(wall, 2), data_races=races))
        finished = os.path.exists(outp) and '"counters"' in (open(outp).read().splitlines() or [""])[-1]
        cnt, bad = {}, []
        if finished:
            # (a race report makes the test binary exit non-zero although the driver finished: the verdict file decides)
            cnt, bad = ctx.collect(outp, 0 if rc in (0, 1, 66) else rc, out, path, label, "concurrent")
        core.log("concurrent %s: cases=%d steps=%d bad=%d data-races=%d finished=%s rc=%s %.1fs" % (
            label, len(cases), cnt.get("steps", 0), len(bad), races, finished, rc, wall))
        if races:
            # GORACE=halt_on_error=1: the process stops at the first report, before a corrupted shared object can
            # make a conversion loop or allocate without bound
            i = out.index("WARNING: DATA RACE")
            ctx.disagree("C20:data-race", "the race detector reported a data race while %d goroutines called ToCamel/"
                         "ToSnake/FileNamingFormat on the copied sources (the results are not a function of the inputs "
                         "alone); report:\n%s" % (goroutines, out[i:i + 3000]), case=None, source="concurrent")
            return
        if not finished:
            raise core.Infra("concurrent stage %s did not finish (rc=%s) and there is no race report\n%s" % (label, rc, out[-3000:]))
        if rc != 0 and not bad:
            raise core.Infra("concurrent stage %s exited rc=%s without a disagreement or a race report\n%s" % (label, rc, out[-3000:]))
        if bad:
            return


def gen(ctx, name, plan, simulate=None, depth=None, workers=None):
    K = dict(PLANS[plan])
    cfg = core.render_cfg(spec="Spec", constants=K, invariants=["Emit"])
    r = ctx.tlc("NamingGen", cfg, constants=K, name=name, simulate=simulate, depth=depth, timeout=1500,
                workers=(1 if simulate else (workers or W)))
    header = [p for p in r.printed if p.startswith('{"templates"')]
    cases = [p for p in r.printed if not p.startswith('{"templates"')]
    if not header or not cases:
        raise core.Infra("NamingGen %s printed no header/cases" % name)
    if simulate:
        cases = sorted(set(cases))
    return header[0], cases


def one(ctx, binp, name, plan, **kw):
    only = os.environ.get("VERIF_PLANS")  # development aid: run a subset of the plans
    if only and name.split("-")[0] not in only.split(","):
        return None
    header, cases = gen(ctx, name, plan, **kw)
    return lambda: one_replay(ctx, binp, name, header, cases)


def one_replay(ctx, binp, name, header, cases):
    path, cnt = ctx.write_cases(name + ".ndjson", [header] + cases)
    ctx.samples += core.sample_of(cases[len(cases) // 2:], 1)
    tpls = json.loads(header)["templates"]
    ctx.notes.setdefault("pairs", {})[name] = dict(identifiers=len(cases), templates=len(tpls))
    # what the family covers, as reported by the specification itself (vacuity guard, see vacuity())
    ctx.notes.setdefault("covers", {})[name] = dict(
        digit_led_first_word=sum(1 for c in cases if '"dw":[true,' in c),
        digit_led_later_word=sum(1 for c in cases if re.search(r'"dw":\[(true|false),true\]', c)),
        first_word_styles=sorted({t["gs"] for t in tpls if t["valid"]}),
        later_word_styles=sorted({t["ds"] for t in tpls if t["valid"]}),
        rendered_templates=sum(1 for t in tpls if t["valid"]),
        rejected_templates=sum(1 for t in tpls if not t["valid"]),
        rejected_with_named_rune=sum(1 for t in tpls if not t["valid"] and any(len(c) > 1 for c in t["t"])),
        rendered_with_named_rune=sum(1 for t in tpls if t["valid"] and any(len(c) > 1 for c in t["t"])),
        via=json.loads(header)["via"],
        rendered_outer_space={w: sum(1 for t in tpls if t["valid"] and t["ws"] == w) for w in ("lead", "trail", "both")},
        rejected_blank=sum(1 for t in tpls if not t["valid"] and t["ws"] == "blank"),
        rendered_blank=sum(1 for t in tpls if t["valid"] and t["ws"] == "blank"),
        rendered_empty=sum(1 for t in tpls if t["valid"] and not t["t"]),
        longer_lower_before_upper=sum(1 for c in cases if '"lg":[true,' in c),
        invalid_byte_before_upper=sum(1 for c in cases if re.search(r'"lg":\[(true|false),true\]', c)),
        snake_defined=sum(1 for c in cases if re.search(r'"sn":\{[^{}]*"d":true', c)),
        camel_defined=sum(1 for c in cases if re.search(r'"cm":\{[^{}]*"d":true', c)))
    ctx.replay(".", {}, RUN, path, label=name, shards=8, binp=binp)


STYLES = ["lower", "title", "upper"]


def vacuity(ctx, family, cfgfam, convfam):
    """Evaluated only when no disagreement was found: the run must have offered what it claims to decide.
    - words that start with a digit and go on with letters (title casing leaves them alone) in first and in later
      position, each with lower / upper / title templates, in the complete enumeration `family`;
    - templates with case-length-changing runes outside the words (rendered) and inside a would-be word (rejected);
    - the hand-over through config.NewConfig with white space at the outer ends of the template;
    - conversions of identifiers whose lower-case form is longer in bytes / that are no UTF-8."""
    cov = ctx.notes.get("covers", {})
    only = os.environ.get("VERIF_PLANS")
    c = cov.get(family)
    if c is not None:
        if not (c["digit_led_first_word"] and c["digit_led_later_word"]
                and c["first_word_styles"] == STYLES and c["later_word_styles"] == STYLES):
            raise core.Infra("vacuous run: family %s offers no digit-led word in first and later position under all "
                             "three styles: %s" % (family, c))
    elif not only:
        raise core.Infra("vacuous run: family %s was not generated" % family)
    u = cov.get("unicode")
    if u is not None:
        if u["rejected_with_named_rune"] < 5 or u["rendered_with_named_rune"] < 10:
            raise core.Infra("vacuous run: the unicode family lacks rendered/rejected templates with non-ASCII runes: %s" % u)
    elif not only:
        raise core.Infra("vacuous run: the unicode family was not generated")
    # - via the configuration: templates with white space at the outer ends (rendered), blank ones (rejected), none
    g = cov.get(cfgfam)
    if g is not None:
        if not (g["via"] == "config" and all(g["rendered_outer_space"][w] >= 3 for w in ("lead", "trail", "both"))
                and g["rejected_blank"] >= 3 and g["rendered_blank"] == 0 and g["rendered_empty"] == 1):
            raise core.Infra("vacuous run: family %s does not hand white-space / blank / empty templates through the "
                             "configuration: %s" % (cfgfam, g))
    elif not only:
        raise core.Infra("vacuous run: family %s was not generated" % cfgfam)
    # - conversions: an upper-case letter after a letter whose lower-case form is longer / after an invalid byte, and
    #   the conversion defined by the specification for most identifiers
    v = cov.get(convfam)
    if v is not None:
        if not (v["longer_lower_before_upper"] >= 10 and v["invalid_byte_before_upper"] >= 10
                and 2 * v["snake_defined"] >= ctx.notes["pairs"][convfam]["identifiers"] and v["camel_defined"] >= 10):
            raise core.Infra("vacuous run: family %s lacks case-length letters / invalid bytes before an upper-case "
                             "letter or compared conversions: %s" % (convfam, v))
    elif not only:
        raise core.Infra("vacuous run: family %s was not generated" % convfam)


def run(ctx):
    ctx.assumptions += [
        "format, stringx and config are tested as a copy of the current sources in a scratch module (tools/god cannot "
        "be built offline); the generators' call sequence config.NewConfig(style) -> FileNamingFormat(cfg.NamingFormat, "
        "name) is reproduced by the driver, the generators themselves are not run",
        "through the configuration, no template (the empty string) means the default 'godesigner'; every other "
        "template, white space included, is the template",
        "title casing of a word = first character upper-case, rest lower-case; words never contain separators "
        "(identifier alphabet has none), so strings.Title's notion of word boundaries is not involved",
        "the round trip is promised only for identifiers made of [a-z]+ words joined by single underscores "
        "(and the empty identifier); besides, 'never fail' is read as: ToSnake gives the conventional conversion (cut "
        "before every upper-case letter, lower-case, join with '_') on strings without white space, ToCamel on strings "
        "whose parts are letters/digits beginning with a letter, a UTF-8 input never gives a non-UTF-8 result, an "
        "invalid byte may be kept or replaced by U+FFFD; elsewhere only 'does not panic, same value every time'",
        "templates in which 'go' or 'designer' occurs more than once before the designer word are not generated",
    ]
    binp, racebin = build_driver(ctx)
    ctx.exhaustive = True
    # every job = one TLC run (model checking / case generation) executed in the pool; what it returns is the
    # replay step on the copied sources, run here in the main thread as soon as its cases exist
    if ctx.quick:
        jobs = [("casing", lambda: one(ctx, binp, "casing", "casing", workers=4)),       # the three longest first
                ("sim", lambda: one(ctx, binp, "sim", "sim", simulate=200, depth=13)),
                ("ids4", lambda: one(ctx, binp, "ids4", "ids4")),
                ("cfg", lambda: one(ctx, binp, "cfg", "cfg")),
                ("conv4", lambda: one(ctx, binp, "conv4", "conv4")),
                ("tpl2", lambda: one(ctx, binp, "tpl2", "tpl2")),
                ("bound5", lambda: one(ctx, binp, "bound5", "bound5")),
                ("mc", lambda: mc(ctx, 3)),
                ("mccfg", lambda: mc(ctx, 2, via="config")),
                ("bytes3", lambda: one(ctx, binp, "bytes3", "bytes3")),
                ("unicode", lambda: one(ctx, binp, "unicode", "unicode")),
                ("collide", lambda: pairs(ctx, binp, "collide", 3)),
                ("space4", lambda: one(ctx, binp, "space4", "space4")),
                ("conc", lambda: concurrent(ctx, racebin, binp, "conc", "conc", simulate=40, depth=16))]
        family, cfgfam, convfam = "ids4", "cfg", "conv4"
    else:
        jobs = [("sim", lambda: one(ctx, binp, "sim", "sim", simulate=2500, depth=13)),   # one TLC worker: longest
                ("ids6", lambda: one(ctx, binp, "ids6", "ids6")),
                ("tpl3", lambda: one(ctx, binp, "tpl3", "tpl3")),
                ("bound6", lambda: one(ctx, binp, "bound6", "bound6")),
                ("ids5", lambda: one(ctx, binp, "ids5", "ids5")),
                ("bound8c", lambda: one(ctx, binp, "bound8c", "bound8c")),
                ("casing", lambda: one(ctx, binp, "casing", "casing", workers=4)),
                ("mc", lambda: mc(ctx, 4)),
                ("cfgw3", lambda: one(ctx, binp, "cfgw3", "cfgw3")),
                ("conv5", lambda: one(ctx, binp, "conv5", "conv5")),
                ("convw4", lambda: one(ctx, binp, "convw4", "convw4")),
                ("convsim", lambda: one(ctx, binp, "convsim", "convsim", simulate=1500, depth=13)),
                ("bytes5", lambda: one(ctx, binp, "bytes5", "bytes5")),
                ("mccfg", lambda: mc(ctx, 3, via="config")),
                ("space6", lambda: one(ctx, binp, "space6", "space6")),
                ("collide", lambda: pairs(ctx, binp, "collide", 4)),
                ("unicode", lambda: one(ctx, binp, "unicode", "unicode")),
                ("conc", lambda: concurrent(ctx, racebin, binp, "conc", "conc", goroutines=16, iters=10, simulate=150,
                                            depth=16))]
        family, cfgfam, convfam = "ids5", "cfgw3", "conv5"

    def produce(job):
        try:
            return job[0], job[1](), None
        except Exception as e:      # re-raised in the main thread
            return job[0], None, e

    first_err, last = None, []
    with ThreadPoolExecutor(POOL) as ex:
        for fut in as_completed([ex.submit(produce, j) for j in jobs]):
            name, step, err = fut.result()
            if err is not None:
                first_err = first_err or err
            elif name == "conc":
                last.append(step)      # the 16-goroutine stage runs alone, after the pool
            elif step is not None:
                try:
                    step()
                except core.Infra as e:
                    first_err = first_err or e
    for step in last:
        if step is not None and first_err is None:
            try:
                step()
            except core.Infra as e:
                first_err = e
    # (a harness problem of one stage must not turn disagreements observed in another one into exit 2)
    if first_err is not None:
        if not ctx.disagreements:
            raise first_err
        ctx.notes["harness_problem_besides_disagreement"] = str(first_err)[:600]
    if not ctx.disagreements:
        vacuity(ctx, family, cfgfam, convfam)


def replay(ctx, rp):
    plan = (rp.get("label") or "ids4").split("-")[0]
    if plan == "collide":
        binp, racebin = build_driver(ctx)
        path, _ = ctx.write_cases("replay.ndjson", [rp["case"]])
        ctx.replay(".", {}, "^TestVerifC20Pairs$", path, label="replay", binp=binp)
        return
    if plan not in PLANS:
        raise core.Infra("replay file names unknown plan %r" % plan)
    binp, racebin = build_driver(ctx)
    K = dict(PLANS[plan], MaxLen=0, EmitFrom=0)
    cfg = core.render_cfg(spec="Spec", constants=K, invariants=["Emit"])
    r = ctx.tlc("NamingGen", cfg, constants=K, name="header", workers=1)
    header = [p for p in r.printed if p.startswith('{"templates"')][0]
    if not rp.get("case"):
        raise core.Infra("this replay file carries no single case (data-race report): re-run `bin/check C20`")
    path, _ = ctx.write_cases("replay.ndjson", [header, rp["case"]])
    ctx.replay(".", {}, RUN, path, label="replay", binp=binp)
