"""C06 - cache-aside coherence of the cached SQL connection.
spec/CacheAside.tla (abstract), spec/CacheAsideGen.tla (behaviour generator) -> replay through
sqlc.CachedConn on miniredis with a hand-driven cleaner wheel; spec/CacheAsideTrace.tla validates
recorded traces of concurrent readers."""
import json, os
from vlib import core

PKG = "./lib/store/cache"
OVERLAY = {
    "lib/store/cache/zz_verif_c06_test.go": "c06/cacheaside_test.go",
    "lib/store/cache/zz_verif_c06_export_test.go": "c06/export_test.go",
    "lib/collection/zz_verif_c06_export.go": "c06/collection_export.go",
    "lib/threading/zz_verif_c06_export.go": "c06/threading_export.go",
}
RUN = "^TestVerifC06$"

META = dict(
    text="TLA+ model of the cache-aside protocol (database, Redis contents with expiry, reachability per node, "
         "pending removal retries on the delay ladder, dirty keys, expiry options as configured and in effect) "
         "model-checked for coherence, shielding, no-fall-through, TTL range, the retry ladder and its independence "
         "of the caller's context; TLC enumerates every history of "
         "QueryRow/QueryRowIndex/Exec(Ctx)/DelCache(Ctx)/SetCache/outage/time steps up to a bound (plus seeded simulation "
         "of long ones) with the predicted result, database-callback count, DEL commands per second and cache "
         "contents, and each history is executed through sqlc.CachedConn on miniredis (single node and "
         "consistent-hash cluster with every placement class) with the cleaner's timing wheel driven tick by tick. "
         "Histories include bursts of 2, 3 and 10 removals (different keys) failing within one second, whose retries "
         "fall due on one tick, and writes whose statement callback runs a complete read before the statement "
         "(the only overlap of a read with a write that needs no racing): the write's removal follows the "
         "statement, so the cache holds the truth once the write has returned.",
    note="A disagreement of a sequential history is reported only if it shows again on immediate re-execution "
         "(go-redis re-sends commands whose reply timed out). Trusted: TLC, miniredis as Redis, the driver's tick barrier (tasks fired by a tick wait in front of "
         "clean until the driver has read off the wheel's registry how many the tick collected; then that many "
         "have been taken over by clean, the cleaner's task runner is idle and the wheel has accepted a no-op; no timer "
         "of the driver's own is involved, so how the wheel scans a slot stays code under test). A panic raised by the "
         "code under test on the driver's goroutine is reported as a disagreement (C06:panic:<op>). "
         "Bounds: <= 2 ids, 2 index values, 2 payloads, 1-3 Redis nodes (placement classes split/mixed/three-way), "
         "cache node over Redis of type node and of type cluster (per-key removals failing individually), "
         "primary keys that are small integers, integers above 2^53 and strings (sequential histories and concurrent "
         "QueryRowIndex readers, decoded into `any`), "
         "writes through Exec/DelCache and through ExecCtx/DelCacheCtx with a context cancelled right after the call "
         "or with a deadline that passes before the first retry (plans ctx*, sim*), expiry / not-found expiry options "
         "not given, zero, negative and small positive in all 16 combinations (plans cfg*, sim*; 7 days / 1 minute "
         "are in effect for non-positive values), "
         "histories of 3-6 operations exhaustively (each <= 60 000 histories) + seeded simulated histories of 14-40 "
         "operations, <= 4 outages, ladder rungs up to 60 s exhaustively and up to 3600 s in the thorough simulation. "
         "bursts of up to 10 failed removals per second over 10 ids (plan burst; two-node cluster and ClusterType in "
         "the thorough tier), reads inside a write's statement callback placed before the statement only (plans inner*). "
         "Not covered: operations racing with outages or with writes (only sequential histories + concurrent readers of "
         "uncached keys between writes + a complete read inside a write's callback; reads still in flight when a write "
         "returns are not generated), a real multi-shard Redis Cluster (the ClusterType branch of node.DelCtx is driven "
         "through go-redis' ClusterClient against one miniredis that owns all slots), hit/miss statistics "
         "(stat.go), invalid JSON in the cache (processCache), a caller context that ends DURING a write (only after "
         "it returned), sub-second expiry options, TakeWithExpire callers "
         "other than QueryRowIndex. CacheAsideImpl (step-wise doTake model) of DESIGN.md was not built: the "
         "concurrent clause is decided by validating recorded traces of the real code against CacheAsideTrace.tla.",
    technique="TLA+ spec (CacheAside) + TLC-generated histories replayed on sqlc.CachedConn/miniredis; "
              "recorded concurrent-reader traces validated against CacheAsideTrace",
    design="4/C06")

FINISH = dict(rule="histories = complete TLC enumeration (BFS over the history variable) up to MaxOps operations "
                   "per plan (a burst of writes on different ids within one second and the cache-filling reads at the "
                   "start count as one operation each), each followed by heal + advance past every pending retry + audit reads, plus "
                   "seeded TLC simulation of longer histories; every step's result, callback counts, DEL "
                   "commands per second and cache contents are compared with the specification")

def q(s):
    return '"%s"' % s


def sset(xs):
    return "{" + ", ".join(q(x) for x in xs) + "}"


def place_text(ids, names, place):
    """place: dict key -> node"""
    keys = ["p:%d" % i for i in ids] + ["i:%s" % n for n in names]
    return "(" + " @@ ".join('%s :> %d' % (q(k), place[k]) for k in keys) + ")"


# expiry in effect when the option is not given or not positive (lib/store/cache/option.go: 7 days / 1 minute)
DEF_E, DEF_NF = 7 * 24 * 3600, 60
CTX_ALL = ["bg", "cancel", "deadline"]


def opt_text(v):
    """an expiry option: None = not given, else WithExpire(v seconds), v possibly zero or negative"""
    return "[set |-> FALSE, v |-> 0]" if v is None else "[set |-> TRUE, v |-> %d]" % v


def cfgs_text(cfgs):
    return "{%s}" % ", ".join("[e |-> %s, nf |-> %s]" % (opt_text(e), opt_text(nf)) for e, nf in cfgs)


def consts(ids, names, datas, nodes, place, ladder, jits, initdbs, adv, maxfail, e=40, nf=20, cfgs=None, ctxs=("bg",),
           pres=("none",)):
    return dict(Pres=sset(pres), Ids="{%s}" % ", ".join(map(str, ids)), Names=sset(names), Datas=sset(datas),
                Nodes="{%s}" % ", ".join(map(str, nodes)), Place=place_text(ids, names, place),
                Cfgs=cfgs_text(cfgs or [(e, nf)]), DefE=DEF_E, DefNF=DEF_NF, Ctxs=sset(ctxs),
                Gap=5, Ladder="<<%s>>" % ", ".join(map(str, ladder)), Jits=sset(jits),
                InitDBs=initdbs, Adv="{%s}" % ", ".join(map(str, adv)), MaxFail=maxfail)


DB_EMPTY = "[i \\in Ids |-> NoRow]"
DB_ONE = '[i \\in Ids |-> IF i = 1 THEN [name |-> "a", data |-> "x"] ELSE NoRow]'


def one_node(ids, names):
    return {k: 1 for k in ["p:%d" % i for i in ids] + ["i:%s" % n for n in names]}


def mc(ctx, ladder):
    # single node: 2 ids, 1 index value, 2 payloads, expiry reachable (E = NF = 20 s), 3 ladder rungs
    ids, names = [1, 2], ["a"]
    K = consts(ids, names, ["x", "y"], [1], one_node(ids, names), ladder[:3], ["hi"],
               "{%s}" % DB_EMPTY, [1, 5, 21], 2, e=20, nf=20)
    inv = ["TypeOK", "CacheTruth", "TTLRange", "CtxFree"]
    props = ["Coherent", "Shield", "NoFallThrough", "RetryLadder"]
    cfg = core.render_cfg(spec="Spec", constants=K, invariants=inv, properties=props, constraints=["Bound"], view="core")
    lvl = 6 if ctx.quick else 7
    ctx.tlc("CacheAside", cfg, constants=K, defs=dict(Bound='s.clk <= 32 /\\ TLCGet("level") <= %d' % lvl),
            name="CacheAside-mc1", timeout=900, workers=6, heap="4g")
    # two-node cluster, primary keys on node 1, index keys on node 2
    ids, names = [1], ["a", "b"]
    K = consts(ids, names, ["x", "y"], [1, 2], {"p:1": 1, "i:a": 2, "i:b": 2}, ladder[:3], ["lo"],
               "{%s}" % DB_ONE, [1, 5, 21], 2, e=20, nf=20)
    cfg = core.render_cfg(spec="Spec", constants=K, invariants=inv, properties=props, constraints=["Bound"], view="core")
    ctx.tlc("CacheAside", cfg, constants=K, defs=dict(Bound='s.clk <= 32 /\\ TLCGet("level") <= %d' % lvl),
            name="CacheAside-mc2", timeout=900, workers=6, heap="4g")
    # the caller's context of writes and the expiry configuration (given as a positive number of seconds, as zero,
    # as a negative number, not given: the defaults are in effect) on a small model: 1 id, 1 index value, 1 payload
    ids, names = [1], ["a"]
    K = consts(ids, names, ["x"], [1], one_node(ids, names), ladder[:3], ["hi"],
               "{%s, %s}" % (DB_EMPTY, DB_ONE), [1, 21], 2, cfgs=[(20, 20), (0, None), (None, -3), (-1, 3)], ctxs=CTX_ALL)
    cfg = core.render_cfg(spec="Spec", constants=K, invariants=inv, properties=props, constraints=["Bound"], view="core")
    ctx.tlc("CacheAside", cfg, constants=K, defs=dict(Bound='s.clk <= 32 /\\ TLCGet("level") <= %d' % (lvl - 1)),
            name="CacheAside-mc3", timeout=900, workers=6, heap="4g")
    # writes that carry a read inside their statement callback (before the statement): every read of one id /
    # two index values, with outages; the cache must hold the truth after the write whatever the read stored
    ids, names = [1], ["a", "b"]
    K = consts(ids, names, ["x", "y"], [1], one_node(ids, names), ladder[:3], ["mid"],
               "{%s, %s}" % (DB_EMPTY, DB_ONE), [1, 21], 2, e=20, nf=20, pres=("none", "qrow", "qindex"))
    cfg = core.render_cfg(spec="Spec", constants=K, invariants=inv, properties=props, constraints=["Bound"], view="core")
    ctx.tlc("CacheAside", cfg, constants=K, defs=dict(Bound='s.clk <= 32 /\\ TLCGet("level") <= %d' % (lvl - 1)),
            name="CacheAside-mc4", timeout=900, workers=6, heap="4g")


def gen(ctx, name, K, *, maxops, ops, maxdown=1, tail=6, audit_ids=None, audit_names=None, simulate=None, depth=None,
        read_ids=None, read_names=None, bursts=(), burst_kinds=("put", "delcache")):
    G = dict(K)
    ids = [int(x) for x in K["Ids"].strip("{}").split(",")]
    names = [x.strip().strip('"') for x in K["Names"].strip("{}").split(",")]
    G.update(MaxOps=maxops, Ops=sset(ops), MaxDown=maxdown, TailTicks=tail,
             ReadIds="{%s}" % ", ".join(map(str, read_ids if read_ids is not None else ids)),
             ReadNames=sset(read_names if read_names is not None else names),
             Bursts="{%s}" % ", ".join("{%s}" % ", ".join(map(str, b)) for b in bursts), BurstKinds=sset(burst_kinds),
             AuditIds="<<%s>>" % ", ".join(map(str, audit_ids if audit_ids is not None else ids)),
             AuditNames="<<%s>>" % ", ".join(q(n) for n in (audit_names if audit_names is not None else names)))
    cfg = core.render_cfg(spec="GSpec", constants=G, invariants=["Emit"])
    r = ctx.tlc("CacheAsideGen", cfg, constants=G, name=name, simulate=simulate, depth=depth, timeout=1500,
                workers=(1 if simulate else 6), heap="3g")
    return r.printed


# expiry option x not-found expiry option: not given, zero, negative, small positive
CFG_ALL = [(e, nf) for e in (None, 0, -1, 7) for nf in (None, 0, -60, 3)]
CFG_SIM = [(30, 10), (0, 10), (30, -1), (None, None)]
READS = ["qrow", "qindex"]
WRITES = ["put", "delete"]


def drv_cfg(K, nodes, place, ids, names, rtype="node", pk="small"):
    # (the expiry configuration is part of every history: its init record)
    return json.dumps(dict(nodes=nodes, place=place, ids=ids, names=names, rtype=rtype, pk=pk))


def get_ladder(ctx, binp):
    """ask the code for its retry ladder (seconds); the statement only promises increasing delays"""
    import subprocess
    outp = os.path.join(ctx.build, "ladder.json")
    e = dict(os.environ)
    e.update(core.GOENV)
    e["VERIF_OUT"] = outp
    p = subprocess.run([binp, "-test.run", "^TestVerifC06Ladder$", "-test.count=1"], env=e, capture_output=True,
                       text=True, timeout=120, cwd=os.path.join(core.REPO, "lib/store/cache"))
    if p.returncode != 0 or not os.path.exists(outp):
        raise core.Infra("ladder probe failed: %s" % (p.stdout + p.stderr)[-2000:])
    return json.load(open(outp))


class Plan:
    def __init__(self, name, ids, names, datas, nodes, place, jits, initdbs, adv, maxfail, maxops, ops, maxdown=1,
                 tail=6, fault="error", simulate=None, depth=None, shards=6, e=40, nf=20, rtype="node", pk="small",
                 cfgs=None, ctxs=("bg",), pres=("none",), bursts=(), burst_kinds=("put", "delcache"), read_ids=None,
                 read_names=None, audit_names=None):
        self.__dict__.update(locals())


def gen_plan(ctx, ladder, p):
    """TLC: the histories of plan p (runs ahead of the replay of the previous plan)"""
    K = consts(p.ids, p.names, p.datas, list(range(1, p.nodes + 1)), p.place, ladder, p.jits, p.initdbs, p.adv, p.maxfail,
               e=p.e, nf=p.nf, cfgs=p.cfgs, ctxs=p.ctxs, pres=p.pres)
    cases = gen(ctx, p.name, K, maxops=p.maxops, ops=p.ops, maxdown=p.maxdown, tail=p.tail, simulate=p.simulate,
                depth=p.depth, read_ids=p.read_ids, read_names=p.read_names, bursts=p.bursts, burst_kinds=p.burst_kinds,
                audit_names=p.audit_names)
    if not cases:
        raise core.Infra("plan %s generated no behaviour" % p.name)
    path, n = ctx.write_cases(p.name + ".ndjson", cases)
    return K, path, n, core.sample_of(cases, 1)


def replay_plan(ctx, binp, p, K, path, n, sample):
    ctx.samples += sample
    env = dict(VERIF_C06_CFG=drv_cfg(K, p.nodes, p.place, p.ids, p.names, p.rtype, p.pk), VERIF_C06_FAULT=p.fault)
    ctx.notes.setdefault("plans", {})[p.name] = dict(cases=n, maxops=p.maxops, ops=p.ops, nodes=p.nodes, fault=p.fault,
                                                     adv=p.adv, tail=p.tail, simulate=p.simulate)
    return ctx.replay(PKG, OVERLAY, RUN, path, label=p.name, env=env, shards=p.shards, binp=binp, timeout=1500)


def plans_for(ctx):
    """generation plans; every exhaustive plan stays below ~60 000 histories (memory of TLC output and driver)"""
    q = ctx.quick
    ALL = READS + WRITES + ["delcache", "setcache", "adv", "down", "up"]
    CLU = READS + WRITES + ["adv", "down", "up"]
    i2, i1, n2, n1 = [1, 2], [1], ["a", "b"], ["a"]
    d = ["x", "y"]
    one2, one1, one12 = one_node(i2, n2), one_node(i1, n1), one_node(i1, n2)
    split = {"p:1": 1, "i:a": 2, "i:b": 2}          # primary keys and index keys on different nodes
    mixed = {"p:1": 1, "i:a": 1, "i:b": 2}          # the two index keys on different nodes
    three = {"p:1": 1, "i:a": 2, "i:b": 3}
    split2 = {"p:1": 1, "p:2": 2, "i:a": 2, "i:b": 1}
    dbs = "{%s}" % DB_ONE
    dbs2 = "{%s, %s}" % (DB_EMPTY, DB_ONE)
    P = []
    # coherence / shielding / TTLs (30 s and 10 s: +-5 % is fractional, so rounding up is visible) / expiry
    P.append(Plan("coh", i2, n2, d, 1, one2, ["hi"], dbs, [1, 11], 0, 4, READS + WRITES + ["adv"], maxdown=0, e=30, nf=10))
    P.append(Plan("coh-set", i1, n1, d, 1, one1, ["mid"], dbs2, [5, 20], 0, 4,
                  READS + WRITES + ["delcache", "setcache", "adv"], maxdown=0))
    # outages on one node: failed removals, retries, dirty reads
    P.append(Plan("out", i1, n1, d, 1, one1, ["lo"], dbs, [1, 5], 3, 5 if q else 6,
                  READS + ["put", "adv", "down", "up"], maxdown=2, e=30, nf=10))
    # consistent-hash cluster, every placement class of {p:1, i:a, i:b} over 2 nodes, per-node outages
    P.append(Plan("clu-split", i1, n2, d, 2, split, ["hi"], dbs, [1], 3, 4, CLU, maxdown=2))
    P.append(Plan("clu-mixed", i1, n2, d, 2, mixed, ["mid"], dbs, [5], 3, 4, CLU, maxdown=2))
    # Redis of ClusterType under one cache node: a multi-key removal is one DEL per key, each may fail on its own
    # (the model's nodes are virtual here: a command fails when it names a key placed on a node that is down)
    vsplit = {"p:1": 1, "i:a": 2, "i:b": 2}
    vmixed = {"p:1": 2, "i:a": 1, "i:b": 2}
    P.append(Plan("rclu", i1, n2, d, 2, vsplit, ["mid"], dbs, [1], 3, 4, READS + ["put", "down", "up"], maxdown=2,
                  rtype="cluster"))
    P.append(Plan("rclu-one", i1, n2, d, 1, one12, ["hi"], dbs, [1, 5], 3, 4, READS + WRITES + ["adv", "down", "up"],
                  maxdown=1, rtype="cluster", e=30, nf=10))
    # primary keys that are integers above 2^53 / strings (decoded into `any` on the index path)
    P.append(Plan("pk-big", i2, n2, d, 1, one2, ["hi"], dbs, [1], 1, 3 if q else 4, READS + WRITES + ["down", "up"],
                  maxdown=1, pk="big", e=30, nf=10))
    P.append(Plan("pk-str", i1, n2, d, 2, split, ["mid"], dbs, [1], 1, 3 if q else 4, READS + WRITES + ["down", "up"],
                  maxdown=1, pk="str"))
    # the retry ladder over virtual time (rungs 1 s, 5 s, 60 s; tail long enough to see a repeat)
    P.append(Plan("ladder", i1, n1, d, 1, one1, ["mid"], dbs, [1, 5, 60], 3, 5 if q else 6, ["put", "down", "up", "adv"],
                  maxdown=2, tail=61))
    # real "down, then back": the server is closed and restarted
    P.append(Plan("close", i1, n1, d, 1, one1, ["hi"], dbs, [1, 5], 2, 3 if q else 4, ["qrow", "put", "adv", "down", "up"],
                  maxdown=1, fault="close", shards=4, e=30, nf=10))
    # the caller's context of the writes: Exec/DelCache (background), ExecCtx/DelCacheCtx with a context that is
    # cancelled right after the call has returned / whose deadline passes before the first retry; the removals
    # that failed during the call must climb the same ladder
    P.append(Plan("ctx", i1, n1, d, 1, one1, ["mid"], dbs, [1, 5], 3, 3 if q else 4, ["put", "delcache", "adv", "down", "up"],
                  maxdown=2, e=30, nf=10, ctxs=CTX_ALL))
    # how the expiry options are configured: not given, zero, negative (the defaults are in effect), small positive
    P.append(Plan("cfg", i1, n1, d, 1, one1, ["lo", "hi"], dbs if q else dbs2, [1, 8], 0, 3 if q else 4,
                  READS + WRITES + ["adv"], maxdown=0, cfgs=CFG_ALL))
    # several removals failing within ONE second (writes / DelCache calls on different keys while the node is down):
    # their retries fall due on the same tick of the cleaner's wheel; 2, 3 and 10 at once, overlapping sets
    # (a second burst before the first retry adds to the same tick), then recovery and hand-driven ticks
    i10, n10 = list(range(1, 11)), list("abcdefghij")
    db10 = '{[i \\in Ids |-> [name |-> <<%s>>[i], data |-> "x"]]}' % ", ".join('"%s"' % n for n in n10)
    P.append(Plan("burst", i10, n10, d, 1, one_node(i10, n10), ["mid"], db10, [1, 5], 24, 4 if q else 5,
                  ["warm", "burst", "adv", "down", "up", "qrow"], maxdown=1, e=30, nf=10, shards=6,
                  bursts=[[1, 2], [2, 3, 4], i10], read_ids=[2], audit_names=["b", "j"]))
    # a complete read (miss -> database -> cache -> return) INSIDE the statement callback of a write, before the
    # statement: the row it stores is the one the write replaces; the write's removal follows the statement
    P.append(Plan("inner", i1, n2, d, 1, one12, ["hi"], dbs, [1], 0, 3, READS + WRITES, maxdown=0,
                  e=30, nf=10, pres=("qrow", "qindex")))
    P.append(Plan("inner-out", i1, n1, d, 1, one1, ["lo"], dbs, [1], 3, 4, ["qrow", "put", "delete", "down", "up"], maxdown=1,
                  pres=("none", "qrow", "qindex"), ctxs=("bg",) if q else ("bg", "cancel")))
    # long random histories
    P.append(Plan("sim", i2, n2, d, 1, one2, ["lo", "mid", "hi"], dbs2, [1, 5, 10, 11, 60], 6, 14 if q else 40, ALL,
                  maxdown=4, simulate=300 if q else 3000, depth=60, tail=61, cfgs=CFG_SIM, ctxs=CTX_ALL))
    if not q:
        # bursts over a two-node cluster (tasks of both nodes in one tick) and over Redis of ClusterType (one task per key)
        i4, n4 = [1, 2, 3, 4], list("abcd")
        db4 = '{[i \\in Ids |-> [name |-> <<"a", "b", "c", "d">>[i], data |-> "x"]]}'
        pl4 = {"p:1": 1, "p:2": 2, "p:3": 1, "p:4": 2, "i:a": 2, "i:b": 1, "i:c": 1, "i:d": 2}
        P.append(Plan("burst-clu", i4, n4, d, 2, pl4, ["hi"], db4, [1, 5], 24, 5, ["warm", "burst", "adv", "down", "up"],
                      maxdown=2, bursts=[[1, 2], [2, 3, 4], i4], audit_names=["a", "d"]))
        P.append(Plan("burst-rclu", i4, n4, d, 2, pl4, ["lo"], db4, [1], 24, 4, ["warm", "burst", "adv", "down", "up"],
                      maxdown=2, bursts=[[1, 2], i4], audit_names=["b"], rtype="cluster", e=30, nf=10))
        # reads inside the statement callback: two ids (the read may concern the other row), cluster placements
        P.append(Plan("inner2", i2, n2, d, 1, one2, ["mid"], dbs2, [1], 0, 3, READS + WRITES, maxdown=0,
                      pres=("qrow", "qindex")))
        P.append(Plan("inner-clu", i1, n2, d, 2, split, ["lo"], dbs, [1], 3, 4, ["qindex", "put", "down", "up"], maxdown=1,
                      pres=("qrow", "qindex"), e=30, nf=10))
        P.append(Plan("sim-inner", i2, n2, d, 1, one2, ["lo", "hi"], dbs2, [1, 5, 11], 6, 30, ALL, maxdown=3, simulate=800,
                      depth=50, tail=61, cfgs=CFG_SIM, pres=("none", "qrow", "qindex")))
        P.append(Plan("coh-lo", i2, n2, d, 1, one2, ["lo"], dbs2, [1, 10], 0, 4, READS + WRITES + ["adv"], maxdown=0, e=30, nf=10))
        P.append(Plan("coh-mid", i2, n2, d, 1, one2, ["mid"], dbs, [20, 45], 0, 4, READS + WRITES + ["adv"], maxdown=0))
        P.append(Plan("coh5", i1, n2, d, 1, one12, ["hi"], dbs, [1, 11], 0, 5, READS + WRITES + ["adv"], maxdown=0, e=30, nf=10))
        P.append(Plan("coh-set5", i1, n1, d, 1, one1, ["lo"], dbs2, [19], 0, 5,
                      READS + WRITES + ["delcache", "setcache", "adv"], maxdown=0))
        P.append(Plan("clu-split5", i1, n2, d, 2, split, ["lo"], dbs, [1], 3, 5, READS + ["put", "down", "up"], maxdown=2))
        P.append(Plan("clu-mixed5", i1, n2, d, 2, mixed, ["hi"], dbs, [1], 3, 5, READS + ["put", "down", "up"], maxdown=2))
        P.append(Plan("rclu-mixed5", i1, n2, d, 2, vmixed, ["lo"], dbs, [1], 3, 5, READS + ["put", "down", "up"], maxdown=2,
                      rtype="cluster"))
        P.append(Plan("rclu-del", i1, n2, d, 2, vmixed, ["hi"], dbs, [5], 3, 4, CLU + ["delcache"], maxdown=2,
                      rtype="cluster"))
        P.append(Plan("clu-three", i1, n2, d, 3, three, ["lo"], dbs, [1, 5], 3, 4, CLU, maxdown=2, e=30, nf=10))
        P.append(Plan("clu-2ids", i2, n2, d, 2, split2, ["hi"], dbs, [1, 5], 2, 3, CLU, maxdown=1))
        P.append(Plan("sim-clu", i2, n2, d, 2, split2, ["lo", "mid", "hi"], dbs2, [1, 5, 20, 60], 6, 30, ALL,
                      maxdown=4, simulate=2000, depth=60, tail=61, cfgs=[(40, 20), (-40, 20), (40, 0)], ctxs=CTX_ALL))
        # caller contexts / expiry configurations on the cluster paths (consistent-hash cluster, Redis of ClusterType)
        P.append(Plan("ctx-clu", i1, n2, d, 2, split, ["hi"], dbs, [1, 5], 3, 4, ["put", "adv", "down", "up"], maxdown=2,
                      ctxs=CTX_ALL))
        P.append(Plan("ctx-rclu", i1, n2, d, 2, vmixed, ["lo"], dbs, [1], 3, 4, ["put", "delete", "down", "up"], maxdown=2,
                      rtype="cluster", ctxs=CTX_ALL))
        P.append(Plan("cfg-clu", i1, n2, d, 2, split, ["mid"], dbs, [1, 8], 0, 3, READS + WRITES + ["adv"], maxdown=0,
                      cfgs=CFG_ALL))
        P.append(Plan("cfg-rclu", i1, n1, d, 1, one1, ["hi"], dbs, [8], 0, 3, READS + WRITES + ["adv"], maxdown=0,
                      rtype="cluster", cfgs=CFG_ALL))
        # the whole ladder up to the last rung (thousands of virtual seconds per history)
        P.append(Plan("sim-ladder", i1, n1, d, 1, one1, ["mid"], dbs, [1, 5, 60, 300, 3600], 6, 9,
                      ["put", "down", "up", "adv", "qrow"], maxdown=3, simulate=150, depth=30, tail=3601))
    return P


def run_driver(ctx, binp, run, env, timeout=600, gomaxprocs=None):
    import subprocess
    e = dict(os.environ)
    e.update(core.GOENV)
    e.update(VERIF_SEED=str(ctx.seed), VERIF_TIER=ctx.tier)
    e.update({k: str(v) for k, v in env.items()})
    if gomaxprocs:
        e["GOMAXPROCS"] = str(gomaxprocs)
    try:
        p = subprocess.run([binp, "-test.run", run, "-test.count=1", "-test.timeout", "%ds" % timeout], env=e,
                           capture_output=True, text=True, timeout=timeout + 30,
                           cwd=os.path.join(core.REPO, "lib/store/cache"))
    except subprocess.TimeoutExpired:
        raise core.Infra("driver %s timed out" % run)
    return p.returncode, p.stdout + p.stderr


ALLK = ["p:1", "p:2", "i:s", "q:s", "i:b", "q:b", "i:t", "q:t"]


def concurrent(ctx, binp):
    """record traces of concurrent readers on the real code and validate them with TLC"""
    import re
    race = not ctx.quick
    if race:
        binp = ctx.go_build(PKG, OVERLAY, race=True, name="c06race")
    rounds, readers = (30, 12) if ctx.quick else (120, 12)
    for gmp in ([None] if ctx.quick else [2, 4, 16]):
        name = "conc%s" % (gmp or "")
        path = os.path.join(ctx.build, name + ".ndjson")
        rc, out = run_driver(ctx, binp, "^TestVerifC06Concurrent$",
                             dict(VERIF_OUT=path, VERIF_C06_ROUNDS=rounds, VERIF_C06_READERS=readers, VERIF_C06_E=30,
                                  VERIF_C06_NF=10), gomaxprocs=gmp)
        ctx.go_runs.append(dict(name=name, run="TestVerifC06Concurrent", rc=rc, race=race, gomaxprocs=gmp))
        if rc != 0:
            if "DATA RACE" in out and re.search(r"lib/(store/cache|store/sqlc|syncx)/[a-z]+\.go", out):
                ctx.disagree("C06:concurrent:data-race", out[-3000:], source="trace")
                continue
            raise core.Infra("concurrent driver failed rc=%s\n%s" % (rc, out[-3000:]))
        lines = open(path).read().splitlines()
        evs = [json.loads(x) for x in lines]
        infra = [x for x in evs if x.get("e") == "infra"]
        if infra or not evs:
            raise core.Infra("concurrent driver: %s" % (infra[:2] or "empty trace"))
        K = dict(TKeys='{"p:1", "p:2", "i:s", "q:s", "i:b", "q:b", "i:t", "q:t"}',
                 Pairs='{<<"i:s", "q:s">>, <<"i:b", "q:b">>, <<"i:t", "q:t">>}',
                 Readers="1..%d" % (5 * readers), TE=30, TNF=10)
        cfg = core.render_cfg(spec="TSpec", constants=K, invariants=["AtMostOneInFlight"], check_deadlock=True)
        r = ctx.tlc("CacheAsideTrace", cfg, constants=K, files={"c06trace.ndjson": path}, name=name, workers=1,
                    allow_violation=True, want_json=False, timeout=900, heap="3g")
        ndb = sum(1 for x in evs if x["e"] == "dbb")
        nret = sum(1 for x in evs if x["e"] == "ret")
        ctx.counters[name + ".events"] = len(evs)
        ctx.counters[name + ".db_queries"] = ndb
        ctx.counters[name + ".reads"] = nret
        if r.violated:
            outp = open(os.path.join(ctx.build, "tlc-" + name, "tlc.out"), errors="replace").read()
            ls = re.findall(r"^/\\ l = (\d+)", outp, re.M)
            at = int(ls[-1]) if ls else 0
            # the last state printed is the one reached after event at-1 (invariant) / stuck before event at (deadlock)
            idx = at - 1 if r.violated == "Deadlock" else at - 2
            idx = max(0, min(idx, len(evs) - 1))
            ev = evs[idx]
            if r.violated == "AtMostOneInFlight":
                key = "C06:concurrent:two-db-queries-in-flight"
            else:
                key = {"ret": "C06:concurrent:wrong-result", "dbb": "C06:concurrent:db-reached-again",
                       "keys": "C06:concurrent:unexpected-cache-content",
                       "ttl": "C06:concurrent:ttl-out-of-range"}.get(ev.get("e"), "C06:concurrent:trace-rejected")
                if ev.get("e") in ("dbb", "dbe", "ttl") and ev.get("k") not in ALLK:
                    key = "C06:concurrent:query-or-entry-for-unknown-key"
            lo = max(0, idx - 60)
            ctx.disagree(key, "trace %s (%d events) %s at event %d: %s" % (name, len(evs), r.violated, idx + 1, json.dumps(ev)),
                         case=json.dumps(evs[lo:idx + 1]), step=idx + 1, source="trace")
        else:
            if r.distinct < len(evs):
                raise core.Infra("trace validation explored %d states for %d events" % (r.distinct, len(evs)))
            ctx.traces += rounds
    if ndb >= nret:
        raise core.Infra("concurrent driver: single-flight never shared a query (%d queries, %d reads)" % (ndb, nret))


def run(ctx):
    try:
        run_all(ctx)
    except core.Infra as e:
        # a harness problem never masks a disagreement that was already observed (and confirmed by re-execution) on the code
        if not ctx.disagreements:
            raise
        ctx.notes["harness_problem_after_disagreement"] = str(e)[:2000]


def run_all(ctx):
    binp = ctx.go_build(PKG, OVERLAY, name="c06drv")
    ladder = get_ladder(ctx, binp)
    ctx.notes["ladder_from_code_s"] = ladder
    if len(ladder) < 2 or any(a >= b for a, b in zip(ladder, ladder[1:])):
        ctx.disagree("C06:ladder-not-increasing", "retry delays %s are not increasing" % ladder, source="ladder")
        return
    only = os.environ.get("C06_ONLY")
    only = only.split(",") if only else None
    ctx.exhaustive = True
    # the model checking of CacheAside runs beside the replays (its outcome is collected at the end); the
    # histories of the next plan are generated while those of the current one are executed
    from concurrent.futures import ThreadPoolExecutor
    plans = [p for p in plans_for(ctx) if not only or p.name in only]
    with ThreadPoolExecutor(max_workers=1) as mcx, ThreadPoolExecutor(max_workers=1) as ex:
        mcf = mcx.submit(mc, ctx, ladder) if (not only or "mc" in only) else None
        futs = [ex.submit(gen_plan, ctx, ladder, p) for p in plans]
        try:
            for p, f in zip(plans, futs):
                replay_plan(ctx, binp, p, *f.result())
            if not only or "conc" in only:
                concurrent(ctx, binp)
        finally:
            for f in futs:
                f.cancel()
        if mcf is not None:
            mcf.result()
    unconf = sum(v for k, v in ctx.counters.items() if k.endswith(".unconfirmed_disagreement"))
    if unconf:
        ctx.notes["unconfirmed_disagreements"] = unconf   # did not show again on immediate re-execution (transport noise)
        if unconf > 20 and not ctx.disagreements:
            raise core.Infra("%d disagreements did not reproduce on re-execution: the environment is too noisy" % unconf)
    if not only and not ctx.disagreements:
        vacuity(ctx)
    ctx.assumptions += [
        "miniredis v2 stands for Redis (GET/SET EX/DEL, TTLs moved with FastForward); one model second = one tick of "
        "the cleaner's timing wheel = one second of Redis expiry",
        "the retry ladder %s s is read from the code (first delay of AddCleanTask = 1 s, then nextDelay); the "
        "statement's 'increasing delays' is checked on it, the exact seconds are then used as given" % ladder,
        "the primary-key entry written by an index read carries the 5 s safety gap on top of the jittered expiry "
        "(cachedsql.go cacheSafeGapBetweenIndexAndPrimary); the +-5 %% clause is applied before the gap",
        "jitter is pinned to -5 %, 0, +5 % (mathx.SetVerifUnstable) in replays and left random in the concurrent "
        "traces; the per-address breaker inside redis.Redis is kept from rejecting (mathx.SetVerifCoin): its "
        "behaviour is C01/C12",
        "writes always name the affected keys (primary key, index key of the old and of the new name), as the "
        "statement presupposes; reads that consult a key whose removal failed and has not succeeded since are "
        "accepted with either the cached or the current row",
        "expiry options that are not given or not positive mean the documented defaults (%d s for rows, %d s for "
        "not-found placeholders: lib/store/cache/option.go); the +-5 %% clause is applied to the expiry in effect" % (DEF_E, DEF_NF),
        "a context whose deadline passes 'before the first retry' is a hand-made context.Context: virtual seconds have "
        "no wall-clock counterpart, so its Deadline() is an instant far ahead (never shortens a socket deadline) and the "
        "driver lets it expire (Done closed, Err = DeadlineExceeded) between the return of the call and the next tick",
        "outages are injected as error replies of the Redis node (bulk) and by closing/restarting the server "
        "(plan 'close'); they change only between operations, not inside one",
        "the model database changes at the statement of a write's callback (no separate commit); a read placed inside "
        "the callback before the statement sees the old row and is judged against it, reads after the write has "
        "returned against the new one",
        "operations of one burst happen within the same model second: no tick of the cleaner's wheel is issued between them",
    ]


def vacuity(ctx):
    """every feature the verdict talks about must have been exercised"""
    c = ctx.counters
    need = {"coh.read_shielded": 1, "coh.read_nf": 1, "coh.read_row": 1, "out.retry_del_seconds": 1, "out.read_loose": 1,
            "out.read_cacheerr": 1, "clu-split.read_cacheerr": 1, "clu-split.retry_del_seconds": 1,
            "clu-mixed.retry_del_seconds": 1, "rclu.retry_del_seconds": 1, "rclu.read_cacheerr": 1,
            "rclu-one.retry_del_seconds": 1, "ladder.retry_del_seconds": 1, "close.retry_del_seconds": 1,
            "coh-set.op_setcache": 1, "coh-set.op_delcache": 1, "sim.retry_del_seconds": 1,
            # removals that failed under a context which has ended by the time of the retry, and their retries
            "ctx.failed_removal_cx_cancel": 1, "ctx.failed_removal_cx_deadline": 1, "ctx.failed_removal_cx_bg": 1,
            "ctx.retry_del_after_ctx_end": 1, "ctx.op_delcache": 1, "ctx.op_put": 1,
            # every class of expiry configuration, with entries and placeholders stored under it
            "cfg.cfg_e_unset": 1, "cfg.cfg_e_zero": 1, "cfg.cfg_e_negative": 1, "cfg.cfg_e_positive": 1,
            "cfg.cfg_nf_unset": 1, "cfg.cfg_nf_zero": 1, "cfg.cfg_nf_negative": 1, "cfg.cfg_nf_positive": 1,
            "cfg.stored_default_expiry": 1, "cfg.stored_default_nf_expiry": 1, "cfg.read_row": 1, "cfg.read_nf": 1,
            # seconds in which 2 / 3 / 10 and more failed removals were retried together
            "burst.retry_fires_ge2": 1, "burst.retry_fires_ge3": 1, "burst.retry_fires_ge10": 1, "burst.read_row": 1,
            # writes whose statement callback ran a complete read first; such reads that reached the database
            "inner.write_with_inner_qrow": 1, "inner.write_with_inner_qindex": 1, "inner.inner_read_db": 1,
            "inner-out.inner_read_db": 1, "inner-out.failed_removal_cx_bg": 1}
    missing = [k for k, v in need.items() if c.get(k, 0) < v]
    if missing:
        raise core.Infra("vacuous run: counters %s are zero" % missing)
    if c.get("close.cases", 0) - c.get("close.abandoned_restart", 0) < 1:
        raise core.Infra("no history with a closed/restarted server could be completed")


def replay(ctx, rp):
    """re-execute exactly one reported history (or re-record the concurrent traces)"""
    ctx.tier = rp.get("tier", ctx.tier)
    ctx.seed = rp.get("seed", ctx.seed)
    binp = ctx.go_build(PKG, OVERLAY, name="c06drv")
    if rp.get("source") == "trace" or not rp.get("case"):
        concurrent(ctx, binp)
        return
    plan = [p for p in plans_for(ctx) if p.name == rp.get("label")]
    if not plan:
        raise core.Infra("replay file names unknown plan %r" % rp.get("label"))
    p = plan[0]
    ladder = get_ladder(ctx, binp)
    K = consts(p.ids, p.names, p.datas, list(range(1, p.nodes + 1)), p.place, ladder, p.jits, p.initdbs, p.adv, p.maxfail,
               e=p.e, nf=p.nf, cfgs=p.cfgs, ctxs=p.ctxs, pres=p.pres)
    path, _ = ctx.write_cases("replay.ndjson", [rp["case"]])
    env = dict(VERIF_C06_CFG=drv_cfg(K, p.nodes, p.place, p.ids, p.names, p.rtype, p.pk), VERIF_C06_FAULT=p.fault)
    ctx.replay(PKG, OVERLAY, RUN, path, label=p.name, env=env, shards=1, binp=binp)
