"""C06 - cache-aside coherence of the cached SQL connection.
spec/CacheAside.tla (abstract), spec/CacheAsideGen.tla (behaviour generator) -> replay through
sqlc.CachedConn on miniredis with a hand-driven cleaner wheel; spec/CacheAsideTrace.tla validates
recorded traces of concurrent readers."""
import json, os
from vlib import core

PKG = "./lib/store/cache"
OVERLAY = {
    "lib/store/cache/zz_verif_c06_test.go": "c06/cacheaside_test.go",
    "lib/store/cache/zz_verif_c06_export_test.go": "c06/export_test.go",
    "lib/collection/zz_verif_c06_export.go": "c06/collection_export.go",
    "lib/threading/zz_verif_c06_export.go": "c06/threading_export.go",
}
RUN = "^TestVerifC06$"

META = dict(
    text="TLA+ model of the cache-aside protocol (database, Redis contents with expiry, reachability per node, "
         "pending removal retries on the delay ladder, dirty keys) model-checked for coherence, shielding, "
         "no-fall-through, TTL range and the retry ladder; TLC enumerates every history of "
         "QueryRow/QueryRowIndex/Exec/DelCache/SetCache/outage/time steps up to a bound (plus seeded simulation "
         "of long ones) with the predicted result, database-callback count, DEL commands per second and cache "
         "contents, and each history is executed through sqlc.CachedConn on miniredis (single node and "
         "consistent-hash cluster with every placement class) with the cleaner's timing wheel driven tick by tick.",
    note="",
    technique="TLA+ spec (CacheAside) + TLC-generated histories replayed on sqlc.CachedConn/miniredis; "
              "recorded concurrent-reader traces validated against CacheAsideTrace",
    design="4/C06")

FINISH = dict(rule="histories = complete TLC enumeration (BFS over the history variable) up to MaxOps operations "
                   "per plan, each followed by heal + advance past every pending retry + audit reads, plus "
                   "seeded TLC simulation of longer histories; every step's result, callback counts, DEL "
                   "commands per second and cache contents are compared with the specification")

LADDER_DEFAULT = [1, 5, 60, 300, 3600]


def q(s):
    return '"%s"' % s


def sset(xs):
    return "{" + ", ".join(q(x) for x in xs) + "}"


def place_text(ids, names, place):
    """place: dict key -> node"""
    keys = ["p:%d" % i for i in ids] + ["i:%s" % n for n in names]
    return "(" + " @@ ".join('%s :> %d' % (q(k), place[k]) for k in keys) + ")"


def consts(ids, names, datas, nodes, place, ladder, jits, initdbs, adv, maxfail, e=40, nf=20):
    return dict(Ids="{%s}" % ", ".join(map(str, ids)), Names=sset(names), Datas=sset(datas),
                Nodes="{%s}" % ", ".join(map(str, nodes)), Place=place_text(ids, names, place),
                E=e, NF=nf, Gap=5, Ladder="<<%s>>" % ", ".join(map(str, ladder)), Jits=sset(jits),
                InitDBs=initdbs, Adv="{%s}" % ", ".join(map(str, adv)), MaxFail=maxfail)


DB_EMPTY = "[i \\in Ids |-> NoRow]"
DB_ONE = '[i \\in Ids |-> IF i = 1 THEN [name |-> "a", data |-> "x"] ELSE NoRow]'


def one_node(ids, names):
    return {k: 1 for k in ["p:%d" % i for i in ids] + ["i:%s" % n for n in names]}


def mc(ctx, ladder):
    # single node: 2 ids, 1 index value, 2 payloads, expiry reachable (E = NF = 20 s), 3 ladder rungs
    ids, names = [1, 2], ["a"]
    K = consts(ids, names, ["x", "y"], [1], one_node(ids, names), ladder[:3], ["hi"],
               "{%s}" % DB_EMPTY, [1, 5, 21], 2, e=20, nf=20)
    inv = ["TypeOK", "CacheTruth", "TTLRange"]
    props = ["Coherent", "Shield", "NoFallThrough", "RetryLadder"]
    cfg = core.render_cfg(spec="Spec", constants=K, invariants=inv, properties=props, constraints=["Bound"], view="core")
    lvl = 7 if ctx.quick else 8
    ctx.tlc("CacheAside", cfg, constants=K, defs=dict(Bound='s.clk <= 32 /\\ TLCGet("level") <= %d' % lvl),
            name="CacheAside-mc1", timeout=900, workers=6, heap="6g")
    # two-node cluster, primary keys on node 1, index keys on node 2
    ids, names = [1], ["a", "b"]
    K = consts(ids, names, ["x", "y"], [1, 2], {"p:1": 1, "i:a": 2, "i:b": 2}, ladder[:3], ["lo"],
               "{%s}" % DB_ONE, [1, 5, 21], 2, e=20, nf=20)
    cfg = core.render_cfg(spec="Spec", constants=K, invariants=inv, properties=props, constraints=["Bound"], view="core")
    ctx.tlc("CacheAside", cfg, constants=K, defs=dict(Bound='s.clk <= 32 /\\ TLCGet("level") <= %d' % lvl),
            name="CacheAside-mc2", timeout=900, workers=6, heap="6g")


def gen(ctx, name, K, *, maxops, ops, maxdown=1, tail=6, audit_ids=None, audit_names=None, simulate=None, depth=None):
    G = dict(K)
    ids = [int(x) for x in K["Ids"].strip("{}").split(",")]
    names = [x.strip().strip('"') for x in K["Names"].strip("{}").split(",")]
    G.update(MaxOps=maxops, Ops=sset(ops), MaxDown=maxdown, TailTicks=tail,
             AuditIds="<<%s>>" % ", ".join(map(str, audit_ids if audit_ids is not None else ids)),
             AuditNames="<<%s>>" % ", ".join(q(n) for n in (audit_names if audit_names is not None else names)))
    cfg = core.render_cfg(spec="GSpec", constants=G, invariants=["Emit"])
    r = ctx.tlc("CacheAsideGen", cfg, constants=G, name=name, simulate=simulate, depth=depth, timeout=1500,
                workers=(1 if simulate else 6), heap="3g")
    return r.printed


READS = ["qrow", "qindex"]
WRITES = ["put", "delete"]


def drv_cfg(K, nodes, place, ids, names):
    return json.dumps(dict(nodes=nodes, place=place, ids=ids, names=names, expire=K["E"], nf=K["NF"]))


def get_ladder(ctx, binp):
    """ask the code for its retry ladder (seconds); the statement only promises increasing delays"""
    import subprocess
    outp = os.path.join(ctx.build, "ladder.json")
    e = dict(os.environ)
    e.update(core.GOENV)
    e["VERIF_OUT"] = outp
    p = subprocess.run([binp, "-test.run", "^TestVerifC06Ladder$", "-test.count=1"], env=e, capture_output=True,
                       text=True, timeout=120, cwd=os.path.join(core.REPO, "lib/store/cache"))
    if p.returncode != 0 or not os.path.exists(outp):
        raise core.Infra("ladder probe failed: %s" % (p.stdout + p.stderr)[-2000:])
    return json.load(open(outp))


class Plan:
    def __init__(self, name, ids, names, datas, nodes, place, jits, initdbs, adv, maxfail, maxops, ops, maxdown=1,
                 tail=6, fault="error", simulate=None, depth=None, shards=16, ladder_len=None):
        self.__dict__.update(locals())


def run_plan(ctx, binp, ladder, p):
    lad = ladder[:p.ladder_len] if p.ladder_len else ladder
    K = consts(p.ids, p.names, p.datas, list(range(1, p.nodes + 1)), p.place, lad, p.jits, p.initdbs, p.adv, p.maxfail)
    cases = gen(ctx, p.name, K, maxops=p.maxops, ops=p.ops, maxdown=p.maxdown, tail=p.tail, simulate=p.simulate,
                depth=p.depth)
    if not cases:
        raise core.Infra("plan %s generated no behaviour" % p.name)
    path, n = ctx.write_cases(p.name + ".ndjson", cases)
    ctx.samples += core.sample_of(cases, 1)
    env = dict(VERIF_C06_CFG=drv_cfg(K, p.nodes, p.place, p.ids, p.names), VERIF_C06_FAULT=p.fault)
    ctx.notes.setdefault("plans", {})[p.name] = dict(cases=n, maxops=p.maxops, ops=p.ops, nodes=p.nodes, fault=p.fault,
                                                     adv=p.adv, tail=p.tail, simulate=p.simulate)
    return ctx.replay(PKG, OVERLAY, RUN, path, label=p.name, env=env, shards=p.shards, binp=binp, timeout=1500)


def run(ctx):
    binp = ctx.go_build(PKG, OVERLAY, name="c06drv")
    ladder = get_ladder(ctx, binp)
    ctx.notes["ladder_from_code_s"] = ladder
    if len(ladder) < 2 or any(a >= b for a, b in zip(ladder, ladder[1:])):
        ctx.disagree("C06:ladder-not-increasing", "retry delays %s are not increasing" % ladder, source="ladder")
        return
    # mc(ctx, ladder)
    ids, names = [1, 2], ["a", "b"]
    one = one_node(ids, names)
    plans = [Plan("gA", ids, names, ["x", "y"], 1, one, ["hi"], "{%s}" % DB_ONE, [1, 21], 2,
                  int(os.environ.get("MAXOPS", "3")), READS + WRITES + ["adv"])]
    plans.append(Plan("gB", [1], ["a"], ["x", "y"], 1, one_node([1], ["a"]), ["mid"], "{%s}" % DB_ONE, [1, 5], 2,
                      int(os.environ.get("MAXOPS_B", "4")), ["qrow", "put", "adv", "down", "up"]))
    for p in plans:
        run_plan(ctx, binp, ladder, p)


def replay(ctx, rp):
    pass
