"""C03 - HTTP routing.  spec/Router.tla (reference matcher, model-checked), spec/RouterGen.tla
(TLC enumerates route tables and evaluates the reference for every request of a fixed universe)
-> replay on router.NewRouter() (public API) and on api.Server (engine.bindRoutes + not-found
handler).  spec/RouterMount.tla + RouterMountGen.tla: server-level wiring - the caller's []Route values mounted
with AddRoutes / AddRoute and WithPrefix options, the same values on two servers in a row."""
import json, os
from vlib import core

PKG = "./api/router"
LIB = {"internal/verifc03/lib.go": "c03/lib/lib.go"}
OVERLAY = dict(LIB, **{"api/router/zz_verif_c03_test.go": "c03/router_test.go"})
RUN = "^TestVerifC03$"
EPKG = "./api"
EOVERLAY = dict(LIB, **{"api/zz_verif_c03_test.go": "c03/engine_test.go"})
ERUN = "^TestVerifC03Engine$"
MRUN = "^TestVerifC03Mount$"

META = dict(
    text="TLA+ reference router (spec/Router.tla): patterns are sequences of literal / ':name' segments, "
         "requests carry raw token sequences (with '' and '.' tokens for '//', trailing '/', '/./'); Outcome is the "
         "statement transcribed (handler of a matching pattern with its binding - an all-literal match excludes "
         "the others, otherwise a set of candidates; 405 + exact Allow set; 404). TLC model-checks the reference "
         "(partition, soundness by substitution, completeness, literal-wins, clean-stability, registration rule) "
         "and, through RouterGen.tla, enumerates every route table of the bounded universe and prints the "
         "predicted answer of every request; the Go driver registers each table on router.NewRouter(), sends "
         "every request through ServeHTTP and compares Handle errors, the handler that ran, pathvar.Vars, status "
         "and the Allow set. A sample of the tables is also replayed through api.Server "
         "(AddRoutes/bindRoutes, WithNotFoundHandler). Server-level wiring (spec/RouterMount.tla): the caller's "
         "[]Route values are values - a mount (AddRoutes of a slice, AddRoute of one element, each with zero, one or "
         "two WithPrefix options) reads them and contributes prefix+path of every route, so the table is "
         "Router!Register's rule applied to the mounted routes in mount order (MountUnion, MountedServed, NothingElse, "
         "SlicesAreValues checked by TLC on every generated program). RouterMountGen.tla enumerates every mount "
         "program (free order: one slice under two prefixes in both orders, with and without prefix, an element next "
         "to its slice, nested and parameter groups) and the driver executes each on two fresh api.Server in a row "
         "with the same Go slice values, binds with engine.bindRoutes and compares the bind error and the answer to "
         "every request (keys C03:mount:*, second server C03:mount:reuse:*).",
    note="Trusted: TLC, net/http/httptest. Not generated: patterns repeating a parameter name (statement silent on "
         "which occurrence wins), unclean pattern spellings at registration, '..' in request paths, "
         "SetNotAllowedHandler/CORS. Supported methods = the seven accepted by validMethod (DELETE, GET, HEAD, OPTIONS, PATCH, POST, PUT; all of them registered and requested in the methods7 families); unsupported method = 'FOO', and in the verbs families 18 names: the lower-case "
         "and capitalised spelling of each supported verb, '', CONNECT, TRACE, FOO, each registered with '/', '/a', '/:x' "
         "before and after accepted routes of all seven verbs (rejected at Handle, absent from every later answer). "
         "Requests use upper-case verbs and FOO only. Bounds: literals {a,b}, request tokens {a,b,c}, "
         "depth <= 3, <= 3 routes exhaustive (4 in thorough), <= 8-10 routes over 3 methods in simulation. "
         "Mount families: slice routes over {/, /a, /:x} x {GET, POST} (quick: 4 of the 6), slices of 1-2 routes, "
         "groups /a, /b, /a/b, /:v, pairs of different WithPrefix over /a, /b; every program of <= 2 mounts (3 in "
         "thorough), random programs of 5 mounts over two slices of <= 3 routes. WithPrefix groups are clean absolute texts; the "
         "other RouteOptions (jwt, signature, timeout, priority, max bytes) are not mounted.",
    technique="TLA+ reference matcher + TLC-enumerated (table, request) cases replayed on the real router",
    design="4/C03")

FINISH = dict(rule="cases = complete TLC enumeration (BFS; registrations in canonical order, so every table as a "
                   "multiset of registrations appears once) of route tables up to MaxRoutes registrations over the "
                   "bounded pattern universe, each with the specification's answer to every request of the request "
                   "universe, plus seeded TLC simulation of larger tables registered in random order; every "
                   "registration and every request of every table is compared with the prediction; mount families = "
                   "complete TLC enumeration of the mount programs (slices x sequences of AddRoutes/AddRoute x WithPrefix "
                   "option lists) up to MaxMounts mounts plus seeded simulation of longer programs, each executed on two "
                   "servers sharing the caller's slices")

PAR3 = '<<{"x"},{"y"},{"z"}>>'


def consts(methods, bad, reqm, lits, par, depth, toks, dirt, maxroutes, ordered=True, badpats="{}", emitall=True,
           first="1..100000"):
    return dict(Methods=methods, BadMethods=bad, ReqMethods=reqm, Lits=lits, ParNames=par, MaxDepth=depth,
                ReqToks=toks, DirtToks=dirt, MaxRoutes=maxroutes, Ordered=ordered, BadPats=badpats, EmitAll=emitall,
                First=first)


BADP = '{<<>>, <<Lit("a")>>, <<Par("x")>>}'
G, GP, GPP = '{"GET"}', '{"GET","POST"}', '{"GET","POST","PUT"}'
REQ4 = '{"GET","POST","PUT","DELETE"}'
# every method patRouter.validMethod accepts for registration; requests also use the unsupported one
ALL7 = '{"DELETE","GET","HEAD","OPTIONS","PATCH","POST","PUT"}'
REQ8 = '{"DELETE","GET","HEAD","OPTIONS","PATCH","POST","PUT","FOO"}'
# The unsupported-method alphabet.  HTTP method names are case-sensitive tokens and patRouter keys its trees and
# looks requests up by the exact string, so every other spelling of a supported verb is a different, unsupported
# method: the lower-case and the capitalised spelling of each of the seven, plus names that are not verbs of the
# router at all (the empty name, standard methods validMethod does not list, an invented one).
VERBS7 = ["DELETE", "GET", "HEAD", "OPTIONS", "PATCH", "POST", "PUT"]
CASE_VARIANTS = sorted({f(v) for v in VERBS7 for f in (str.lower, str.capitalize)})
OTHER_NAMES = ["", "CONNECT", "FOO", "TRACE"]
BADV = "{" + ",".join(json.dumps(m) for m in CASE_VARIANTS + OTHER_NAMES) + "}"

PLANS = {
    # single method, depth 3: literal/parameter alternatives with shared prefixes (backtracking)
    "deep3": consts(G, "{}", GP, '{"a","b"}', PAR3, 3, '{"a","b","c"}', '{"a","b"}', 3),
    "deep4": consts(G, "{}", GP, '{"a","b"}', PAR3, 3, '{"a","b","c"}', '{"a","b"}', 4),
    # three methods + rejected registrations: 404/405/Allow partition
    "multi2": consts(GPP, '{"FOO"}', REQ4, '{"a","b"}', PAR3, 2, '{"a","b","c"}', '{"a","b"}', 2, badpats=BADP),
    "multi3a": consts(GPP, '{"FOO"}', REQ4, '{"a"}', PAR3, 2, '{"a","c"}', '{"a"}', 3, badpats=BADP),
    "multi3": consts(GPP, '{"FOO"}', REQ4, '{"a","b"}', PAR3, 2, '{"a","b","c"}', '{"a","b"}', 3, badpats=BADP),
    # every supported method both as a route's method and as a request method (405 / Allow over all trees)
    "methods7": consts(ALL7, '{"FOO"}', REQ8, '{"a"}', PAR3, 1, '{"a","c"}', '{"a"}', 3, badpats="{<<>>}"),
    "methods7d2": consts(ALL7, '{"FOO"}', REQ8, '{"a","b"}', PAR3, 2, '{"a","b","c"}', '{"a"}', 2, badpats="{<<>>}"),
    # registration alphabet of method names: every supported verb next to 18 unsupported names (case variants of
    # the supported verbs, "", CONNECT, TRACE, FOO), each offered with the patterns '/', '/a', '/:x'; free
    # registration order (a rejected name before and after the accepted route of its upper-case sibling), every
    # request of the universe answered from the accepted routes only
    "verbs": consts(ALL7, BADV, REQ8, '{"a"}', PAR3, 1, '{"a","c"}', '{"a"}', 2, ordered=False, badpats=BADP),
    "verbs3": consts(GPP, BADV, REQ4, '{"a"}', PAR3, 1, '{"a","c"}', '{"a"}', 3, badpats=BADP),
    "simverbs": consts(ALL7, BADV, REQ8, '{"a","b"}', PAR3, 2, '{"a","b","c"}', '{"a"}', 8, ordered=False, badpats=BADP,
                       emitall=False),
    # random larger tables, free registration order, two parameter names at depth 1
    "sim8": consts(GPP, '{"FOO"}', REQ4, '{"a","b"}', '<<{"x","w"},{"y"},{"z"}>>', 3, '{"a","b","c"}', '{"a","b"}', 8,
                   ordered=False, badpats=BADP, emitall=False),
    "sim12": consts(GPP, '{"FOO"}', REQ4, '{"a","b"}', '<<{"x","w"},{"y","v"},{"z"}>>', 3, '{"a","b","c"}', '{"a","b"}',
                    12, ordered=False, badpats=BADP, emitall=False),
}


# Server-level wiring (spec/RouterMount.tla): the caller's []Route values mounted with AddRoutes / AddRoute and
# zero, one or two WithPrefix options.
def mconsts(sliceroutes, slicelen, nslices, groups, nest, maxmounts, emitall=True, lits='{"a","b"}', depth=3,
            toks='{"a","b","c"}', dirt="{}"):
    return dict(Methods=GP, BadMethods="{}", ReqMethods=GPP, Lits=lits, ParNames=PAR3, MaxDepth=depth, ReqToks=toks,
                DirtToks=dirt, SliceRoutes=sliceroutes, MaxSliceLen=slicelen, NSlices=nslices, Groups=groups,
                NestGroups=nest, MaxMounts=maxmounts, EmitAll=emitall, Rounds=2)


def sroutes(*rs):
    return "{" + ", ".join('[m |-> "%s", p |-> %s]' % (m, p) for m, p in rs) + "}"


ROOT, PA, PB, PX, PAY = "<<>>", '<<Lit("a")>>', '<<Lit("b")>>', '<<Par("x")>>', '<<Lit("a"), Par("y")>>'
# root, a literal and a parameter under GET, the literal under POST as well (405 / Allow across groups)
SR4 = sroutes(("GET", ROOT), ("GET", PA), ("GET", PX), ("POST", PA))
SR6 = sroutes(*[(m, p) for m in ("GET", "POST") for p in (ROOT, PA, PX)])
SR8 = sroutes(*([(m, p) for m in ("GET", "POST") for p in (ROOT, PA, PX)] + [("GET", PB), ("POST", PAY)]))
# groups: two literals, a two-segment literal group, a parameter group; nested options over the literal groups
PRE4 = '{<<Lit("a")>>, <<Lit("b")>>, <<Lit("a"), Lit("b")>>, <<Par("v")>>}'
NEST2 = '{<<Lit("a")>>, <<Lit("b")>>}'
NEST3 = '{<<Lit("a")>>, <<Lit("b")>>, <<Par("v")>>}'
MPLANS = {
    # one slice of one or two routes, every program of up to two mounts (21 mount operations per step)
    "mount2": mconsts(SR4, 2, 1, PRE4, NEST2, 2),
    "mount2w": mconsts(SR6, 2, 1, PRE4, NEST2, 2),
    # three mounts (a slice under two prefixes plus an element / the bare slice, all orders)
    "mount3": mconsts(SR4, 2, 1, PRE4, NEST2, 3, emitall=False),
    # random longer programs over two slices of up to three routes
    "simmount": mconsts(SR8, 3, 2, PRE4, NEST3, 5, emitall=False, dirt='{"a"}'),
    # model checking of the wiring rules themselves (every request of the universe per state)
    "mc": mconsts(sroutes(("GET", ROOT), ("GET", PX), ("POST", PA)), 2, 1, '{<<Lit("a")>>, <<Lit("b")>>, <<Par("v")>>}',
                  '{<<Lit("a")>>}', 2, toks='{"a","b"}', dirt='{"a"}'),
}


def mmc(ctx):
    K = {k: v for k, v in MPLANS["mc"].items() if k not in ("MaxMounts", "EmitAll", "Rounds")}
    cfg = core.render_cfg(spec="MSpec", constants=K, invariants=["MountUnion", "MountedServed", "NothingElse"],
                          properties=["SlicesAreValues"], constraints=["Bound"])
    ctx.tlc("RouterMount", cfg, constants=K, defs=dict(Bound="Len(groups) <= 2"), name="RouterMount-mc", workers=6,
            timeout=600)


def mgen(ctx, name, plan, simulate=None, depth=None, maxmounts=None):
    K = dict(MPLANS[plan])
    if maxmounts is not None:
        K["MaxMounts"] = maxmounts
    # the rules over the whole request universe are checked on every state of the BFS runs; the random programs
    # keep the cheap ones
    inv = ["TableIsAccepted", "MountUnion"] + ([] if simulate else ["MountedServed", "NothingElse"]) + ["Emit"]
    cfg = core.render_cfg(spec="GSpec", constants=K, invariants=inv, properties=["SlicesAreValues"])
    r = ctx.tlc("RouterMountGen", cfg, constants=K, name=name, simulate=simulate, depth=depth, timeout=1500,
                workers=(1 if simulate else 6))
    header = [p for p in r.printed if p.startswith('{"reqs"')]
    cases = [p for p in r.printed if not p.startswith('{"reqs"')]
    if len(header) < 1:
        raise core.Infra("RouterMountGen %s printed no request universe" % name)
    if not cases:
        raise core.Infra("RouterMountGen %s printed no case" % name)
    return header[0], cases


def mount(ctx, ebinp, name, plan, **kw):
    only = os.environ.get("VERIF_PLANS")
    if only and name.split("-")[0] not in only.split(","):
        return
    header, cases = mgen(ctx, name, plan, **kw)
    path, cnt = ctx.write_cases(name + ".ndjson", [header] + cases)
    ctx.samples += core.sample_of(cases[len(cases) // 2:], 1)
    nreq = len(json.loads(header)["reqs"])
    ctx.notes.setdefault("pairs", {})[name] = dict(mount_programs=len(cases), requests_per_server=nreq, servers=2)
    cnt, _ = ctx.replay(EPKG, EOVERLAY, MRUN, path, label=name + "-mount", env=dict(VERIF_METHODS="GET,POST"), shards=8,
                        binp=ebinp)
    stats = {k: cnt.get(k, 0) for k in ("shared_slice_programs", "served_programs", "rejecting_programs")}
    ctx.notes.setdefault("mount", {})[name] = stats
    # vacuity guard (only meaningful when the run found no disagreement): the family must contain programs that
    # mount one slice several times and are served, and programs whose binding is rejected
    if not ctx.disagreements and not (stats["shared_slice_programs"] and stats["rejecting_programs"]):
        raise core.Infra("mount family %s is vacuous: %r" % (name, stats))
    return cnt


def mc(ctx):
    K = {k: v for k, v in PLANS["multi2"].items() if k in ("Methods", "BadMethods", "ReqMethods", "Lits", "ParNames",
                                                           "MaxDepth", "ReqToks", "DirtToks")}
    # unsupported names of each kind: invented, a case variant of a supported verb (also requested), empty
    K.update(Methods=GP, ReqMethods='{"GET","DELETE","get"}', BadMethods='{"FOO","get",""}')
    cfg = core.render_cfg(spec="Spec", constants=K,
                          invariants=["TypeOK", "Partition", "CandidatesSound", "Complete", "LiteralWins", "CleanStable",
                                      "QuietIs404", "BadMethodsInert"],
                          properties=["RegisterRule", "RequestsReadOnly"], constraints=["Bound"], view="core")
    ctx.tlc("Router", cfg, constants=K, defs=dict(Bound="Cardinality(table) <= 2"), name="Router-mc", workers=6, timeout=600)


def gen(ctx, name, plan, simulate=None, depth=None, chunk=None):
    K = dict(PLANS[plan])
    if chunk:
        K["First"] = chunk
    cfg = core.render_cfg(spec="GSpec", constants=K, invariants=["TableIsAccepted", "Emit"])
    r = ctx.tlc("RouterGen", cfg, constants=K, name=name, simulate=simulate, depth=depth, timeout=1500,
                workers=(1 if simulate else 6))
    header = [p for p in r.printed if p.startswith('{"reqs"')]
    cases = [p for p in r.printed if not p.startswith('{"reqs"')]
    if len(header) < 1:
        raise core.Infra("RouterGen %s printed no request universe" % name)
    if not cases:
        raise core.Infra("RouterGen %s printed no case" % name)
    return header[0], cases


def methods_env(plan):
    return dict(VERIF_METHODS=",".join(json.loads("[" + PLANS[plan]["Methods"].strip("{}") + "]")))


def one(ctx, binp, ebinp, name, plan, engine_every, **kw):
    only = os.environ.get("VERIF_PLANS")  # development aid: run a subset of the plans
    if only and name.split("-")[0] not in only.split(","):
        return
    header, cases = gen(ctx, name, plan, **kw)
    path, cnt = ctx.write_cases(name + ".ndjson", [header] + cases)
    ctx.samples += core.sample_of(cases[len(cases) // 2:], 1)
    nreq = len(json.loads(header)["reqs"])
    ctx.notes.setdefault("pairs", {})[name] = dict(tables=len(cases), requests_per_table=nreq)
    env = methods_env(plan)
    ctx.replay(PKG, OVERLAY, RUN, path, label=name, env=env, shards=16, binp=binp)
    if ebinp and engine_every:
        env = dict(env, VERIF_EVERY=engine_every)
        ctx.replay(EPKG, EOVERLAY, ERUN, path, label=name + "-engine", env=env, shards=16, binp=ebinp)


def run(ctx):
    ctx.assumptions += [
        "patterns that repeat a parameter name, unclean pattern spellings at registration and '..' in request paths "
        "are not generated (the statement does not fix their meaning)",
        "where several parameterised patterns match, any of them (with its own binding) is accepted",
        "unsupported methods: 'FOO' in the older families; in the verbs families the lower-case and capitalised "
        "spelling of each of the seven supported verbs, '', CONNECT, TRACE and FOO (method names are compared as exact "
        "strings, as the router's trees and its request lookup do); only error / no error is compared for Handle",
        "engine tier: api.Server with Config{} and the default middleware chain; bindRoutes stops at the first "
        "rejected route, so tables containing a rejected registration are compared on the bind error only",
        "mount families: the registered pattern of a mounted route is the WithPrefix groups (last option outermost) "
        "followed by the route's path, groups being clean absolute paths; a caller's []Route value is never changed by "
        "mounting it (the same values are mounted again on a second server and must give the same table); handlers are "
        "shared by all mounts of a slice element, the binding seen identifies the registration",
    ]
    mc(ctx)
    if not ctx.quick:
        mmc(ctx)  # the quick tier checks the same invariants on every generated program (mgen)
    binp = ctx.go_build(PKG, OVERLAY, name="c03drv")
    ebinp = ctx.go_build(EPKG, EOVERLAY, name="c03eng")
    ctx.exhaustive = True
    if ctx.quick:
        one(ctx, binp, ebinp, "deep3", "deep3", 8)
        one(ctx, binp, ebinp, "multi2", "multi2", 1)
        one(ctx, binp, ebinp, "multi3a", "multi3a", 4)
        one(ctx, binp, ebinp, "methods7", "methods7", 4)
        one(ctx, binp, ebinp, "verbs", "verbs", 4)
        one(ctx, binp, ebinp, "sim8", "sim8", 2, simulate=1500, depth=9)
        mount(ctx, ebinp, "mount2", "mount2")
        mount(ctx, ebinp, "simmount", "simmount", simulate=200, depth=6)
    else:
        one(ctx, binp, ebinp, "deep3", "deep3", 10)
        for i, ch in enumerate(["1..4", "5..9", "10..16", "17..40"]):
            one(ctx, binp, ebinp, "deep4-%d" % i, "deep4", 200, chunk=ch)
        one(ctx, binp, ebinp, "multi3", "multi3", 20)
        one(ctx, binp, ebinp, "methods7", "methods7", 4)
        one(ctx, binp, ebinp, "methods7d2", "methods7d2", 10)
        one(ctx, binp, ebinp, "verbs", "verbs", 4)
        one(ctx, binp, ebinp, "verbs3", "verbs3", 20)
        one(ctx, binp, ebinp, "simverbs", "simverbs", 10, simulate=5000, depth=9)
        one(ctx, binp, ebinp, "sim8", "sim8", 10, simulate=20000, depth=9)
        one(ctx, binp, ebinp, "sim12", "sim12", 10, simulate=10000, depth=13)
        mount(ctx, ebinp, "mount2w", "mount2w")
        mount(ctx, ebinp, "mount3", "mount3")
        mount(ctx, ebinp, "simmount", "simmount", simulate=2000, depth=6)


def replay(ctx, rp):
    label = rp.get("label") or "deep3"
    if label.endswith("-mount"):
        plan = label[:-6].split("-")[0]
        if plan not in MPLANS:
            raise core.Infra("replay file names unknown mount plan %r" % plan)
        K = dict(MPLANS[plan], MaxMounts=0, EmitAll=True, NSlices=1, MaxSliceLen=1)
        cfg = core.render_cfg(spec="GSpec", constants=K, invariants=["Emit"])
        r = ctx.tlc("RouterMountGen", cfg, constants=K, name="header", workers=1)
        header = [p for p in r.printed if p.startswith('{"reqs"')][0]
        path, _ = ctx.write_cases("replay.ndjson", [header, rp["case"]])
        ctx.replay(EPKG, EOVERLAY, MRUN, path, label="replay", env=dict(VERIF_METHODS="GET,POST", VERIF_BOTH=1))
        return
    engine = label.endswith("-engine")
    name = label[:-7] if engine else label
    plan = name.split("-")[0]
    if plan not in PLANS:
        raise core.Infra("replay file names unknown plan %r" % plan)
    K = dict(PLANS[plan], MaxRoutes=0, EmitAll=True, Ordered=True)
    cfg = core.render_cfg(spec="GSpec", constants=K, invariants=["Emit"])
    r = ctx.tlc("RouterGen", cfg, constants=K, name="header", workers=1)
    header = [p for p in r.printed if p.startswith('{"reqs"')][0]
    path, _ = ctx.write_cases("replay.ndjson", [header, rp["case"]])
    if engine:
        ctx.replay(EPKG, EOVERLAY, ERUN, path, label="replay", env=dict(methods_env(plan), VERIF_EVERY=1, VERIF_BOTH=1))
    else:
        ctx.replay(PKG, OVERLAY, RUN, path, label="replay", env=dict(methods_env(plan), VERIF_BOTH=1))
