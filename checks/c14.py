"""C14 - P2C balancer.  spec/P2C.tla (integer abstraction of picks, completions, score and latency
estimate; both operations total, whatever the idle time between them), spec/P2CTrace.tla (trace validation, one independent instance of P2C per picker of a
history) <- traces recorded on real pickers, published by balancers that the REGISTERED builder
(balancer.Get(p2c.Name)) built for fake ClientConns, under the virtual clock by harness/c14/p2c_test.go."""
import json, os, subprocess, time
from concurrent.futures import ThreadPoolExecutor
from vlib import core

PKG = "./rpc/internal/balancer/p2c"
OVERLAY = {"rpc/internal/balancer/p2c/zz_verif_c14_test.go": "c14/p2c_test.go"}
RUN = "^TestVerifC14$"
NMAX = 8

# statistical clauses (DESIGN.md section 5): flagged only beyond these margins
# picks of the always-failing backend / picks of the least-picked healthy one, flagged at >= the
# value for (ready connections, latency of the failing backend in ms; healthy ones answer in 5 ms).
# The picker's rand is seeded, so the ratio is a deterministic function of VERIF_SEED; measured on
# the unchanged tree over seeds 1,2,3,7,12345 (18000 counted picks): n=3: 0.54-0.55 (5 ms) and
# 0.83-0.86 (1 ms, the fast-failing backend has the lower load and wins most comparisons it takes
# part in: inherent to P2C with three backends); n=5: 0.21 / 0.26-0.29; n=8: 0.07-0.09 / 0.10-0.11.
# Thresholds sit far above these and below what a picker that cannot retry an unhealthy first
# candidate away gives (n=3: 0.77-0.80 / 1.43-1.47; n=5: 0.74-0.77 / 1.05-1.10; n=8: 0.76-0.78 / 1.02-1.10).
DEAD_SHARE_MAX = {(3, 5): 0.68, (3, 1): 1.1, (5, 5): 0.45, (5, 1): 0.6, (8, 5): 0.4, (8, 1): 0.5}
MAX_GAP_MS = 5000         # longest time a connection stays unpicked under 1 kHz picks

# order in which violated clauses name the disagreement
CLAUSES = ["ready-set", "pick-never-returns", "done-never-returns", "pick-panics", "done-panics", "unknown-fault", "pick-not-ready", "done-not-ready", "succ-range", "succ-direction", "succ-progress", "fail-bound", "inflight",
           "lag-range", "starved-2conn", "pick-effect", "done-effect", "time", "unknown-code"]

META = dict(
    text="Trace validation (code -> spec): an in-package driver obtains pickers the way grpc does - balancer.Get(p2c_ewma) "
         "(the builder registered by the package's init) builds one balancer per fake ClientConn, the driver reports "
         "resolver addresses and SubConn states, the balancer publishes pickers through UpdateState - over 1, 2, 3 and 8 "
         "fake ready SubConns and drives seeded random Pick/Done sequences (all 17 gRPC codes, nil and plain errors, "
         "time gaps from 0 to 2 min around the force-pick second and the 10 s decay) under the virtual clock; after "
         "every operation it logs [in-flight, score, latency estimate] of every connection. TLC (spec/P2CTrace.tla, all "
         "traces concatenated, -workers 1) checks that every logged step is a step of spec/P2C.tla: the pick is a ready "
         "connection, in-flight = picks - completions, the score stays in [0,1000], moves towards its target and at "
         "least as fast as the decay bound, a completion that read its time before the connection's previous completion moves nothing (reorder traces: the first completion is parked inside its clock read while a later one finishes), a backend whose calls all fail (>= 1 ms apart) is at or below 500 after at most 20000 completions (streak traces on n = 1 and n = 3), the estimate stays within the observed latencies, and with two connections "
         "none is left unpicked beyond the force-pick period under sustained picks. P2C.tla itself is model-checked "
         "(invariants, UnhealthyBound: 8 failing completions >= 1 s apart make a backend unhealthy, Recover, NoStarve2). "
         "Multi-picker histories keep up to 16 pickers of two or three clients alive at once, all built by the one "
         "registered picker-builder instance: clients come up one after the other, connections go down (transient "
         "failure / idle) and come back so that a client's picker is rebuilt while its previous picker still serves a "
         "few picks and the completions of its calls; picks and completions of all pickers are interleaved. Every event "
         "names its picker and P2CTrace keeps one independent P2C state per picker, whose ready connections are those "
         "of its own build (a picker must hold exactly them; a pick returning another client's or a no-longer-held "
         "connection, or bookkeeping that moved to other records, is rejected). "
         "Idle periods are a dimension of the histories: idle histories run rounds of (picks, completions, a gap of "
         "30 s / 1 min / 61 s / 5 min without any pick while 0, 1 or 2 calls stay in flight, completions after the gap) and "
         "then pick again - the first round enumerated over all round types, all pairs of rounds in the thorough tier; "
         "P2C.tla is model-checked over such gaps too, with the totality of both operations (PickTotal, DoneTotal) as "
         "invariants. Every Pick and every completion callback of every mode runs under a watchdog: a call still blocked "
         "while every goroutine of the process has been blocked for seconds (or without progress for two minutes), or "
         "one that panics, is logged as a fault event with the stacks and rejected by the trace spec (pick-never-returns, "
         "done-never-returns, pick-panics, done-panics) - never a harness error. "
         "A concurrent variant (8 goroutines, with two idle periods of more than a minute) logs the quiescent end state, judged by the same invariants; long 1 kHz "
         "runs with one dead backend measure its share and the longest unpicked interval.",
    note="Trusted: TLC, the Json module, the driver's projection (values saturated at 10^9), the virtual clock hook. The "
         "pair selection rand is re-seeded by the driver (in-package) for reproducibility. Each published picker is "
         "an independent instance with fresh bookkeeping (as in the code, which creates new records on every Build); "
         "a builder that carried scores over from one picker of a client to the next would be rejected by this model. "
         "Balancers are built by the registered builder over fake ClientConns, not through grpc.Dial. Not decided by the spec: "
         "which connection is picked among >= 3 (only that it is ready); 'chosen markedly less often' and 'about once "
         "per second' for >= 3 connections are driver statistics with wide margins (n = 3, 5, 8, failing backend equally fast or faster than its "
         "peers; its picks / those of the least picked healthy one, flagged at per-(n, latency) thresholds placed far above "
         "the values measured on the conforming code, recorded in evidence; no connection unpicked for > 5 s). The EWMA "
         "weight enters only as an upper bound on the remaining distance (table for decay 10 s); one unit of slack for "
         "float truncation. Concurrent runs are validated at quiescence only (no per-step order). 'Did not return' is "
         "decided by the watchdog: all goroutines of the driver process blocked at three looks one second apart (the package "
         "has no timers or I/O that could release a call), or no progress for 120 s of real time. Measured and "
         "reported, not judged: a recovered backend regains its score slowly under fast traffic because increments "
         "below 1 are truncated (evidence notes).",
    technique="TLA+ spec (P2C) + TLC trace validation (P2CTrace) of traces recorded on the real picker",
    design="4/C14")

FINISH = dict(rule="every recorded trace (seeded random Pick/Done sequences for 1, 2, 3, 8 ready connections; "
                   "idle-period histories (gaps of 30 s to 5 min with 0-2 calls in flight, then completions and picks); "
                   "histories with several pickers of several clients alive at once, all from the registered builder; "
                   "concurrent runs at quiescence) must be accepted by spec/P2CTrace.tla: each event is a step of "
                   "spec/P2C.tla whose post-state equals the logged projection, and every invoked Pick / completion "
                   "callback returns; driver statistics for >= 3 "
                   "connections are flagged only beyond DESIGN.md section 5 margins")

MCK = dict(Conns="1..2", MCReady="1..2", MCCodes='{"nil","Unavailable"}', MCLats="{1000,50000}", MCSteps="{0,600,1000}",
           RunLen=8, FailB=20000, MCSplit=False)
FAILB = 20000             # unacceptable completions (>= 1 ms apart, none acceptable between) after which score <= 500
INVS = ["TypeOK", "InflEq", "SuccRange", "LagRange", "OnlyReady", "UnhealthyBound", "Recover", "FailBound", "PickTotal"]
TOTAL = INVS + ["DoneTotal"]   # the small models also carry the totality of the completion
IDLE_MIN = 10             # vacuity guard of the idle-period histories: each counted situation at least this often


MCW = 2       # TLC workers per model-checking run; MCPOOL of them run next to the (single-worker) trace validation
MCPOOL = 3


def mc_one(ctx):
    B1 = "picks[1] <= 8 /\\ infl[1] <= 1"
    # (a) one connection, completions one second apart: deep enough for the 8-completion runs
    K = dict(MCK, Conns="1..1", MCReady="1..1", MCSteps="{1000}", MCLats="{1000}")
    cfg = core.render_cfg(spec="Spec", constants=K, invariants=TOTAL, properties=["NoStarve2"], constraints=["Bound"], view="core")
    ctx.tlc("P2C", cfg, constants=K, defs=dict(Bound=B1), name="P2C-mc1", workers=MCW, timeout=900, heap="2g")
    # the runs are really reached (vacuity guard for UnhealthyBound / Recover)
    for inv, nm in (("\\A c \\in Conns : badrun[c] < RunLen", "bad"), ("\\A c \\in Conns : goodrun[c] < RunLen", "good")):
        cfg2 = core.render_cfg(spec="Spec", constants=K, invariants=["NotReached"], constraints=["Bound"], view="core")
        r2 = ctx.tlc("P2C", cfg2, constants=K, defs=dict(Bound=B1, NotReached=inv),
                     name="P2C-reach-" + nm, workers=1, timeout=600, allow_violation=True, heap="2g")
        if r2.violated != "NotReached":
            raise core.Infra("vacuous model: a run of RunLen %s completions is not reachable within the bound" % nm)
    # (a') closely spaced failing completions: the fail-bound clause with a small bound, reached
    K4 = dict(K, MCSteps="{0,1}", MCCodes='{"nil","Unavailable"}', FailB=3)
    B4 = "picks[1] <= 5 /\\ infl[1] <= 2"
    cfg = core.render_cfg(spec="Spec", constants=K4, invariants=TOTAL, constraints=["Bound"], view="core")
    ctx.tlc("P2C", cfg, constants=K4, defs=dict(Bound=B4), name="P2C-mc4", workers=MCW, timeout=900, heap="2g")
    cfg2 = core.render_cfg(spec="Spec", constants=K4, invariants=["NotReached"], constraints=["Bound"], view="core")
    r2 = ctx.tlc("P2C", cfg2, constants=K4, defs=dict(Bound=B4, NotReached="\\A c \\in Conns : failrun[c] < FailB"),
                 name="P2C-reach-fail", workers=1, timeout=600, allow_violation=True, heap="2g")
    if r2.violated != "NotReached":
        raise core.Infra("vacuous model: FailB failing completions are not reachable within the bound")
    mc_idle(ctx)


def mc_split(ctx):
    # (a'') completions split into begin / end, ends applied out of time order
    K5 = dict(MCK, Conns="1..1", MCReady="1..1", MCSteps="{0,1000}", MCLats="{1000,50000}", MCSplit=True)
    cfg = core.render_cfg(spec="Spec", constants=K5, invariants=INVS, constraints=["Bound"], view="core")
    ctx.tlc("P2C", cfg, constants=K5, defs=dict(Bound="picks[1] <= 3 /\\ now <= 3000"), name="P2C-mc5", workers=MCW,
            timeout=900, heap="2g")


def mc_idle(ctx):
    # (d) idle periods: 30 s, 61 s and 5 min between operations, with 0, 1 or 2 calls in flight across them; every
    # invariant and the totality of both operations (a pick always has a connection to return, a completion a step
    # to take) hold whatever the spacing
    K = dict(MCK, MCSteps="{0,61000}", MCLats="{1000}")
    cfg = core.render_cfg(spec="Spec", constants=K, invariants=TOTAL, properties=["NoStarve2"], constraints=["Bound"], view="core")
    ctx.tlc("P2C", cfg, constants=K, defs=dict(Bound="picks[1] + picks[2] <= 2"), name="P2C-mc6", workers=MCW,
            timeout=900, heap="2g")
    K = dict(K, Conns="1..1", MCReady="1..1", MCSteps="{0,61000,300000}")
    cfg = core.render_cfg(spec="Spec", constants=K, invariants=TOTAL, constraints=["Bound"], view="core")
    ctx.tlc("P2C", cfg, constants=K, defs=dict(Bound="picks[1] <= 3 /\\ infl[1] <= 2"), name="P2C-mc7", workers=MCW,
            timeout=900, heap="2g")


def mc_two(ctx):
    # (b) two connections: force-pick rule, interleavings, close and far completions
    K = dict(MCK, MCLats="{1000}")
    cfg = core.render_cfg(spec="Spec", constants=K, invariants=INVS, properties=["NoStarve2"], constraints=["Bound"], view="core")
    ctx.tlc("P2C", cfg, constants=K, defs=dict(Bound="picks[1] + picks[2] <= 3 /\\ now <= 2600"),
            name="P2C-mc2", workers=MCW, timeout=900, heap="2g")
    # (c) a connection of the universe that is not ready is never touched; two latency classes
    K = dict(MCK, Conns="1..3", MCSteps="{0,1000}")
    cfg = core.render_cfg(spec="Spec", constants=K, invariants=TOTAL, properties=["NoStarve2"], constraints=["Bound"], view="core")
    ctx.tlc("P2C", cfg, constants=K, defs=dict(Bound="picks[1] + picks[2] <= 2 /\\ now <= 2000"),
            name="P2C-mc3", workers=MCW, timeout=900, heap="2g")


def drive(ctx, binp, mode, out, name, **env):
    """Run the driver binary once; a non-zero exit is harness trouble."""
    e = dict(os.environ)
    e.update(core.GOENV)
    e.update(VERIF_SEED=str(ctx.seed), VERIF_TIER=ctx.tier, VERIF_BUILD=ctx.build, VERIF_C14_MODE=mode, VERIF_C14_OUT=out)
    e.update({k: str(v) for k, v in env.items()})
    t0 = time.time()
    p = subprocess.run([binp, "-test.run", RUN, "-test.count=1", "-test.timeout", "600s"],
                       cwd=os.path.join(core.REPO, PKG.lstrip("./")), env=e, capture_output=True, text=True, timeout=700)
    ctx.go_runs.append(dict(name=name, pkg=PKG, run=RUN, rc=p.returncode, wall_s=round(time.time() - t0, 2)))
    core.log("driver %s: rc=%s %.1fs" % (name, p.returncode, time.time() - t0))
    if p.returncode != 0 or not os.path.exists(out):
        raise core.Infra("driver %s failed rc=%s\n%s" % (name, p.returncode, (p.stdout + p.stderr)[-3000:]))


def validate(ctx, trace_path, name, mode, extra_env):
    """TLC run of P2CTrace on a recorded trace file; rejections become disagreements."""
    lines = open(trace_path).read().splitlines()
    if not lines:
        raise core.Infra("empty trace %s" % trace_path)
    K = dict(MCK, Conns="1..%d" % NMAX, MCReady="{}", FailB=FAILB)
    cfg = core.render_cfg(spec="TSpec", constants=K, invariants=["InflEq", "SuccRange", "LagRange", "OnlyReady", "FailBound"],
                          postcondition="Post")
    r = ctx.tlc("P2CTrace", cfg, constants=K, name=name, workers=1, timeout=1500, files={"c14trace.ndjson": trace_path},
                heap="3g")
    if not r.printed:
        raise core.Infra("P2CTrace printed no result")
    res = json.loads(r.printed[-1])
    if res["hw"] != res["n"] or res["n"] != len(lines):
        raise core.Infra("trace not consumed: high-water mark %s of %s events (%s lines)" % (res["hw"], res["n"], len(lines)))
    evs = None
    ntr = sum(1 for l in lines if '"ev":"reset"' in l)
    ctx.traces += ntr
    ctx.steps += len(lines) - ntr
    ctx.counters[name + ".events"] = len(lines)
    ctx.counters[name + ".traces"] = ntr
    ctx.counters[name + ".rejected"] = len(res["rejected"])
    for rj in res["rejected"]:
        idx = rj["l"] - 1
        start = idx
        while '"ev":"reset"' not in lines[start]:
            start -= 1
        head = json.loads(lines[start])
        ev = json.loads(lines[idx])
        why = sorted(rj["why"], key=lambda w: CLAUSES.index(w) if w in CLAUSES else 99)
        if ev.get("ev") == "fault":
            what = "Pick" if ev.get("op") == "pick" else "the completion callback (Done) of a call of connection %s" % ev.get("c")
            msg = ("trace %s (n=%s, %s): event #%d: %s on picker %s %s at t=%s ms, %s ms after the picker's last pick, with %s "
                   "call(s) in flight - P2C.tla: every operation returns (violates %s); %s" % (
                       head.get("id"), head.get("n"), mode, idx - start, what, ev.get("p", 0),
                       "panicked" if ev.get("kind") == "panics" else "did not return", ev.get("t"),
                       ev.get("since_last_pick_ms"), ev.get("calls_in_flight"), why, ev.get("note", "")))
            if head.get("profile") and isinstance(head.get("profile"), dict):
                msg += "\nhistory plan (rounds of [completions before the gap, calls in flight across it, gap ms, completions after it]): %s" % (
                    head["profile"].get("idle"),)
        else:
            msg = "trace %s (n=%s, %s): event #%d %s is not a step of P2C.tla: violates %s" % (
                head.get("id"), head.get("n"), mode, idx - start, json.dumps(ev, sort_keys=True), why)
        pid = ev.get("p", 0)
        before = [json.loads(x) for x in lines[max(start + 1, idx - 4000):idx]]
        mine = [x for x in before if x.get("p", 0) == pid]
        built = [x for x in mine if x.get("ev") == "build"]
        if built:
            msg += "; picker %s was built over the ready connections %s" % (pid, built[-1].get("ready"))
            later = [x.get("p") for x in before if x.get("ev") == "build" and x.get("p", 0) > pid]
            if later:
                msg += " (pickers %s were built after it by the same registered builder)" % later
        prev = mine[-1] if mine else None
        if prev is not None:
            msg += "; state before: infl=%s succ=%s lag=%s" % (prev.get("infl"), prev.get("succ"), prev.get("lag"))
        case = dict(mode=mode, trace=head.get("id"), seed=ctx.seed, env=extra_env, events=[json.loads(x) for x in lines[max(start, idx - 50):idx + 1]])  # tail of the prefix; replay regenerates the trace
        ctx.disagree("C14:" + why[0], msg, case=json.dumps(case), step=idx - start, source=name)
    return res


def multi_guard(ctx, trace_path):
    """What the multi histories really exercised (counted on the recorded trace); the guard is evaluated by
    run() only when no disagreement was found."""
    cnt = dict(histories=0, two_clients_picked=0, picks_after_later_build=0, dones_after_later_build=0,
               picks_on_superseded=0, dones_on_superseded=0, pickers=0, max_alive=0)
    builds, picked = {}, set()

    def close():
        if len({builds[p]["client"] for p in picked if p in builds}) >= 2:
            cnt["two_clients_picked"] += 1
    for line in open(trace_path):
        e = json.loads(line)
        if e["ev"] == "reset":
            if cnt["histories"]:
                close()
            cnt["histories"] += 1
            builds, picked = {}, set()
        elif e["ev"] == "build":
            builds[e["p"]] = e
            cnt["pickers"] += 1
        elif e["ev"] in ("pick", "done"):
            p = e.get("p", 0)
            if p not in builds:
                continue
            if e["ev"] == "pick":
                picked.add(p)
                cnt["max_alive"] = max(cnt["max_alive"], len(picked))
            k = "picks" if e["ev"] == "pick" else "dones"
            if any(q > p for q in builds):
                cnt[k + "_after_later_build"] += 1
            if any(q > p and builds[q]["client"] == builds[p]["client"] for q in builds):
                cnt[k + "_on_superseded"] += 1
    close()
    for k, v in cnt.items():
        ctx.counters["multi." + k] = v
    return [k for k in ("two_clients_picked", "picks_after_later_build", "dones_after_later_build", "picks_on_superseded",
                        "dones_on_superseded") if cnt[k] < 20]


def idle_guard(ctx, trace_path):
    """What the idle-period histories really exercised (counted on the recorded trace): operations arriving a minute
    or more after the picker's last pick, by the number of calls in flight; the guard is evaluated by run() only when
    no disagreement was found."""
    cnt = {"histories": 0, "gap_30s": 0, "gap_1min": 0, "gap_5min": 0, "quiet_done_then_pick": 0}
    for k in (0, 1, 2):
        cnt["pick_after_1min_inflight_%d" % k] = 0
    for k in (0, 1):
        cnt["done_after_1min_inflight_%d" % k] = 0      # calls still in flight after this completion
    cnt["done_after_1min_no_pick_since_previous_done"] = 0
    last_pick = prev_t = None
    infl = 0
    done_since_pick = quiet = False
    for line in open(trace_path):
        e = json.loads(line)
        if e["ev"] == "reset":
            cnt["histories"] += 1
            last_pick = prev_t = None
            infl = 0
            done_since_pick = quiet = False
            continue
        if e["ev"] not in ("pick", "done"):
            continue
        t = e["t"]
        if prev_t is not None:
            g = t - prev_t
            for nm, lo in (("gap_5min", 300000), ("gap_1min", 60000), ("gap_30s", 30000)):
                if g >= lo:
                    cnt[nm] += 1
                    break
        prev_t = t
        far = last_pick is not None and t - last_pick >= 60000
        if e["ev"] == "pick":
            if far:
                cnt["pick_after_1min_inflight_%d" % min(infl, 2)] += 1
            if quiet:
                cnt["quiet_done_then_pick"] += 1
            infl += 1
            last_pick, done_since_pick, quiet = t, False, False
        else:
            infl -= 1
            if far:
                cnt["done_after_1min_inflight_%d" % min(infl, 1)] += 1
                if done_since_pick:
                    cnt["done_after_1min_no_pick_since_previous_done"] += 1
                    quiet = True
            done_since_pick = True
    for k, v in cnt.items():
        ctx.counters["idle." + k] = v
    return [k for k, v in cnt.items() if v < IDLE_MIN]


def stats(ctx, binp, ops):
    out = os.path.join(ctx.build, "c14stats.json")
    drive(ctx, binp, "stats", out, "stats", VERIF_C14_OPS=ops)
    allst = json.load(open(out))
    ctx.notes["stats"] = allst
    for st in allst:
        n = st["n"]
        for ph in ("phase1", "phase2"):
            if "error" in st[ph]:
                ctx.disagree("C14:" + st[ph].get("key", "pick-not-ready"), "stats run n=%d %s: %s" % (n, ph, st[ph]["error"]),
                             case=json.dumps(dict(mode="stats", seed=ctx.seed, ops=ops)), source="stats")
                return
        p1 = st["phase1"]
        dead, healthy = p1["picks"][0], min(p1["picks"][1:])
        lim = DEAD_SHARE_MAX[(n, st["dead_lat_ms"])]
        ctx.notes.setdefault("dead_share_ratio", {})["n=%d,dead_lat=%dms" % (n, st["dead_lat_ms"])] = dict(
            ratio=round(dead / max(healthy, 1), 3), flagged_at=lim)
        if dead >= lim * healthy:
            ctx.disagree("C14:dead-backend-share", "n=%d, failing backend answering in %d ms (healthy ones in 5 ms): it was picked %d times, "
                         "the least picked healthy one %d times over %d picks: ratio %.2f (flagged at >= %.2f)"
                         % (n, st["dead_lat_ms"], dead, healthy, p1["counted"], dead / max(healthy, 1), lim),
                         case=json.dumps(dict(mode="stats", seed=ctx.seed, ops=ops)), source="stats")
        if p1["succ"][0] > 500:
            ctx.disagree("C14:dead-backend-healthy", "n=%d: backend failing every call for %d picks still has score %d (> 500)"
                         % (n, st["total"], p1["succ"][0]), case=json.dumps(dict(mode="stats", seed=ctx.seed, ops=ops)), source="stats")
        for ph in ("phase1", "phase2"):
            g = max(st[ph]["max_gap_ms"])
            if g > MAX_GAP_MS:
                ctx.disagree("C14:starved", "n=%d %s: a connection stayed unpicked for %d ms under 1 kHz picks (flagged above %d ms): %s"
                             % (n, ph, g, MAX_GAP_MS, st[ph]["max_gap_ms"]),
                             case=json.dumps(dict(mode="stats", seed=ctx.seed, ops=ops)), source="stats")


def run(ctx):
    # the model checking of P2C.tla runs next to the recording / validation of the traces
    with ThreadPoolExecutor(MCPOOL) as ex:
        futs = [ex.submit(f, ctx) for f in (mc_split, mc_two, mc_one)]
        try:
            binp = ctx.go_build(PKG, OVERLAY, name="c14drv")
            traced(ctx, binp)
        finally:
            done = [f.exception() for f in futs]   # waits for all of them
    for e in done:
        if e is not None and not ctx.disagreements:
            raise e                                # a model-level problem: never a verdict about the code
        if e is not None:
            ctx.notes["model_checking_problem"] = str(e)[:2000]


def traced(ctx, binp):
    try:
        stages(ctx, binp)
    except core.Infra as e:
        # a harness problem of a later stage never hides what an earlier stage saw on the real code
        if not ctx.disagreements:
            raise
        ctx.notes["infra_after_disagreement"] = str(e)[:2000]
        core.log("harness problem after a disagreement was recorded (reported, not decisive): %s" % str(e)[:300])
        return
    if not ctx.disagreements and ctx.notes.get("multi_thin"):
        raise core.Infra("vacuous multi-picker histories: too few of %s (counters: %s)" % (
            ctx.notes["multi_thin"], {k: v for k, v in ctx.counters.items() if k.startswith("multi.")}))
    if not ctx.disagreements and ctx.notes.get("idle_thin"):
        raise core.Infra("vacuous idle-period histories: too few of %s (counters: %s)" % (
            ctx.notes["idle_thin"], {k: v for k, v in ctx.counters.items() if k.startswith("idle.")}))


def stages(ctx, binp):
    # the long streak traces are recorded and validated next to the other stages
    with ThreadPoolExecutor(1) as ex:
        fut = ex.submit(streak, ctx, binp)
        try:
            others(ctx, binp)
        finally:
            err = fut.exception()      # waits for it
    if err is not None:
        raise err


def streak(ctx, binp):
    # one backend failing every call, completions 1-5 ms apart: unhealthy after a bounded number
    st = dict(VERIF_C14_STREAK=FAILB + 2000)
    sp = os.path.join(ctx.build, "streak.ndjson")
    drive(ctx, binp, "streak", sp, "streak", **st)
    validate(ctx, sp, "trace-streak", "streak", st)


def others(ctx, binp):
    if ctx.quick:
        seq, conc, ops = dict(VERIF_C14_TRACES=300, VERIF_C14_OPS=60), dict(VERIF_C14_TRACES=24, VERIF_C14_OPS=300), 20000
    else:
        seq, conc, ops = dict(VERIF_C14_TRACES=3000, VERIF_C14_OPS=120), dict(VERIF_C14_TRACES=120, VERIF_C14_OPS=2000), 60000
    tp = os.path.join(ctx.build, "seq.ndjson")
    drive(ctx, binp, "seq", tp, "seq", **seq)
    ctx.samples += [json.loads(x) for x in open(tp).read().splitlines()[1:4]]
    validate(ctx, tp, "trace-seq", "seq", seq)
    # idle periods: 30 s, 1 min, 61 s, 5 min without a pick while 0, 1 or 2 calls are in flight, completions, picks again
    idl = dict(VERIF_C14_PAIRS=(0 if ctx.quick else 1))
    ip = os.path.join(ctx.build, "idle.ndjson")
    drive(ctx, binp, "idle", ip, "idle", **idl)
    ctx.samples += [json.loads(x) for x in open(ip).read().splitlines()[0:3]]
    validate(ctx, ip, "trace-idle", "idle", idl)
    ctx.notes["idle_thin"] = idle_guard(ctx, ip)
    # several pickers alive at once, all built by the one registered builder
    mu = dict(VERIF_C14_TRACES=(160 if ctx.quick else 1500), VERIF_C14_OPS=(100 if ctx.quick else 140))
    mp = os.path.join(ctx.build, "multi.ndjson")
    drive(ctx, binp, "multi", mp, "multi", **mu)
    ctx.samples += [json.loads(x) for x in open(mp).read().splitlines()[1:4]]
    validate(ctx, mp, "trace-multi", "multi", mu)
    ctx.notes["multi_thin"] = multi_guard(ctx, mp)
    cp = os.path.join(ctx.build, "conc.ndjson")
    drive(ctx, binp, "conc", cp, "conc", **conc)
    validate(ctx, cp, "trace-conc", "conc", conc)
    # two completions of one connection applied out of the order of the times they read
    ro = dict(VERIF_C14_TRACES=(150 if ctx.quick else 1500))
    rp = os.path.join(ctx.build, "reorder.ndjson")
    drive(ctx, binp, "reorder", rp, "reorder", **ro)
    validate(ctx, rp, "trace-reorder", "reorder", ro)
    if not ctx.quick:
        rb = ctx.go_build(PKG, OVERLAY, name="c14drv-race", race=True)
        for gmp in (2, 8):
            rp = os.path.join(ctx.build, "conc-race-%d.ndjson" % gmp)
            drive(ctx, rb, "conc", rp, "conc-race-%d" % gmp, GOMAXPROCS=gmp, **conc)
            validate(ctx, rp, "trace-conc-race-%d" % gmp, "conc", conc)
    stats(ctx, binp, ops)
    ctx.assumptions += ["virtual clock (timex.SetVerifClock) stands for elapsed time",
                        "EWMA weight bounded above by the table for decay 10 s; 1 unit truncation slack"]


def replay(ctx, rp):
    case = json.loads(rp["case"])
    binp = ctx.go_build(PKG, OVERLAY, name="c14drv")
    ctx.seed = case.get("seed", ctx.seed)
    if case["mode"] == "stats":
        stats(ctx, binp, case["ops"])
        return
    tp = os.path.join(ctx.build, "replay.ndjson")
    drive(ctx, binp, case["mode"], tp, "replay", VERIF_C14_ONLY=case["trace"], **case.get("env", {}))
    validate(ctx, tp, "trace-replay", case["mode"], case.get("env", {}))
