"""C01 - circuit breaker.  spec/Breaker.tla (abstract breaker: trailing window of recorded outcomes,
explicit coin, table of benign outcomes), spec/BreakerGen.tla (behaviour generator) -> replay on the
real lib/breaker (black-box, virtual clock, forced coin) and on the built-in integrations (HTTP
middleware, api/httpc client, sqlx, redis over miniredis, gRPC codes / client / server interceptors).
Call kinds carry the caller's acceptable-predicate as a set of accepted results (so "success iff the
predicate says so" is checked for predicates that reject nil / accept everything / accept one error),
the gRPC rows carry the error VALUE (status / wrapped / plain / context / foreign GRPCStatus type), the Allow +
Promise.Reject rows carry the class of the REASON text (short / empty / long / line breaks and verbs), the breaker name
carries how the instance was made (registry Get / New(WithName) / New())."""
import json, os, re, subprocess
from concurrent.futures import ThreadPoolExecutor
from vlib import core

ENGINE = {"internal/verifc01/engine.go": "c01/engine/engine.go",
          "internal/verifc01/grpcerr/grpcerr.go": "c01/engine/grpcerr/grpcerr.go"}
DRIVERS = {
    "core":   ("./lib/breaker", "lib/breaker/zz_verif_c01_test.go", "c01/core_test.go", "^TestVerifC01Core$"),
    "http":   ("./api/handler", "api/handler/zz_verif_c01_test.go", "c01/http_test.go", "^TestVerifC01HTTP$"),
    "httpc":  ("./api/httpc", "api/httpc/zz_verif_c01_test.go", "c01/httpc_test.go", "^TestVerifC01Httpc$"),
    "sql":    ("./lib/store/sqlx", "lib/store/sqlx/zz_verif_c01_test.go", "c01/sqlx_test.go", "^TestVerifC01SQL$"),
    "redis":  ("./lib/store/redis", "lib/store/redis/zz_verif_c01_test.go", "c01/redis_test.go", "^TestVerifC01Redis$"),
    "codes":  ("./rpc/internal/codes", "rpc/internal/codes/zz_verif_c01_test.go", "c01/codes_test.go", "^TestVerifC01Codes$"),
    "client": ("./rpc/internal/clientinterceptors", "rpc/internal/clientinterceptors/zz_verif_c01_test.go",
               "c01/client_test.go", "^TestVerifC01Client$"),
    "server": ("./rpc/internal/serverinterceptors", "rpc/internal/serverinterceptors/zz_verif_c01_test.go",
               "c01/server_test.go", "^TestVerifC01Server$"),
}
# which driver serves which api of the integration table
SQL_OPS = ("sql_exec", "sql_query", "sql_prepare", "sql_transact")
SQL_FLAVOURS = ("", "@mysql", "@custom")   # plain | withMySQLAcceptable (as NewMySQL) | user accept option accepting nothing extra
API_DRIVER = {"http": "http", "httpc": "httpc", "redis": "redis", "grpc_codes": "codes", "grpc_client": "client", "grpc_unary": "server", "grpc_stream": "server"}
API_DRIVER.update({op + fl: "sql" for op in SQL_OPS for fl in SQL_FLAVOURS})

META = dict(
    text="Model-based replay with a virtual clock and a forced coin: spec/Breaker.tla states the property (window of "
         "recorded outcomes with the resolution of the 40 x 250 ms buckets, reject only when (total-5) > 1.5 x successes "
         "and the coin agrees, rejected calls run nothing and record nothing, admitted calls record exactly one outcome, "
         "table of benign outcomes of the integrations) and is model-checked with TLC; spec/BreakerGen.tla enumerates "
         "every behaviour of bursts of calls (all Do*/Allow variants x nil/error A/error B/panic x every acceptable-"
         "predicate over those results - all 8 subsets, e.g. one that rejects nil, one that accepts everything, one that "
         "accepts a single error - and Allow + Promise.Accept / Promise.Reject(reason) for every class of reason text: "
         "short, empty, long, with line breaks / format verbs - adversarial or lenient coin) interleaved with clock advances around the ageing boundaries, over registry and private "
         "breakers (registry Get / package-level functions, New(WithName), New()) incl. NoBreakerFor and parallel bursts, "
         "a family of promise-only behaviours (every reason class opening a burst on each kind of instance), plus seeded long simulations; every call is executed on the "
         "real breaker through its public API and compared with the prediction: protected function ran, fallback ran "
         "and its argument, returned error / re-raised panic, whether the coin was consulted and the exact drop "
         "probability (which reveals successes/total black-box). The same engine replays the integration table "
         "through api/handler.BreakerHandler, api/httpc (Service.Do against a loopback server answering 2xx-5xx and "
         "against a refused connection), sqlx.Conn, redis.Redis over miniredis, rpc/internal/codes and the "
         "client/server breaker interceptors; the gRPC rows range over error values (nil, status errors of all codes, "
         "%w-wrapped status errors, foreign error types with GRPCStatus(), a plain Go error, context.Canceled / "
         "DeadlineExceeded as plain errors), classified by the code grpc's status.Code assigns to the value.",
    note="Trusted: TLC, Go runtime, the two verif hooks (timex clock, mathx coin), miniredis, httptest. The window is "
         "decided with bucket resolution (an outcome is in the trailing window while its 250 ms bucket, aligned to the "
         "breaker's creation, is among the last 40), so 'trailing 10 s' means 9.75-10 s depending on phase. 'Cut off "
         "with probability approaching 1' is decided as: the probability handed to the coin equals "
         "(total-5-1.5*successes)/(total+1); the coin itself (math/rand) is not sampled. Concurrency: (a) parallel bursts "
         "from 8 goroutines with the coin at 'never reject' (calls commute; totals checked by the final probe; under "
         "-race in the thorough tier), (b) code->spec trace validation with the race detector on: 2-4 goroutines call "
         "one breaker with a seeded coin, the inv/coin/req/fb/ret events are validated by TLC against "
         "spec/BreakerTrace.tla, which places the unlogged window read and outcome mark of every call; the schedules "
         "are those the Go scheduler produced, not all. The ring mechanism of the rolling window (offset/lastTime) is "
         "not modelled here (RollingWindowImpl belongs to C09). "
         "gRPC rows: the code of an error value is the one status.Code of the grpc version in go.mod assigns (a plain or "
         "context error: Unknown, benign; a %w-wrapped status error: Unknown before grpc 1.55, the wrapped code after - "
         "constant GrpcUnwraps; the drivers stop with a harness error if the linked library disagrees with the table). "
         "api/httpc: 1xx interim responses never reach the caller and are not generated; 'refused' is a dial error "
         "injected in the client's transport dialer. A vacuity guard (only when nothing disagreed) requires that all 64 "
         "(predicate, result) kinds, every integration row and Accept / Reject(every reason class) on each of the three "
         "kinds of breaker instance were executed. The text of a Reject reason and the text of an error (each error class "
         "of the core rows has values with a short, an empty and a long message, picked per call from the seed) are "
         "diagnostic only: the content of the error report of the logging wrapper (stat.Report) is not checked. "
         "A promise that is neither accepted nor rejected, scan errors of sqlx and the MySQL duplicate-"
         "entry error (benign only by option, not listed by the statement: either classification is accepted, so it "
         "is not generated) are outside the statement. The sqlx table runs every operation x outcome on three "
         "connection flavours: plain, with the MySQL accept option (built in-package as NewMySQL does), with a "
         "user accept option that accepts nothing extra - the benign outcomes must be benign on all of them. Bounds: <= 4-5 macro-steps exhaustively, "
         "bursts of 1..20 calls, 2 names; simulations up to 14 macro-steps (250 / 1050 behaviours).",
    technique="TLA+ spec (Breaker) model-checked with TLC + TLC-generated behaviours replayed on the real breaker and "
              "its integrations (virtual clock, forced coin) + TLC trace validation of concurrent histories (BreakerTrace)",
    design="4/C01")

FINISH = dict(rule="behaviours = complete TLC enumeration (BFS over the history variable) of macro-steps "
                   "[burst of n calls | clock advance | NoBreakerFor] up to MaxSteps, each closed by a probe that reveals "
                   "(successes,total); plus seeded TLC simulation of longer behaviours; plus one behaviour per "
                   "(integration, outcome) of the benign table; plus the complete enumeration of promise-only behaviours "
                   "(Accept / Reject x 4 reason classes x 3 kinds of breaker instance, every rotation of the reasons); every call of every behaviour is compared with the "
                   "specification's prediction; traces = concurrent histories (one fresh breaker, 2-4 goroutines x 1-3 calls "
                   "between sequential preload and probe calls) validated event by event against BreakerTrace.tla")

REAL = dict(Size=40, Q=4, K2=3, Prot=5, Kinds="CoreKinds")

GRPC = ["OK", "Canceled", "Unknown", "InvalidArgument", "DeadlineExceeded", "NotFound", "AlreadyExists", "PermissionDenied",
        "ResourceExhausted", "FailedPrecondition", "Aborted", "OutOfRange", "Unimplemented", "Internal", "Unavailable",
        "DataLoss", "Unauthenticated"]
# error kinds of the gRPC rows (spec/Breaker.tla GrpcCode: n = 100 * kind + code)
GRPC_STATUS, GRPC_WRAPPED, GRPC_PLAIN, GRPC_CTX_CANCELED, GRPC_CTX_DEADLINE, GRPC_FOREIGN = range(6)
HTTPC_QUICK = [200, 201, 204, 301, 400, 404, 429, 499, 500, 501, 502, 503, 504, 599]
HTTP_QUICK = [100, 101, 199, 200, 201, 204, 301, 304, 400, 401, 403, 404, 418, 429, 451, 499, 500, 501, 502, 503, 504, 505, 511, 599]
SQL_OUTCOMES = ["nil", "norows", "txdone", "canceled", "deadline", "other"]
REDIS_OUTCOMES = ["nil", "rednil", "canceled", "other", "down"]


def kd(api, oc, n=0):
    return 'Kd("%s","%s",%d)' % (api, oc, n)


def grpc_unwraps():
    """Does status.Code of the grpc version /repo is built with look through %w wrapping (grpc >= 1.55)?  A fact of the
    library, bound to the spec's constant GrpcUnwraps; the gRPC drivers re-check the spec's table against the linked library."""
    try:
        m = re.search(r"^\s*google\.golang\.org/grpc\s+v(\d+)\.(\d+)", open(os.path.join(core.REPO, "go.mod")).read(), re.M)
    except OSError as e:
        raise core.Infra("cannot read go.mod of the tree under test: %s" % e)
    if not m:
        raise core.Infra("no google.golang.org/grpc requirement in go.mod of the tree under test")
    return (int(m.group(1)), int(m.group(2))) >= (1, 55)


def grpc_rows():
    """(label, n) of every error value of the gRPC rows: nil and the 16 status errors, each status error wrapped with %w,
    each code carried by a foreign error type with GRPCStatus(), a plain Go error, the two context errors as plain errors."""
    rows = [(nm, 100 * GRPC_STATUS + i) for i, nm in enumerate(GRPC)]
    rows += [("wrapped:" + nm, 100 * GRPC_WRAPPED + i) for i, nm in enumerate(GRPC) if i > 0]
    rows += [("foreign:" + nm, 100 * GRPC_FOREIGN + i) for i, nm in enumerate(GRPC)]
    rows += [("plain", 100 * GRPC_PLAIN), ("context.Canceled", 100 * GRPC_CTX_CANCELED),
             ("context.DeadlineExceeded", 100 * GRPC_CTX_DEADLINE)]
    return rows


def integ_kinds(ctx):
    ks = []
    codes = HTTP_QUICK if ctx.quick else range(100, 600)
    ks += [kd("http", str(c), c) for c in codes] + [kd("http", "implicit", 200)]
    # api/httpc: 1xx are interim responses the Go client never hands to the caller
    ks += [kd("httpc", str(c), c) for c in (HTTPC_QUICK if ctx.quick else range(200, 600))] + [kd("httpc", "refused", 0)]
    for api in ("grpc_codes", "grpc_client", "grpc_unary", "grpc_stream"):
        ks += [kd(api, nm, n) for nm, n in grpc_rows()]
    for op in SQL_OPS:
        for fl in SQL_FLAVOURS:
            ks += [kd(op + fl, oc) for oc in SQL_OUTCOMES]
    ks += [kd("redis", oc) for oc in REDIS_OUTCOMES]
    return ks


def gen(ctx, name, names='{"a"}', reg='{"a"}', maxsteps=3, ns="{1,6,20}", ds="{1,3,4,156,157,159,160}", rots="{0}",
        parns="{}", coins="{TRUE,FALSE}", advadv=False, dis=False, integ="{}", simulate=None, depth=None, timeout=1500,
        succ="CoreKindsSucc", fail="CoreKindsFail", workers=6, heap="6g"):
    K = dict(REAL, Names=names, RegNames=reg, MaxSteps=maxsteps, Ns=ns, Ds=ds, Rots=rots, ParNs=parns,
             GrpcUnwraps=grpc_unwraps(), SuccSeq=succ, FailSeq=fail, Coins=coins, AdvAdv=advadv, WithDisable=dis, IntegKinds=integ)
    cfg = core.render_cfg(spec="GSpec", constants=K, invariants=["Emit"])
    r = ctx.tlc("BreakerGen", cfg, constants=K, name=name, simulate=simulate, depth=depth, timeout=timeout,
                workers=(1 if simulate else workers), heap=heap)
    return r.printed


def mc(ctx):
    K = dict(Names='{"a","b"}', RegNames='{"a"}', Size=3, Q=2, K2=3, Prot=1, GrpcUnwraps=grpc_unwraps())
    # doacc ok 6: a predicate that rejects nil (failure although the error is nil); grpc_unary plain: a business error
    kinds = ['Kd("do","ok",0)', 'Kd("do","panic",0)', 'Kd("doacc","acc",3)', 'Kd("dofb","err",0)', 'Kd("allow","reject",0)',
             'Kd("doacc","ok",6)', 'Kd("http","499",499)', 'Kd("grpc_unary","Internal",13)', 'Kd("grpc_unary","plain",200)',
             'Kd("sql_exec","norows",0)']
    if not ctx.quick:
        # allow reject 1: Promise.Reject with an empty reason
        kinds += ['Kd("dofbacc","acc",3)', 'Kd("http","500",500)', 'Kd("redis","other",0)', 'Kd("allow","reject",1)']
    K["Kinds"] = "{" + ", ".join(kinds) + "}"
    props = ["RejectOnlyOnExcess", "AgedOut", "KeepsFailing", "RejectedRunsNothing", "AdmittedRecordsOne",
             "BenignNeverTowardsOpen", "NopNeverRejects"]
    cfg = core.render_cfg(spec="Spec", constants=K, invariants=["TypeOK", "OnlySuccessNeverRejectable"], properties=props,
                          constraints=["Bound"], view="core")
    bound = 4 if ctx.quick else 5
    r = ctx.tlc("Breaker", cfg, constants=K, defs=dict(Bound='T("a") + T("b") <= %d' % bound), name="Breaker-mc",
                timeout=1500, workers=6, coverage=not ctx.quick)
    ctx.notes["mc_bounds"] = "Size=3 Q=2 Prot=1 K2=3, 2 names, %d kinds, total outcomes in windows <= %d" % (len(kinds), bound)
    ctx.notes["mc_properties"] = ["TypeOK", "OnlySuccessNeverRejectable"] + props
    if ctx.quick:
        return
    # vacuity guard (thorough tier: -coverage costs about a third of the run) (own parser: TLC prints "<Call line .. of module Breaker (145 6 147 88)>: distinct:total")
    cov = {}
    for line in open(os.path.join(ctx.build, "tlc-Breaker-mc", "tlc.out"), errors="replace"):
        m = re.match(r"^<(\w+) line \d+, col \d+ to line \d+, col \d+ of module Breaker[^>]*>: (\d+):(\d+)", line)
        if m:
            cov[m.group(1)] = int(m.group(3))
    missing = [a for a in ("Call", "Advance", "Disable") if cov.get(a, 0) == 0]
    if missing:
        raise core.Infra("vacuous model: actions never taken: %s (%s)" % (missing, cov))
    ctx.notes["mc_action_coverage"] = cov


def overlay(*drivers):
    ov = dict(ENGINE)
    for d in drivers:
        ov[DRIVERS[d][1]] = DRIVERS[d][2]
        if d == "core":
            ov["lib/breaker/zz_verif_c01_trace_test.go"] = "c01/trace_test.go"
    return ov


def record_and_validate(ctx, binp, label, rounds, gomaxprocs, shard):
    """code -> spec: record concurrent histories on the real breaker, validate them with TLC (BreakerTrace.tla)."""
    path = os.path.join(ctx.build, "trace-%s.ndjson" % label)
    e = dict(os.environ)
    e.update(core.GOENV)
    e.update(VERIF_SEED=str(ctx.seed), VERIF_TRACE=path, VERIF_ROUNDS=str(rounds), VERIF_SHARD=str(shard), GOMAXPROCS=str(gomaxprocs))
    p = subprocess.run([binp, "-test.run", "^TestVerifC01Trace$", "-test.count=1", "-test.timeout", "600s"],
                       cwd=os.path.join(core.REPO, "lib/breaker"), env=e, capture_output=True, text=True, timeout=700)
    out = p.stdout + p.stderr
    if "DATA RACE" in out:
        ctx.disagree("C01:data-race", "race detector report while calling one breaker from several goroutines:\n" + out[-3000:],
                     source="race")
        return
    if p.returncode != 0 or "C01TRACES" not in out:
        raise core.Infra("C01 trace recorder failed rc=%s\n%s" % (p.returncode, out[-3000:]))
    acc, rej = ctx.validate_traces("BreakerTrace", path, key_prefix="C01:trace", invariants=["Inv_OnlySuccess", "Inv_Counts"],
                                   name="trace-" + label, timeout=1500)
    if len(ctx.samples) < 5:
        ctx.samples.append([json.loads(x) for x in open(path).read().splitlines()[:16]])


def replay_chunks(ctx, drv, binp, cases, label, chunk=30000, shards=8):
    pkg, _, _, run = DRIVERS[drv]
    for i in range(0, len(cases), chunk):
        lab = label if len(cases) <= chunk else "%s.%d" % (label, i // chunk)
        path, _ = ctx.write_cases(lab + ".ndjson", cases[i:i + chunk])
        cnt, _ = ctx.replay(pkg, overlay(drv), run, path, label=lab, shards=min(shards, max(1, len(cases[i:i + chunk]) // 20)), binp=binp)
        for k, v in cnt.items():
            if k.startswith("kind."):
                KIND_COUNTS[k[5:]] = KIND_COUNTS.get(k[5:], 0) + v
            elif k.startswith("pkind."):
                KIND_COUNTS["@" + k[6:]] = KIND_COUNTS.get("@" + k[6:], 0) + v


REASONS = (0, 1, 2, 3)   # classes of the reason handed to Promise.Reject (spec/Breaker.tla: short, empty, long, line breaks / verbs)
KIND_COUNTS = {}   # "api.oc.n" -> calls of that kind executed sequentially on the real code (reported by the drivers)


def vacuity(ctx, ks):
    """Every call kind the check claims to exercise was really executed: all 64 (predicate, result) kinds of the two
    predicate-taking forms, the kinds without a predicate, every row of the integration table.  Only evaluated when no
    disagreement was found (a harness guard must never hide a verdict)."""
    if ctx.disagreements:
        return
    want = ["%s.%s.%d" % (api, oc, n) for api in ("doacc", "dofbacc") for oc in ("ok", "acc", "err", "panic") for n in range(8)]
    want += ["%s.%s.0" % (api, oc) for api in ("do", "dofb") for oc in ("ok", "acc", "err", "panic")]
    want += ["allow.accept.0"] + ["allow.reject.%d" % r for r in REASONS]
    # the promise family on every kind of breaker instance (first letter of the name: a = registry Get,
    # p = New(WithName), q = New()): Accept and Reject with every class of reason
    want += ["@%s.%s" % (nm, k) for nm in "apq" for k in ["accept.0"] + ["reject.%d" % r for r in REASONS]]
    for k in ks:
        m = re.match(r'Kd\("([^"]*)","([^"]*)",(\d+)\)$', k)
        want.append("%s.%s.%s" % m.groups())
    missing = [w for w in want if KIND_COUNTS.get(w, 0) == 0]
    if missing:
        raise core.Infra("vacuous replay: %d call kinds were never executed, e.g. %s" % (len(missing), missing[:8]))
    ctx.notes["call_kinds_executed"] = len(want)


def settle(ctx, fut):
    """Result of a background job; its harness problem must not hide a disagreement found meanwhile."""
    try:
        return fut.result()
    except core.Infra as e:
        if ctx.disagreements:
            core.log("background job failed after a disagreement was found (ignored): %s" % str(e)[:300])
            return None
        raise


def first_api(case):
    return json.loads(case)[0]["calls"][0][0]


def run(ctx):
    ctx.assumptions += [
        "the trailing window has the resolution of the implementation's buckets (40 x 250 ms aligned to the breaker's creation)",
        "the coin is forced through mathx.SetVerifCoin (true = a draw below any positive probability, false = a draw above "
        "any probability); the distribution of math/rand is trusted",
        "outcomes not listed as benign by the statement (HTTP >= 500, the five gRPC codes, other sql/redis errors) are "
        "expected to count as failures (otherwise 'one that keeps failing is cut off' could not hold for the integration)",
    ]
    KIND_COUNTS.clear()
    # the quick tier has to fit in about two minutes: the driver builds run beside the model checking, the
    # single-worker simulations beside the exhaustive generation (go builds one after the other: ctx.go_build
    # numbers its overlay files)
    pool = ThreadPoolExecutor(3)
    fbins = pool.submit(lambda: {d: ctx.go_build(DRIVERS[d][0], overlay(d), name="c01" + d) for d in DRIVERS})
    mc(ctx)
    bins = settle(ctx, fbins)

    # ---------------------------------------------------------------- core: exhaustive
    ctx.exhaustive = True
    # gP: the acceptable-predicate family - every (predicate, result) of DoWithAcceptable / DoWithFallbackAcceptable
    # (and their registry forms) meets a closed window, a rejectable window with a lenient and with an adversarial coin
    pred = dict(succ="PredKindsSucc", fail="PredKindsFail")
    # gW: the promise family - Allow + Accept / Reject(reason) for every class of reason (short, empty, long, line
    # breaks / format verbs) on every kind of breaker instance (a = registry Get, p = New(WithName), q = New()): every
    # reason opens a burst (Rots), on a closed and on a rejectable window with both coins; NoBreakerFor on the registry name
    prom = dict(succ="PromiseKindsSucc", fail="PromiseKindsFail", names='{"a","p","q"}', dis=True, workers=2, heap="2g")
    if ctx.quick:
        wplan = dict(prom, maxsteps=2, ns="{1,9}", ds="{160}", rots="{0,1,2,3}")
    else:
        wplan = dict(prom, maxsteps=2, ns="{1,2,9,20}", ds="{3,160}", rots="{0,1,2,3}")
    if ctx.quick:
        plans = [("gA", dict(maxsteps=4, ns="{1,6,20}", ds="{1,3,157,159,160}")),
                 ("gB", dict(names='{"a","p"}', maxsteps=3, ns="{2,7}", ds="{3,160}", parns="{8}", dis=True)),
                 ("gP", dict(pred, maxsteps=2, ns="{1,8,20}", ds="{160}", rots="{0,6,12,18,24,30,36}"))]
        sims = [("sA", dict(names='{"a","p"}', maxsteps=10, ns="{1,2,5,6,7,13,20}", ds="{1,2,3,4,39,80,156,157,158,159,160,161,400}",
                            parns="{8}", dis=True, advadv=True, rots="{0,3,6}"), 250, 12)]
    else:
        plans = [("gA", dict(maxsteps=4, ns="{1,5,6,7,20}", ds="{1,3,4,156,157,159,160}")),
                 ("gA5", dict(maxsteps=5, ns="{6,13}", ds="{3,157,160}")),
                 ("gB", dict(names='{"a","p"}', maxsteps=3, ns="{1,7}", ds="{3,159,160}", parns="{8}", dis=True, rots="{0,4}")),
                 ("gK", dict(maxsteps=2, ns="{1,9,20}", ds="{160}", rots="{0,5,9,14,18,23,27,32,36,41}")),
                 ("gP", dict(pred, maxsteps=2, ns="{1,2,8,20}", ds="{3,160}", rots="{0,3,6,9,12,15,18,21,24,27,30,33,36,39}")),
                 ("gP3", dict(pred, names='{"a","p"}', maxsteps=3, ns="{7}", ds="{160}", rots="{0,14,28}", dis=True))]
        sims = [("sA", dict(names='{"a","p"}', maxsteps=14, ns="{1,2,5,6,7,13,20}", ds="{1,2,3,4,39,80,156,157,158,159,160,161,400}",
                            parns="{8,40}", dis=True, advadv=True, rots="{0,3,6}"), 800, 16),
                ("sB", dict(names='{"a","b","p"}', reg='{"a","b"}', maxsteps=10, ns="{1,6,20,40}", ds="{1,3,120,157,159,160}",
                            parns="{16}", dis=True, advadv=True, rots="{0,4}"), 250, 12)]
    fsims = [(name, pool.submit(gen, ctx, name, simulate=num, depth=depth, **kw)) for name, kw, num, depth in sims]
    # (after the simulations: they are the long pole of the pool)
    fw = [("gW", pool.submit(gen, ctx, "gW", **wplan))]
    if not ctx.quick:
        fw.append(("gW3", pool.submit(gen, ctx, "gW3", **dict(prom, maxsteps=3, ns="{9}", ds="{160}", rots="{0,1,2,3}"))))
    for name, kw in plans:
        cases = gen(ctx, name, **kw)
        ctx.samples += core.sample_of(cases, 1)
        replay_chunks(ctx, "core", bins["core"], cases, name)
    for name, fut in fw + fsims:
        cases = settle(ctx, fut)
        if cases is None:
            continue
        ctx.samples += core.sample_of(cases, 1)
        replay_chunks(ctx, "core", bins["core"], cases, name)
    pool.shutdown()

    # ---------------------------------------------------------------- concurrency: code -> spec trace validation
    # (several goroutines on one breaker, seeded coin; TLC places the window reads and the outcome marks)
    pkg, _, _, runre = DRIVERS["core"]
    rb = ctx.go_build(pkg, overlay("core"), race=True, name="c01core-race")
    if ctx.quick:
        for i, gmp in enumerate((4, 16)):
            record_and_validate(ctx, rb, "g%d" % gmp, 120, gmp, i)
    else:
        for i, gmp in enumerate((1, 2, 4, 8, 16)):
            record_and_validate(ctx, rb, "g%d" % gmp, 400, gmp, i)
        # race detector on the parallel bursts of the replay driver
        cases = gen(ctx, "gR", names='{"a","p"}', maxsteps=3, ns="{7}", ds="{160}", parns="{8,40}", dis=True)
        path, _ = ctx.write_cases("gR.ndjson", cases)
        ctx.replay(pkg, overlay("core"), runre, path, label="gR-race", shards=4, binp=rb, race=True)

    # ---------------------------------------------------------------- integration table
    ks = integ_kinds(ctx)
    cases = gen(ctx, "gI", names='{"x"}', reg="{}", maxsteps=2, ns="{7}", ds="{}", integ="{" + ", ".join(ks) + "}")
    if len(cases) != len(ks):
        raise core.Infra("integration table: %d kinds but %d behaviours generated" % (len(ks), len(cases)))
    by = {}
    for c in cases:
        by.setdefault(API_DRIVER[first_api(c)], []).append(c)
    ctx.notes["integration_table"] = {d: len(v) for d, v in sorted(by.items())}
    for d, cs in sorted(by.items()):
        ctx.samples += core.sample_of(cs, 1)[:1] if d in ("http", "sql") else []
        replay_chunks(ctx, d, bins[d], cs, "int-" + d, shards=(4 if len(cs) > 100 else 1))
    vacuity(ctx, ks)


def replay(ctx, rp):
    case = rp["case"]
    label = rp.get("label") or ""
    if rp.get("source") == "trace":
        path = os.path.join(ctx.build, "replay.ndjson")
        open(path, "w").write("\n".join(json.loads(case)) + "\n")
        ctx.validate_traces("BreakerTrace", path, key_prefix="C01:trace", invariants=["Inv_OnlySuccess", "Inv_Counts"], name="replay")
        return
    drv = "core"
    if label.startswith("int-"):
        drv = label[4:].split(".")[0]
    path, _ = ctx.write_cases("replay.ndjson", [case])
    pkg, _, _, runre = DRIVERS[drv]
    ctx.replay(pkg, overlay(drv), runre, path, label="replay")
