"""C01 - circuit breaker (work in progress)"""
from vlib import core

CORE_K = dict(Names='{"a","b"}', RegNames='{"a"}', Size=3, Q=2, K2=3, Prot=1, Kinds="CoreKinds")


def mc(ctx):
    K = dict(CORE_K)
    K["Kinds"] = ('{Kd("do","ok",0), Kd("do","panic",0), Kd("doacc","acc",0), Kd("doacc","err",0), Kd("dofb","err",0), '
                  'Kd("dofbacc","acc",0), Kd("allow","accept",0), Kd("allow","reject",0), Kd("http","499",499), Kd("http","500",500), '
                  'Kd("grpc_unary","Internal",13), Kd("grpc_unary","NotFound",5), Kd("sql_exec","norows",0), Kd("redis","other",0)}')
    cfg = core.render_cfg(spec="Spec", constants=K, invariants=["TypeOK", "OnlySuccessNeverRejectable"],
                          properties=["RejectOnlyOnExcess", "AgedOut", "KeepsFailing", "RejectedRunsNothing",
                                      "AdmittedRecordsOne", "BenignNeverTowardsOpen", "NopNeverRejects"],
                          constraints=["Bound"], view="core")
    return ctx.tlc("Breaker", cfg, constants=K, defs=dict(Bound="T(\"a\") + T(\"b\") <= 5"), name="Breaker-mc",
                   timeout=600, workers=6)


def run(ctx):
    mc(ctx)
