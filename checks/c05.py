"""C05 - unmarshalling of configs and requests is exact, validated and panic-free.
spec/UnmarshalContract.tla (the relation Allowed) + spec/UnmarshalContractGen.tla (case enumeration,
sanity theorems) -> harness/c05/unmarshal_test.go (reflect.StructOf types, every rendering of the
document, the real mapping / conf / httpx / httpc functions inside recover(), membership test)."""
import concurrent.futures as cf
from vlib import core

PKG = "./lib/mapping"
OVERLAY = {"lib/mapping/zz_verif_c05_test.go": "c05/unmarshal_test.go"}
RUN = "^TestVerifC05$"

META = dict(
    text="Relational TLA+ specification: UnmarshalContract.tla defines kinds, tag options, symbolic literals "
         "(decimal texts with class / integrality / float-exactness attributes and one total order over all numeric "
         "values that occur, so that 'fits the kind' and 'inside the range' are order comparisons although TLC "
         "integers are 32 bit) and Allowed(kind, options, document, source) = the set of outcomes {error, exact value, "
         "anything-but-panic} the statement permits. TLC enumerates every (shape, options, document) of the bounded "
         "catalogue (single fields of all 15 kinds x 19 option sets x 60 literals x pointer x typed/text source; "
         "pairs, embedded, slices, maps, nested structs, inherit, container shapes = every word over slice-of / "
         "map[string]-of / pointer-to with one or two container levels around an element kind x document trees in which "
         "one node at any depth is replaced by a scalar / bool / string / null / list / object (ShapeAllowed: exact "
         "elements, an ill-typed node must fail, null = no panic) x {structure, JSON text in a string member, JSON text "
         "as form / path / header value}, client->server round trips with strings that URLs / "
         "queries / headers / JSON must escape, round trips whose members carry range= (the four bracket combinations), "
         "options=, optional, default= and `,string` with client values on / next to / off the bounds, and two-call cases: same type and document twice, slices with "
         "default=[..] included, the caller editing the first result in place in between), checks the sanity "
         "theorems of the relation on each and prints each case as JSON. The Go driver builds the struct type with "
         "reflect.StructOf, renders the document as JSON, YAML, map[string]any, conf documents with exact / "
         "snake_case / other-initial-case keys, form / path / header values or an httpc request against an "
         "httptest server, calls the real functions inside recover() and checks membership, JSON = YAML, "
         "key-spelling equality, round-trip equality and independence of the order of calls (two shuffled passes).",
    note="The statement's 'either fails or yields exact values' is read with an acceptance core: a value of the "
         "field's own class that fits the kind and satisfies options=/range= must be accepted (otherwise the "
         "equality clauses would be vacuous). Both outcomes {error, exact value} are allowed for: float-syntax "
         "integers into ints (1.0, 1e2), numeric strings without `,string`, numbers with `,string`, \"true\" into "
         "bool, decimal fractions a binary float only approximates (value = correctly rounded float), uint64 above "
         "2^63-1, Duration from text sources and inside containers, absent required containers (absent = empty "
         "tolerated), any field with env= set (value of the variable - subject to options=/range= like any value - "
         "the document's value or an error), zero-padded decimal strings (\"010\": refused or the decimal reading 10, "
         "never 8), Go-syntax spellings (\"0x1F\", \"0b11\", \"0o17\", \"1_000\": refused or the number the spelling "
         "denotes, because the statement does not fix the numeric syntax of text values; float kinds: no panic only), "
         "a default outside the field's own range=/options= (contradictory tag: the default or an error), "
         "a container written as JSON text inside a string member of a typed document, and a nesting of two container "
         "levels written into one form / path / header value (the statement does not say how these are written; a "
         "one-level container in a text source has no other spelling and must be taken; in every spelling an ill-typed "
         "or non-fitting element must fail and nothing may panic), an empty list / object into a pointer-to-container "
         "(nil pointer or pointer to the empty container). Only "
         "panic-freedom is checked for null, a bare number or unit-less numeric string into a Duration, a number "
         "into a string field, 0/1 into a bool. Not claimed: JSON = YAML for null / empty YAML values (the YAML "
         "bridge hands them on as the string \"\", inherited behaviour) and for 1e400 (a string in YAML); Duration "
         "and container fields in the httpc->httpx round trip (httpc renders them with fmt.Sprint / as nanoseconds, "
         "which httpx does not read back); pointer members of a request struct other than unconstrained non-nil ones in "
         "the json part (mapping.Marshal validates and renders the pointer itself: range= fails with 'unsupported type "
         "*int', options= and `,string` see the address as text - inherited behaviour, observed, not generated); a "
         "member outside its own options=/range= must make the round trip fail on either side, except an optional "
         "member held at its zero value (the client may leave it out: equal struct, or send it: error); map keys that conf's key canonicalisation would rewrite; range bounds "
         "beyond small integers (the code compares in float64); optional=dep, embedded optional structs, arrays, "
         "container shapes with three or more container levels, pointer to pointer, map keys other than string, tag options "
         "other than optional on a nested container member, a header sent with several values (the parser then hands on a "
         "[]string instead of text), "
         "TextUnmarshaler fields, multipart forms, conf.Load from files / env expansion; in the round trip '/', '.', "
         "'..', the empty string and control characters as path / header values (the part cannot carry them); in the "
         "two-call family aliasing between a caller-supplied map and the result (every call gets a freshly rendered "
         "document) and one default text shared by a []string and a []bool field (the process-wide cache of parsed "
         "slice defaults is keyed by the text alone: `[]bool default=[true]` used first makes `[]string "
         "default=[true]` fail with a type mismatch - inherited behaviour, observed, not generated); native Go values (int, "
         "float64) inside the map given to UnmarshalKey (json.Number is used, as the JSON layer produces). int and "
         "uint are taken as 64 bit. The numeric axioms of the specification (order of Points, literal attributes, "
         "kind bounds) are re-derived by the driver with math/big / strconv on every run (mismatch = exit 2). "
         "Trusted: TLC, reflect.StructOf, strconv.ParseFloat / math/big as the reference conversion of a decimal text.",
    technique="TLA+ relational spec (Allowed as a set of outcomes) + exhaustive TLC case enumeration replayed on the real functions",
    design="4/C05")

FINISH = dict(rule="cases = complete TLC enumeration (one initial state per case, every distinct case printed once) of the "
                   "bounded catalogue per family; every case is executed through every applicable API rendering "
                   "(typed: UnmarshalJsonBytes, UnmarshalKey, UnmarshalYamlBytes, conf.LoadFromJsonBytes x 3 spellings, "
                   "conf.LoadFromYamlBytes; text: ParseForm, Parse, ParsePath, ParseHeaders; roundtrip: httpc.Do -> "
                   "router -> httpx.Parse after a config load; rtopt: the same with every member optional,default=<non-zero> "
                   "and the client value zero / default / other; rtcons: the same with a focus member (path, form, header, "
                   "json in turn) over every numeric kind, string, bool x {plain, optional, default, range [..] (..) [..) (..], "
                   "options, optional+range, optional+options, default+range, default+options, `,string`, pointer} x values "
                   "on, next to and off the bounds while the other three members share one valid or outside value; deep: all typed APIs and the three conf spellings on "
                   "[][]T, []map[string]T, map[string][]T, [][]map[string]T, []*T with a null first element; shapes: all typed APIs "
                   "and the three conf spellings (structure and string member), ParseForm / Parse / ParsePath / ParseHeaders "
                   "(JSON text) on the 40 type words x element kinds x replaced-node documents; history: conf.Load* first, then UnmarshalJsonBytes, UnmarshalKey, "
                   "UnmarshalYamlBytes, httpx.Parse with a JSON body on keys spelt snake_case / Upper-initial / mixed / "
                   "lowerCamel; twice: every typed API called twice with the same document, the first "
                   "result edited in place and appended to in between) twice in seeded random order; steps = API calls judged")

ALLK = ['"bool"', '"int8"', '"int16"', '"int32"', '"int64"', '"int"', '"uint8"', '"uint16"', '"uint32"', '"uint64"',
        '"uint"', '"float32"', '"float64"', '"string"', '"duration"']
ALLO = ["req", "opt", "def", "defbig", "options", "optbig", "rcc", "roo", "rco", "roc", "rhi", "rlo", "optrange",
        "str", "stropts", "defopts", "defrange", "env5", "env300"]
NLITS = 74

# literal indices (see Lits in UnmarshalContract.tla)
L = {"0": 1, "1": 2, "2": 3, "5": 4, "7": 5, "10": 6, "-1": 7, "127": 8, "128": 9, "-128": 10, "-129": 11, "255": 12,
     "256": 13, "300": 14, "65536": 20, "2^31": 23, "2^53+1": 28, "2^63-1": 29, "2^63": 30, "2^64-1": 33, "2^64": 34,
     "0.1": 35, "0.5": 36, "1.5": 37, "1.0": 38, "5.0": 39, "1e2": 40, "3.5e38": 43, "1e39": 44, "1e400": 46,
     "true": 47, "false": 48, "abc": 49, "xyz": 50, "a b&c=d": 51, '"10"': 52, '"300"': 53, '"true"': 55, "10s": 56,
     "1h": 57, "null": 58, "[1]": 59, "{x:1}": 60,
     "hello world": 61, "100%": 62, "a+b": 63, "x&y=z?w#v": 64, "nihao": 65, 'say "hi"': 66,
     '"010"': 67, '"0100"': 68, '"-010"': 69, '"007"': 70, '"0x1F"': 71, '"0b11"': 72, '"0o17"': 73, '"1_000"': 74}
# "env_0" (env=V with V=0): on an int64 field it made processFieldWithEnvValue panic (its switch took every Int64
# for a Duration; "0" is the one unit-less text time.ParseDuration accepts) - repaired in /repo e9e021b.
L['""'] = 75   # the empty string: only offered where a plan lists it (NLITS stays 74 for "all literals")
L["4"], L["6"] = 76, 77   # neighbours of the range bound 5 (offered by the round-trip constraint family)
RTIDS = ["req", "opt", "def", "optdef", "rcc", "roo", "rco", "roc", "options", "optrcc", "optroc", "optopts",
         "defrange", "defopts", "str"]
COMBO = ["env_0", "er_m1", "er_1", "er_5", "er_7", "er_300", "eoc_1", "eoc_5", "eo_1", "eo_7", "defz", "defrout", "defoout"]
NUMK = [k for k in ALLK if k not in ('"bool"', '"string"', '"duration"')]
ESC = ("hello world", "100%", "a+b", "x&y=z?w#v", "nihao", 'say "hi"')


def S(xs):
    return "{" + ", ".join(str(x) for x in xs) + "}"


def Q(xs):
    return "{" + ", ".join(x if x.startswith('"') else '"%s"' % x for x in xs) + "}"


def lits(*names):
    return S(sorted(L[n] for n in names))


def job(name, family, kinds, opts, litidx, kinds2='{"int8"}', opts2='{"req"}', litidx2="{4}"):
    return dict(name=name, K=dict(Family='"%s"' % family, Kinds=kinds, OptIds=opts, LitIdx=litidx,
                                  Kinds2=kinds2, OptIds2=opts2, LitIdx2=litidx2))


def split_kinds(kinds, n):
    groups = [kinds[i::n] for i in range(n)]
    return [g for g in groups if g]


def plans(ctx):
    """-> list of (family label, [jobs])"""
    allk, allo, alll = ALLK, Q(ALLO), "1..%d" % NLITS
    out = [("axioms", [job("axioms", "axioms", Q(["int8"]), Q(["req"]), "{4}")])]
    # round trip of members tagged optional,default=<non-zero>: client value = zero / default / other
    rto = lits("0", "5", "7", "true", "false", '""', "abc", "xyz")
    rtk = ["int8", "bool", "string"] if ctx.quick else ["int8", "int64", "bool", "string"]
    out.append(("rtopt", [job("rtopt", "rtopt", Q(rtk), Q(["req"]), rto, Q(rtk), Q(["req"]), rto)]))
    # round trip with constrained members (rtcons): a focus member (each part in turn) over every numeric kind
    # (the client's range validation has one branch per kind) x RTIDS x values on / next to / off the bounds
    # 1, 5 (and 10 of default=5,range=[1:10]) and inside / outside options=; the other three members share one
    # (kind, option set, value) of the reduced catalogue: valid, or outside (then the whole struct must fail)
    rck = NUMK + ['"string"', '"bool"']
    if ctx.quick:
        rcl = lits("0", "1", "2", "4", "5", "6", "10", "1.5", "0.5", "5.0", "abc", "xyz", "nihao", '""', "true", "false")
        rc2 = (Q(["int8", "string"]), Q(["req", "roc"]), lits("1", "5", "abc"))
    else:
        rcl = lits("0", "1", "2", "4", "5", "6", "7", "10", "-1", "127", "255", "300", "1.5", "0.5", "0.1", "1.0", "5.0", "1e2",
                   "abc", "xyz", "nihao", "hello world", '""', "true", "false")
        rc2 = (Q(["int8", "uint64", "string"]), Q(["req", "roc", "options", "optrcc"]), lits("0", "1", "5", "abc"))
    out.append(("rtcons", [job("rtcons-%d" % i, "rtcons", Q(g), Q(RTIDS), rcl, *rc2)
                           for i, g in enumerate(split_kinds(rck, 4 if ctx.quick else 7))]))
    # deep shapes.  "sx" ([]T given [5,{..}]: an element that is not an object) is defined in the generator but not
    # offered: fillSlice asserts ithValue.(map[string]any) unchecked and panics (also for YAML [null,{..}], where
    # null arrives as "") - reported with /tmp/fixes/C05-6.patch; add "sx" once that fix is in /repo.
    deep_shapes = Q(["ss", "sm", "ms", "ssm", "sp0", "sx"])
    # containers of containers of structs with respelt inner keys (conf.Load* must accept them at any depth)
    if ctx.quick:
        out.append(("deep", [job("deep", "deep", Q(["int8", "string", "bool"]), Q(["req", "opt", "def"]), lits("5", "300", "abc", "true"),
                                 kinds2=deep_shapes)]))
    else:
        out.append(("deep", [job("deep-%d" % i, "deep", Q(g), Q(["req", "opt", "def", "rcc", "options", "str"]),
                                 lits("5", "300", "-1", "abc", "true", "1.5", "null", "10s", '""'), kinds2=deep_shapes)
                             for i, g in enumerate(split_kinds(allk, 3))]))
    # container shapes: every word over S (slice of) / M (map[string] of) / P (pointer to) with one or two container
    # levels around an element kind x documents = the canonical tree with one node (at any depth, alone / before /
    # after a well-typed sibling) replaced by a scalar, bool, string, null, [] {} [g] {..} [[g]] ... x the three ways
    # the document reaches the member (structure, JSON text in a string member, JSON text as form / path / header value)
    if ctx.quick:
        shk = {"tree": ["int8", "string", "bool"], "jstr": ["int8"], "text": ["int8", "string"]}
        shl = lits("5", "300", "abc", "true", "null", "1.5")
    else:
        # (the element kinds in full are the business of the flat slice / map families; here every class of kind)
        shk = {"tree": ["int8", "int32", "int64", "uint8", "uint64", "uint", "float32", "float64", "string", "bool", "duration"],
               "jstr": ["int8", "float32", "string", "duration"], "text": ["int8", "uint64", "string", "bool"]}
        shl = lits("0", "5", "300", "-1", "abc", "true", "null", "1.5", '"10"', "10s", '""', "2^64-1")
    out.append(("shapes", [job("shapes-%s-%s" % (fm, k), "shapes", Q([k]), Q([fm]), shl, kinds2=Q(["c1", "c2"]))
                           for fm in ("tree", "jstr", "text") for k in shk[fm]]))
    # single: all kinds x all option sets x pointer x both source classes (this run is also the model
    # check of the relation); quick leaves out the mid-range boundary literals, thorough offers all 60
    if ctx.quick:
        alll = S(sorted(set(range(1, NLITS + 1)) - {3, 5, 6, 15, 16, 17, 18, 19, 21, 22, 24, 25, 26, 27, 31, 32, 36, 41, 42, 45, 48, 50, 54, 57, 63, 64, 66, 68, 70, 72, 73}))
    # + env= / default= combined with range= / options= on numeric and pointer-to-numeric fields
    combo_docs = lits("5", "7", "300", "abc") if ctx.quick else lits("0", "1", "5", "7", "300", "1.5", "abc", "null", '"010"')
    out.append(("single", [job("single-%d" % i, "single", Q(g), allo, alll) for i, g in enumerate(split_kinds(allk, 5))]
                + [job("single-combo-%d" % i, "single", Q(g), Q(COMBO), combo_docs) for i, g in enumerate(split_kinds(NUMK, 2))]))
    if ctx.quick:
        k1 = ["int8", "uint8", "int64", "float32", "string", "duration"]
        out.append(("pair", [job("pair-%d" % i, "pair", Q(g), Q(["req", "opt", "def", "rcc"]),
                                 lits("5", "300", "-1", "1.5", "abc", "true"),
                                 Q(["int8", "uint64", "string"]), Q(["req", "opt", "def"]), lits("5", "300", "abc"))
                             for i, g in enumerate(split_kinds(k1, 2))]))
        out.append(("embedded", [job("embedded", "embedded", Q(["int8", "string", "float32"]), Q(["req", "opt", "def"]),
                                     lits("5", "300", "abc"), Q(["uint8", "string"]), Q(["req", "def"]), lits("5", "300", "abc"))]))
        celems = lits("5", "300", "-1", "256", "1.5", "abc", "true", "10s", "1e39", "null", "[1]", "{x:1}", '"010"', '"0x1F"')
        for fam in ("slice", "map"):
            out.append((fam, [job(fam, fam, Q(allk), Q(["req"]), celems, litidx2=lits("5", "300", "abc", "null"))]))
        out.append(("nested", [job("nested", "nested", Q(["int8", "string"]), Q(["req", "opt", "def"]), lits("5", "300", "abc"),
                               Q(["int8", "uint8", "string", "duration"]), Q(["req", "opt", "def", "rcc"]),
                               lits("5", "300", "abc", "10s"))]))
        out.append(("inherit", [job("inherit", "inherit", Q(["int8", "int64", "string", "float32"]), Q(["req", "opt"]),
                                    lits("5", "300", "abc", "1.5"), Q(["int8", "int64", "string", "float32"]),
                                    Q(["req", "opt"]), lits("5", "300", "abc"))]))
        out.append(("roundtrip", [job("roundtrip", "roundtrip", Q(["int8", "uint64", "float32", "string", "bool"]), Q(["req"]),
                                      lits("5", "300", "1.5", "abc", "true", "2^64-1", "hello world", "100%", "nihao"),
                                      Q(["int8", "string"]), Q(["req"]), lits("5", "abc", "a b&c=d", "hello world", "100%", "nihao"))]))
        out.append(("twice", [job("twice-%d" % i, "twice", Q(g), Q(["req"]), lits("5", "300", "abc", "1.5", "true"),
                                  litidx2=lits("5", "300", "abc", "xyz", "1.5", "true", '"010"'))
                              for i, g in enumerate(split_kinds(["string", "int8", "int64", "float64", "bool", "uint8"], 3))]))
        out.append(("history", [job("history", "history", Q(["int8", "string", "float64", "bool"]), Q(["req", "opt", "def", "rcc"]),
                                    lits("5", "300", "abc", "true", "1.5"))]))
    else:
        out.append(("history", [job("history-%d" % i, "history", Q(g), Q(["req", "opt", "def", "defbig", "options", "rcc", "str"]),
                                    lits("5", "300", "-1", "abc", "true", "1.5", "null", '"010"', "10s"))
                                for i, g in enumerate(split_kinds(allk, 3))]))
        o1 = ["req", "opt", "def", "defbig", "options", "rcc", "roo", "str", "env300"]
        l1 = lits("5", "300", "-1", "256", "1.5", "1.0", "abc", "true", '"10"', "10s", "null", "2^63", "1e39")
        out.append(("pair", [job("pair-%d" % i, "pair", Q(g), Q(o1), l1,
                                 Q(["int8", "uint8", "uint64", "float32", "string", "duration"]), Q(["req", "opt", "def", "rcc"]),
                                 lits("5", "300", "abc", "1.5"))
                             for i, g in enumerate(split_kinds(allk, 5))]))
        out.append(("embedded", [job("embedded-%d" % i, "embedded", Q(g), Q(["req", "opt", "def", "rcc"]),
                                     lits("5", "300", "abc", "1.5", "true"), Q(["int8", "uint8", "string", "float32"]),
                                     Q(["req", "opt", "def"]), lits("5", "300", "abc"))
                                 for i, g in enumerate(split_kinds(allk, 3))]))
        celems = lits("0", "5", "300", "-1", "127", "128", "255", "256", "65536", "2^31", "2^63", "2^64-1", "2^64", "1.5", "1.0",
                      "0.1", "abc", "true", "10s", "1e39", "3.5e38", "1e400", "null", '"10"', "[1]", "{x:1}",
                      '"010"', '"-010"', '"0x1F"', '"1_000"')
        for fam in ("slice", "map"):
            out.append((fam, [job("%s-%d" % (fam, i), fam, Q(g), Q(["req"]), celems,
                                  litidx2=lits("5", "300", "abc", "null", "1.5", "256", "-1"))
                              for i, g in enumerate(split_kinds(allk, 3))]))
        out.append(("nested", [job("nested-%d" % i, "nested", Q(g), Q(["req", "opt", "def"]), lits("5", "300", "abc"),
                                   Q(["int8", "uint8", "int64", "float32", "string", "duration", "bool"]),
                                   Q(["req", "opt", "def", "rcc", "options"]), lits("5", "300", "abc", "10s", "1.5", "true"))
                               for i, g in enumerate(split_kinds(["int8", "string", "uint64", "float32"], 4))]))
        out.append(("inherit", [job("inherit", "inherit", Q(allk), Q(["req", "opt"]),
                                    lits("5", "300", "abc", "1.5", "true", "10s", "256", "-1"), Q(allk),
                                    Q(["req", "opt"]), lits("5", "300", "abc", "1.5"))]))
        rk = ["int8", "uint8", "int32", "int64", "uint64", "float32", "float64", "string", "bool"]
        out.append(("roundtrip", [job("roundtrip-%d" % i, "roundtrip", Q(g), Q(["req"]),
                                      lits("0", "5", "300", "-1", "127", "255", "1.5", "0.1", "abc", "a b&c=d", "true", "false",
                                           "2^63-1", "2^64-1", "1e39", *ESC),
                                      Q(["int8", "uint64", "string", "float32"]), Q(["req"]),
                                      lits("5", "abc", "a b&c=d", "0.1", "2^64-1", "hello world", "100%", "nihao", 'say "hi"'))
                                  for i, g in enumerate(split_kinds(rk, 3))]))
        out.append(("twice", [job("twice-%d" % i, "twice", Q(g), Q(["req"]),
                                  lits("5", "300", "-1", "abc", "1.5", "true", "null", "hello world"),
                                  litidx2=lits("1", "5", "300", "abc", "xyz", "1.5", "true", "-1"))
                              for i, g in enumerate(split_kinds(allk, 5))]))
    return out


def run_tlc(ctx, j):
    cfg = core.render_cfg(spec="Spec", constants=j["K"], invariants=["Sane", "Emit"])
    r = ctx.tlc("UnmarshalContractGen", cfg, constants=j["K"], name=j["name"], workers=1, timeout=1500, heap="3g")
    return r.printed


def run(ctx):
    binp = ctx.go_build(PKG, OVERLAY, name="c05drv")
    fams = plans(ctx)
    jobs = [j for _, js in fams for j in js]
    # TLC computes initial states on one thread: run up to 6 single-worker TLC processes side by side
    with cf.ThreadPoolExecutor(max_workers=6) as ex:
        futs = {j["name"]: ex.submit(run_tlc, ctx, j) for j in jobs}
        printed = {}
        for name, f in futs.items():
            printed[name] = f.result()
    # accounting is recomputed (ctx counters are not updated atomically by concurrent runs)
    ctx.states = sum(r["distinct"] for r in ctx.tlc_runs)
    ctx.transitions = sum(r["generated"] for r in ctx.tlc_runs)
    ctx.exhaustive = True
    total = {}
    for fam, js in fams:
        cases = []
        for j in js:
            cases += printed[j["name"]]
        # the enumeration of kind-partitioned runs overlaps where a run's Kinds2 catalogue is shared: keep distinct cases
        cases = list(dict.fromkeys(cases))
        if not cases:
            raise core.Infra("family %s: TLC printed no case" % fam)
        path, n = ctx.write_cases(fam + ".ndjson", cases)
        total[fam] = n
        ctx.samples += core.sample_of(cases, 1)
        shards = 1 if fam == "axioms" else 4 if fam in ("roundtrip", "rtopt") else 8
        rtfam = fam in ("roundtrip", "rtopt", "rtcons")
        cnt, bad = ctx.replay(PKG, OVERLAY, RUN, path, label=fam, shards=shards, binp=binp, timeout=1200)
        # vacuity guard of the driver: each family must have seen accepted and rejected documents
        vals = sum(v for k, v in cnt.items() if k.startswith("call.") and k.endswith(".val"))
        errs = sum(v for k, v in cnt.items() if k.startswith("call.") and k.endswith(".err"))
        if fam == "axioms":
            if cnt.get("axioms.checked", 0) < 1:
                raise core.Infra("the specification's numeric axioms were not checked")
            continue
        if not bad and (vals == 0 or (errs == 0 and not rtfam)):
            raise core.Infra("family %s: vacuous replay (accepted=%d rejected=%d)" % (fam, vals, errs))
        if fam == "shapes" and not bad:
            # every class of shape must have produced values (well-typed documents accepted) on every source class
            # it was offered on: otherwise "error for everything" would pass as panic-freedom
            empty = sorted(k[len("shapes.cases."):] for k, v in cnt.items()
                           if k.startswith("shapes.cases.") and v and not cnt.get("shapes.val." + k[len("shapes.cases."):], 0))
            if empty:
                raise core.Infra("family shapes: vacuous replay, no document accepted for %s" % empty)
            ctx.notes["shape_classes"] = len([k for k in cnt if k.startswith("shapes.cases.") and k.endswith(".typed")])
        if rtfam:
            rt = {k[len("rt.%s." % fam):]: v for k, v in cnt.items() if k.startswith("rt.%s." % fam)}
            ctx.notes.setdefault("roundtrip_outcomes", {})[fam] = rt
            if fam == "rtcons" and not bad:
                # the constraint family must have seen, in every part, equal structs whose member sits on an included
                # bound / is one of the options, and refused structs (by either side) for values outside
                need = ["equal.on-included-bound." + p for p in ("path", "form", "header", "json")] + \
                       ["equal.in-options." + p for p in ("path", "form", "header", "json")]
                missing = [k for k in need if rt.get(k, 0) == 0]
                refused = rt.get("outside.client-refused", 0) + rt.get("outside.server-refused", 0)
                if missing or refused == 0:
                    raise core.Infra("family rtcons: vacuous replay (missing %s, refused outside values=%d)" % (missing, refused))
    ctx.notes["cases_per_family"] = total
    # report the simplest member of each class of disagreement first (finish() shows the first per key)
    ctx.disagreements.sort(key=lambda d: (d["key"], len(d["msg"] or "")))
    ctx.assumptions += ["int and uint are 64 bit", "process environment: VERIF_C05_ENV_5=5, VERIF_C05_ENV_300=300 set by the driver",
                        "loopback HTTP for the round-trip family"]


def replay(ctx, rp):
    path, _ = ctx.write_cases("replay.ndjson", [rp["case"]])
    ctx.replay(PKG, OVERLAY, RUN, path, label="replay")
