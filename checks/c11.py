"""C11 - SQL sessions: transactions are atomic, rows map by column name.
spec/Tx.tla (+TxGen), spec/RowMap.tla (+RowMapGen) and spec/RowMapHist.tla (+RowMapHistGen: histories of queries into
declared types that print the same name) -> replay on sqlx.Conn / sqlc.CachedConn over sqlmock."""
import json
import threading
from vlib import core

PKG = "./lib/store/sqlx"
OVERLAY = {"lib/store/sqlx/zz_verif_c11_test.go": "c11/sqlx_test.go",
           # in-package observation point: counts the Commit()/Rollback() calls made on the Conn's transaction handles
           "lib/store/sqlx/zz_verif_c11_export_test.go": "c11/export_test.go",
           # histories of queries into declared types that print the same name (spec/RowMapHist.tla): the driver part and
           # two packages that are both called `model` and declare the same type names with other db tags
           "lib/store/sqlx/zz_verif_c11_hist_test.go": "c11/hist_test.go",
           "internal/verifc11/a/model/types.go": "c11/model_a.go",
           "internal/verifc11/b/model/types.go": "c11/model_b.go"}
RUN = "^TestVerifC11$"
W = 6
ROW_CHUNK = 150000   # row-mapping cases per replay run
HIST_CHUNK = 60000   # row-mapping histories per replay run

# catalogue of the declared destination types of harness/c11 (hist_test.go, model_a.go, model_b.go): declaration id,
# printed name (reflect.Type.String()), layout = the column that the db tag of field i names.  It is the constant Decl
# of spec/RowMapHist.tla; the driver checks every Go declaration against the name and layout that the steps carry.
DECL = [("pkgA.Account", "model.Account", (1, 2)), ("pkgB.Account", "model.Account", (2, 1)),
        ("pkgA.Member", "model.Member", (1, 2, 3)), ("pkgB.Member", "model.Member", (3, 1, 2)),
        ("pkgA.Profile", "model.Profile", (1, 2)), ("pkgB.Profile", "model.Profile", (2, 3, 1)),
        ("fnA.account", "sqlx_test.account", (1, 2)), ("fnB.account", "sqlx_test.account", (2, 1)),
        ("top.account", "sqlx_test.account", (3, 1)),
        ("fnA.member", "sqlx_test.member", (1, 2, 3)), ("fnB.member", "sqlx_test.member", (2, 3, 1)),
        ("fnA.profile", "sqlx_test.profile", (1, 2, 3)), ("fnB.profile", "sqlx_test.profile", (3, 1))]
HIST_INV = ["FilledByOwnTags", "OrderIndependent", "OneName"]

META = dict(
    text="Exhaustive model-based replay. spec/Tx.tla is the protocol of one Transact call between caller, body, "
         "transaction manager and a database driver that may fail at Begin, at every statement, at Commit and at "
         "Rollback; TLC checks its atomicity invariants and (TxGen.tla) enumerates every complete behaviour of 1-3 "
         "calls on one Conn (plus seeded simulation of 4-call histories). Each behaviour scripts a sqlmock database and the body (nil / error / panic at any "
         "statement) and is run through Conn.Transact, Conn.TransactCtx and sqlc.CachedConn.Transact(Ctx); the context handed to "
         "the Ctx entry points is live, already cancelled, already expired, or cancelled by the body (a manager may "
         "refuse a dead context only before beginning, or skip the body and roll back). "
         "TxImpl.tla models the deferred function of transactOnConn (recover branch empty / rollback / re-raise) "
         "and how the branches hang together (else-if chain / separate statements) "
         "against the same predicates (lead only). The "
         "caller's result class, the Commit/Rollback calls that reached the database driver AND the Commit()/Rollback() calls the "
         "manager made on its transaction handle (a finished *sql.Tx answers a second call by itself, so only the second count "
         "tells one Rollback from two; a result wrapping sql.ErrTxDone is judged the same way) are compared with "
         "the specification. spec/RowMap.tla enumerates destination shapes (scalars, structs of 1-3 fields, "
         "tagged/untagged, tag spellings db:\"c\" / db:\"c,type=..,length=..\" / db:\"c,\" / mixed (the column is named by the element before the first comma), names in tags and columns spelled all lower-case / camel (userId) / capitalised (Userid) / all upper-case (a tag names exactly the column with the same spelling; a result set spelled differently from the tags may be read either way), pointer fields, embedded value/pointer structs holding 1 or 2 of the leaf fields, *T, *[]T, *[]*T, slices already holding 0-2 elements) x result sets (all "
         "column orders of all column subsets, an extra column, NULL, 0/1/3 rows) x strict/partial with the SET of "
         "outcomes the statement allows; every case is executed by QueryRow(s)(Partial) through a Conn, a "
         "transaction session, a prepared statement and sqlc's NoCache pass-through. spec/RowMapHist.tla adds state carried "
         "across calls: histories of 2-3 queries in one process into DECLARED destination types that are different types "
         "and print the same name (model.Account / Member / Profile of two overlaid packages both called `model`; "
         "function-local and package-level types account / member / profile of the driver) with different field<->tag "
         "layouts and field counts, in every order, repeated and interleaved, each query through its own access path "
         "(Conn / transaction / prepared statement / NoCache) into *T, *[]T, *[]*T, strict and partial, column orders "
         "ascending / descending (thorough: rotations, an extra column): each destination must be filled by ITS OWN tags "
         "whatever was queried before. All cases of a shard run in one process in an order shuffled by VERIF_SEED.",
    note="Trusted: TLC, sqlmock, database/sql, the driver's counting wrapper around the sqlmock connection, the counting "
         "wrapper around the handles of commonConn.beginTx (overlaid export file), the catalogue of declared types in "
         "checks/c11.py (the driver checks every Go declaration's printed name and db tags against it; a mismatch is a harness problem). "
         "Not covered: ErrBadConn retries of database/sql, a context dying while a statement is in flight, nested transactions, the breaker "
         "tripping (fresh Conn per behaviour, <= 4 calls), bulk inserter, sqlc's cached query paths, queries from several "
         "goroutines at once; histories use flat all-tagged structs with plain lower-case tags and no NULLs (the shapes of "
         "RowMap.tla are judged one query at a time); histories of 3 queries use one access path throughout. The statement "
         "is silent on (so both outcomes are allowed or the case is not generated): result error text when the "
         "Rollback itself fails, NULL arriving in a field (error or zero), tagged fields inside an embedded struct "
         "(by name or by position), untagged structs with more columns than fields (not generated), tags whose name element is empty (db:\",opt\") or \"-\" (to orm.go \"-\" is an ordinary column name; not generated), "
         "structs mixing tagged and untagged fields (not generated), whether a column whose name differs from a tag's name only in letter case is that tag's column "
         "(orm.go compares the strings verbatim, so it is not; both readings are allowed, but all such columns of one result set must be read the same way), "
         "names with upper-case letters meet only flat shapes with plain tags and empty slices (in the quick tier only pointer-free ones), differently spelled result sets only the pointer-free ones of these (in the quick tier one other spelling per tag spelling), option-carrying tags meet only empty slices (and, in the quick tier, only pointer-free shapes), whether a non-empty destination slice is appended to or replaced (both allowed), scalar "
         "destinations with several columns (not generated).",
    technique="TLA+ specs (Tx, RowMap) + TLC-enumerated behaviours/cases replayed on the real sqlx over sqlmock",
    design="4/C11")

FINISH = dict(rule="transactions: complete TLC enumeration (BFS over the history variable) of all behaviours of "
                   "MaxCalls Transact calls with <= MaxStmts statements per body, every driver fault and every body "
                   "ending; row mapping: complete enumeration of RowMap.tla's case space for the tier's constants and of "
                   "RowMapHist.tla's histories (type sequences over each printed name x access paths x destinations); "
                   "every call / every query of every case is compared with the specification")

TX_INV = ["TypeOK", "NilMeansCommitted", "ElseRolledBack", "CommitIffNil", "OneEnding", "NoDangling", "NoTxNoEnd",
          "BegunIsEnded", "FailureIsReported", "OneEndingCall", "CallsReachDriver"]
ROW_INV = ["OrderIndependent", "ExtraIgnored", "StrictNeverPartial", "StrictCountsLeafFields", "PrefilledSameVerdict", "EmptyIsNotFound",
           "FieldsComeFromTheirColumns", "TagOptionsIgnored", "SameSpellingMatches", "OtherSpellingEitherReading", "NeverEmpty"]
IMPL_INV = ["NilMeansCommitted", "ElseRolledBack", "FailureIsReported", "NoDangling", "OneEnding", "OneEndingCall"]
TAG_STYLES = ["plain", "opts", "comma", "mixed"]
TAG_CASES = ["lower", "camel", "cap", "upper"]
CTX = dict(Ctxs='{"live","cancelled","expired","bodycancel"}', CtxApis='{"TransactCtx","CachedTransactCtx"}')
APIS4 = '{"Transact","TransactCtx","CachedTransact","CachedTransactCtx"}'


def mc(ctx):
    K = dict(MaxStmts=2, MaxCalls=2, Apis='{"Transact","TransactCtx"}', Kinds='{"exec","query"}', **CTX)
    cfg = core.render_cfg(spec="Spec", constants=K, invariants=TX_INV, properties=["EndsOnlyAtEnd"], view="core")
    r = ctx.tlc("Tx", cfg, constants=K, name="Tx-mc", workers=W, coverage=True)
    ctx.check_coverage(r, ["Call", "Return", "Begin", "Refuse", "SkipBody", "Stmt", "BodyEnd", "Commit", "Rollback"])
    # mechanism-shaped model of transactOnConn's deferred function: which shapes of the recover branch keep
    # the atomicity predicates (a lead / a sanity check of the repair, never a verdict)
    leads = {}
    for br, chain in (("rollback", "chained"), ("reraise", "chained"), ("empty", "chained"),
                      ("rollback", "split"), ("reraise", "split")):
        K2 = dict(RecoverBranch='"%s"' % br, Chain='"%s"' % chain)
        cfg = core.render_cfg(spec="Spec", constants=K2, invariants=IMPL_INV)
        r = ctx.tlc("TxImpl", cfg, constants=K2, name="TxImpl-%s-%s" % (br, chain), workers=2, allow_violation=True)
        leads[br + "/" + chain] = r.violated or "holds"
    if any(leads[k] != "holds" for k in ("rollback/chained", "reraise/chained", "reraise/split")):
        raise core.Infra("TxImpl: a repaired recover branch violates %s" % leads)
    # the session layer must be able to tell: with separate statements a recovered panic is rolled back twice,
    # which no driver-level predicate notices
    if leads["rollback/split"] != "OneEndingCall":
        raise core.Infra("TxImpl: the split chain is expected to violate exactly OneEndingCall, got %s" % leads)
    ctx.notes["TxImpl_recover_branch"] = leads


def tx_gen(ctx, name, simulate=None, **K):
    K = dict(CTX, **K)
    cfg = core.render_cfg(spec="GSpec", constants=K, invariants=["Emit"])
    if simulate:
        return ctx.tlc("TxGen", cfg, constants=K, name=name, workers=1, timeout=900, simulate=simulate,
                       depth=8 * K["MaxCalls"] + 4).printed
    return ctx.tlc("TxGen", cfg, constants=K, name=name, workers=W, timeout=900).printed


def row_consts(ctx, thorough_part=None):
    styles = "{%s}" % ",".join('"%s"' % x for x in TAG_STYLES)
    cases = "{%s}" % ",".join('"%s"' % x for x in TAG_CASES)
    if ctx.quick:
        return dict(MaxF=3, RowCounts="{0,1,3}", PtrSets='"few"', Dests='{"one","vals","ptrs"}', Pres="{0,1}",
                    TagStyles=styles, StyleCross='"none"', TagCases=cases, ColCases='"next"', CaseCross='"flat"')
    return dict(MaxF=3, RowCounts="{0,1,2,3}", PtrSets='"all"', Dests='{"one","vals","ptrs"}', Pres="{0,1,2}",
                TagStyles=styles, StyleCross='"ptrs"', TagCases=cases, ColCases='"all"', CaseCross='"ptrs"')


def hist_consts(ctx):
    decl = "<<%s>>" % ", ".join('[id |-> "%s", name |-> "%s", lay |-> <<%s>>]' % (i, n, ", ".join(map(str, l)))
                                for i, n, l in DECL)
    K = dict(Decl=decl, MaxLen=3, FreeLen=2, Vias='{"conn","tx","stmt","nocache"}', Dests='{"one","vals","ptrs"}')
    if ctx.quick:
        K.update(Ords='{"asc","desc"}', Extras="{FALSE}", Rows=2)
    else:
        K.update(Ords='{"asc","desc","rotl","rotr"}', Extras="{FALSE,TRUE}", Rows=3)
    return K


def hist_gen(ctx, box):
    """Histories of spec/RowMapHistGen.tla (runs beside the row-mapping enumeration)."""
    try:
        K = hist_consts(ctx)
        cfg = core.render_cfg(spec="Spec", constants=K, invariants=HIST_INV + ["Emit"])
        box["cases"] = ctx.tlc("RowMapHistGen", cfg, constants=K, name="rowhist", workers=2, timeout=900).printed
        box["K"] = K
    except BaseException as e:   # handed to the main thread
        box["err"] = e


def run(ctx):
    mc(ctx)
    binp = ctx.go_build(PKG, OVERLAY, name="c11drv")
    ctx.exhaustive = True
    first_err = None   # a harness problem never hides a disagreement that was observed on the code

    # ---- transactions
    plans = [("tx1", dict(MaxStmts=2, MaxCalls=1, Apis=APIS4, Kinds='{"exec","query"}'))]
    if ctx.quick:
        plans.append(("tx2", dict(MaxStmts=1, MaxCalls=2, Apis='{"Transact","CachedTransactCtx"}', Kinds='{"exec"}')))
    else:
        plans.append(("tx1d", dict(MaxStmts=3, MaxCalls=1, Apis=APIS4, Kinds='{"exec","query"}')))
        plans.append(("tx2", dict(MaxStmts=1, MaxCalls=2, Apis=APIS4, Kinds='{"exec","query"}')))
        plans.append(("tx3", dict(MaxStmts=1, MaxCalls=3, Apis='{"TransactCtx"}', Kinds='{"exec"}',
                                  Ctxs='{"live","cancelled"}')))
    # longer histories on one Conn (4 calls stay below the breaker's protection threshold), seeded
    sim = dict(MaxStmts=2, MaxCalls=4, Apis=APIS4, Kinds='{"exec","query"}')
    for name, K in plans + [("tx4sim", sim)]:
        cases = tx_gen(ctx, name, simulate=((400 if ctx.quick else 8000) if name == "tx4sim" else None), **K)
        path, n = ctx.write_cases(name + ".ndjson", cases)
        ctx.samples += core.sample_of(cases, 1)
        try:
            ctx.replay(PKG, OVERLAY, RUN, path, label=name, shards=8, binp=binp)
        except core.Infra as e:
            first_err = first_err or e

    # ---- row mapping
    K = row_consts(ctx)
    hbox = {}
    hthread = threading.Thread(target=hist_gen, args=(ctx, hbox))
    hthread.start()
    # one TLC run checks the invariants of the mapping on every case and prints the case (the generator module
    # only adds Emit to RowMap's state space).  A printed case is a state with picked = TRUE, which is reached
    # by PickShape followed by PickResult only: printed cases are the evidence that both actions fired
    # (TLC's -coverage doubles the cost of this run and would say no more).
    cfg = core.render_cfg(spec="Spec", constants=K, invariants=ROW_INV + ["Emit"])
    try:
        cases = ctx.tlc("RowMapGen", cfg, constants=K, name="rowmap", workers=W, timeout=900).printed
    finally:
        hthread.join()
    if not cases:
        raise core.Infra("vacuous model: RowMapGen printed no case (PickShape / PickResult never taken)")
    ctx.samples += core.sample_of(cases, 2)
    cnt = {}
    # every shard process loads the whole cases file it is given (about 6 KB of heap per case): the cases are
    # replayed in chunks so that the 8 shards together stay below ~8 GB whatever the tier's case count is
    for k in range(0, len(cases), ROW_CHUNK):
        path, n = ctx.write_cases("rowmap-%d.ndjson" % (k // ROW_CHUNK), cases[k:k + ROW_CHUNK])
        try:
            c, _ = ctx.replay(PKG, OVERLAY, RUN, path, label="rowmap", shards=8, binp=binp)
        except core.Infra as e:
            first_err = first_err or e
            continue
        for key, v in c.items():
            cnt[key] = cnt.get(key, 0) + v
    # ---- row mapping over histories: declared types that print the same name, queried one after the other
    hcases = hbox.get("cases") or []
    if "err" in hbox:
        e = hbox["err"]
        first_err = first_err or (e if isinstance(e, core.Infra) else core.Infra("history generator: %r" % (e,)))
    elif not hcases:
        first_err = first_err or core.Infra("vacuous model: RowMapHistGen printed no history")
    ctx.samples += core.sample_of(hcases, 1)
    for k in range(0, len(hcases), HIST_CHUNK):
        path, n = ctx.write_cases("rowhist-%d.ndjson" % (k // HIST_CHUNK), hcases[k:k + HIST_CHUNK])
        try:
            c, _ = ctx.replay(PKG, OVERLAY, RUN, path, label="rowhist", shards=8, binp=binp)
        except core.Infra as e:
            first_err = first_err or e
            continue
        for key, v in c.items():
            cnt[key] = cnt.get(key, 0) + v
    if first_err is not None:
        if not ctx.disagreements:
            raise first_err
        ctx.notes["harness_problem_besides_disagreement"] = str(first_err)[:600]
    if not ctx.disagreements:
        vacuity(ctx, cnt)
    ctx.assumptions += [
        "database/sql forwards the first Commit/Rollback of a *sql.Tx to the driver and answers later ones with ErrTxDone "
        "(which is why ending calls are also counted on the transaction handle itself)",
        "fresh sqlx.Conn (fresh breaker) per behaviour; at most 4 Transact calls, so the breaker never rejects"]
    ctx.notes["bounds"] = dict(tx=[p[1] for p in plans], rowmap=K,
                               rowhist={k: v for k, v in hbox.get("K", {}).items() if k != "Decl"},
                               rowhist_declared=[list(d) for d in DECL])


def vacuity(ctx, cnt):
    """Coverage the run must have had (evaluated only when no disagreement was found)."""
    if not cnt.get("rowmap.prefilled"):
        raise core.Infra("vacuous: no query into an already filled slice was replayed")
    if not cnt.get("rowmap.strict-fewer-than-leaf-fields"):
        raise core.Infra("vacuous: no strict case with fewer columns than leaf fields of an embedded struct was replayed")
    for st in TAG_STYLES:
        if not cnt.get("rowmap.tags-" + st):
            raise core.Infra("vacuous: no tagged destination with tag spelling %s was replayed" % st)
    for cs in TAG_CASES:
        if not cnt.get("rowmap.names-" + cs):
            raise core.Infra("vacuous: no tagged destination whose tags and columns are spelled in %s case was replayed" % cs)
    if not cnt.get("rowmap.columns-spelled-differently"):
        raise core.Infra("vacuous: no result set spelling its columns differently from the tags was replayed")
    for kind in ("pkg", "local"):
        for rel in ("first-query", "after-same-type", "after-other-type-of-same-name"):
            if not cnt.get("hist.%s.%s" % (kind, rel)):
                raise core.Infra("vacuous: no query into a %s-declared type was judged %s in its history" % (kind, rel))
    for k in ("via-conn", "via-tx", "via-stmt", "via-nocache", "dest-one", "dest-vals", "dest-ptrs"):
        if not cnt.get("hist." + k):
            raise core.Infra("vacuous: no history query with %s was replayed" % k)
    for k in ("ctx-cancelled", "ctx-expired", "ctx-bodycancel"):
        if not ctx.counters.get("tx1.tx." + k):
            raise core.Infra("vacuous: no transaction with context scenario %s was judged" % k)
    # every transaction that reached the driver was also seen at the session layer
    if not ctx.counters.get("tx1.tx.handle-rollback-calls") or not ctx.counters.get("tx1.tx.handle-commit-calls"):
        raise core.Infra("vacuous: the Commit()/Rollback() calls on the transaction handle were never observed "
                         "(the beginTx wrapper of harness/c11/export_test.go is not in the path)")


def replay(ctx, rp):
    path, _ = ctx.write_cases("replay.ndjson", [rp["case"]])
    ctx.replay(PKG, OVERLAY, RUN, path, label="replay")
