"""C04 - authentication gates.  spec/AuthJwt.tla, spec/AuthSig.tla, spec/AuthBoth.tla (the two composed on one
route), spec/AuthRpc.tla (+ *Gen) -> replay through the
engine-composed HTTP gates (api.Server routes) and the rpc auth interceptors over miniredis."""
from vlib import core

API_PKG = "./api"
API_OV = {"api/zz_verif_c04_test.go": "c04/api_test.go"}
API_RUN = "^TestVerifC04Api$"
RPC_PKG = "./rpc/internal/serverinterceptors"
RPC_OV = {"rpc/internal/serverinterceptors/zz_verif_c04_test.go": "c04/rpc_test.go"}
RPC_RUN = "^TestVerifC04Rpc$"
W = 6

META = dict(
    text="Model-based replay of three small TLA+ specifications of the statement. AuthJwt.tla: symbolic token "
         "classes (signing secret cur/prev/other x alg HS256/384/512/none/RS256-header-over-HMAC/altered signature "
         "x time valid/expired/not-yet/no-claims x claim sets x bearer/malformed/missing/wrong-scheme) against the "
         "three route configurations (WithJwt, WithJwtTransition, transition with equal secrets), four server "
         "constructions (built-in chain, api.WithChain custom chain, Server.Use middleware, both) and four kinds of "
         "api.WithUnauthorizedCallback (none, a callback that writes nothing, one that only sets a header, one that "
         "writes 401 itself: a denial is 401 without the handler under each); the parser's "
         "per-secret hit counters and its 24 h reset are state, TLC checks that the try-order can never change the "
         "verdict and enumerates every request sequence (every single token of the full product, all sequences of "
         "2-3 (thorough 4) requests over a representative class set with a 25 h clock advance anywhere). "
         "Concurrent stage: 8 goroutines (GOMAXPROCS 8) replay all "
         "3-request sequences over mostly valid cur/prev tokens at once against ONE transition route (>= 30k requests "
         "quick, >= 150k thorough), each request judged by its own step and its own (unique) claims. "
         "AuthSig.tla: full product of method x fingerprint x secret (honest / not base64 / encrypted for the other key / "
         "one byte of the last RSA block altered) x timestamp offset (exact tolerance "
         "boundaries, and int64 extremes: now+-2^55(+-1), +-2^56, +-2^62, 0, MaxInt64, MinInt64) x server construction x every set of <= 1 (thorough 2) fields altered after signing x body delivery (known "
         "Content-Length, unknown length on the recorder, chunked over a real loopback connection) x key layout of the "
         "server (one signature-protected route group holding both keys; two groups with one key each; two groups that "
         "use the same fingerprint name for different keys) x the group the request is sent to: a route admits only "
         "under a key configured for its own group, a header that decrypts under the other group's key only gets 403 "
         "(servers are built from the route-group -> fingerprint -> key map of the case); and the LENGTH of the secret's "
         "plaintext relative to the payload B = k-11 of one PKCS#1 v1.5 block of the key it is encrypted for (the two "
         "configured keys are 2048 and 1024 bit): short, B-1, B, B+1, 2B, 2B+1, 3B+7 (quick: B, B+1, 2B, 2B+1), reached "
         "with a long HMAC key and a filler attribute and encrypted block-wise with crypto/rsa the way lib/codec/rsa.go "
         "crypt() chunks (1-4 RSA blocks): the verdict never depends on it - a correctly signed multi-block request is "
         "admitted, each single altered field denies it. AuthBoth.tla (INSTANCEs of AuthJwt and AuthSig, "
         "nothing redefined): route groups that carry BOTH gates (api.WithJwt / WithJwtTransition together with "
         "api.WithSignature{Strict} on the same AddRoutes): representative token classes x the three JWT configurations x "
         "unauthorized-callback kinds x server constructions x signed requests (honest under either key at every "
         "tolerated offset, every single field altered after signing, header that does not decrypt, timestamp outside the "
         "tolerance) - requests failing none, one or both gates: without a valid token the answer is 401 whatever the "
         "X-Content-Security header looks like, a valid token with a refused signature gets 403, both valid runs the "
         "handler with the token's claims. AuthRpc.tla: strict/lenient x "
         "a store that changes between calls (token stored / replaced / deleted, store down / up again) x every "
         "sequence of up to 3 calls over app/token present/empty/absent/matching/differing, unary and stream; a call "
         "may be judged by the store as it is now or by a token seen at an earlier successful lookup (a cache), "
         "never by an earlier failure. Every behaviour is executed on the real code: api.Server routes "
         "bound by the engine (real JWTs minted with golang-jwt, real RSA/HMAC X-Content-Security headers built "
         "from the wire protocol), auth.Authenticator over miniredis behind the real interceptors; handler-ran, "
         "status and context claims are compared with the specification.",
    note="Trusted: TLC, golang-jwt as token minter, crypto/rsa+hmac as honest client, miniredis, httptest recorder "
         "(a real loopback listener only for the signature cases delivered 'wire'). Not covered: non-strict signature mode and methods other than GET/POST/PUT/DELETE "
         "(the statement is about strict mode and these methods), encrypted bodies (type=1, CryptoHandler), the "
         "X-Request-Uri override, lib/codec's own rsaEncryptor (client side: the driver encrypts with crypto/rsa), unsigned callbacks, on routes with both gates the "
         "key layouts with two route groups, long secrets and wire delivery (driven on signature-only routes), unauthorized callbacks that write a status other than 401, a bare token without 'Bearer ' prefix, iat in "
         "the future, expiry of the authenticator's 5-minute cache (its timing wheel runs on a real ticker), "
         "real redis connection loss (the failing store answers every command with an error). A token without any "
         "time claim may be admitted or rejected (statement silent). Signature timestamps use the real clock: "
         "offsets are computed immediately before the request and the request is repeated if the second changed.",
    technique="TLA+ specs (AuthJwt, AuthSig, AuthRpc) + TLC-enumerated behaviours replayed on engine-bound routes and rpc interceptors",
    design="4/C04")

FINISH = dict(rule="complete TLC enumeration (BFS over the history variable) of request sequences up to the tier's "
                   "length for the JWT and RPC gates and of the full case product for the signature gate; every "
                   "request of every behaviour is compared with the specification's verdict")

CFGS = '{"single","transition","same"}'
SERVERS = '{"default","chain","use","chain+use"}'
CALLBACKS = '{"none","silent","header","writes401"}'
LAYOUTS = '{"one","split","alias"}'


def sig_lens(ctx):
    """lengths of the secret's plaintext (relative to one RSA block payload B = k-11) driven besides 'short'"""
    return ["B", "B+1", "2B", "2B+1"] + ([] if ctx.quick else ["B-1", "long"])


def tla_set(xs):
    return "{" + ",".join('"%s"' % x for x in xs) + "}"


def sigk(ctx, servers):
    """constants of the signature spec: the layouts with two route groups get a reduced product in the quick tier"""
    q = ctx.quick
    return dict(MaxTamper=(1 if q else 2), Servers=servers, Layouts=LAYOUTS,
                SideMethods=('{"GET","POST"}' if q else "Methods"),
                SideOffsets=('{"now","+tol","-tol-1","garbage"}' if q else "Offsets \\ Extremes"),
                SLens=tla_set(sig_lens(ctx)))


CONC_K = dict(Tokens="ConcTokens", Cfgs='{"transition"}', Servers='{"default"}', Callbacks='{"header"}', MaxReq=3)


def mc(ctx):
    K = dict(Tokens="AllTokens", Cfgs=CFGS, Servers=SERVERS, Callbacks=CALLBACKS, MaxReq=3)
    cfg = core.render_cfg(spec="Spec", constants=K, view="core",
                          invariants=["TypeOK", "OrderCannotMatter", "AdmitShape", "NeverRegistered", "DeniedIs401"])
    r = ctx.tlc("AuthJwt", cfg, constants=K, name="AuthJwt-mc", workers=W, coverage=True)
    ctx.check_coverage(r, ["Request", "Advance"])
    # (AuthSig's properties are checked by the run that enumerates its cases: SIG_INVARIANTS in gen())
    K = dict(MaxCalls=3, MaxEnv=2, Kinds='{"unary","stream"}', CallSet="AllCalls")
    cfg = core.render_cfg(spec="Spec", constants=K, view="core",
                          invariants=["MissingMetadataRejected", "FreshMatchAdmitted", "FreshDifferRejected",
                                      "LenientOnlyWhenNotStrict", "ErrorsAreNotRemembered", "StrictNeverLenient"])
    r = ctx.tlc("AuthRpc", cfg, constants=K, name="AuthRpc-mc", workers=W, coverage=True)
    ctx.check_coverage(r, ["Call", "SetToken", "Toggle"])


SIG_INVARIANTS = ["AnyTamperDenied", "HonestPasses", "OutsideToleranceDenied", "TransportIrrelevant", "ServerIrrelevant",
                  "OneGroupAsBefore", "ForeignKeyDenied", "OwnGroupOnly", "LengthIrrelevant"]


BOTH_INVARIANTS = ["NoTokenIs401", "RunNeedsBoth", "BothValidRuns", "ValidTokenBadSignature403", "StatusBelongsToItsGate",
                   "ComposedOfTheTwo"]


def bothk(ctx):
    """constants of the composed spec (routes that carry the JWT gate and the strict signature gate)"""
    q = ctx.quick
    return dict(BTokens='"Core"', BCfgs=CFGS, BServers=('{"default","chain+use"}' if q else SERVERS), BCallbacks=CALLBACKS,
                BMethods=('{"GET","POST"}' if q else '{"GET","POST","PUT","DELETE"}'))


def gen(ctx, module, name, K, simulate=None, depth=None):
    if module == "AuthBothGen":
        # like the signature spec: no history, the enumeration visits exactly the states of the model
        cfg = core.render_cfg(spec="Spec", constants=K, invariants=BOTH_INVARIANTS + ["Emit"])
        return ctx.tlc(module, cfg, constants=K, name=name, workers=W, timeout=900).printed
    sig = module == "AuthSigGen"
    # the signature spec has no history: its case enumeration visits exactly the states of the model, so the
    # properties of AuthSig.tla are checked in the same run (ServerIrrelevant/TransportIrrelevant quantify over all
    # constructions and deliveries whatever subset is offered)
    cfg = core.render_cfg(spec=("Spec" if sig else "GSpec"), constants=K, invariants=(SIG_INVARIANTS if sig else []) + ["Emit"])
    return ctx.tlc(module, cfg, constants=K, name=name, workers=(1 if simulate else W), timeout=900,
                   simulate=simulate, depth=depth).printed


def run(ctx):
    mc(ctx)
    api = ctx.go_build(API_PKG, API_OV, name="c04api")
    rpc = ctx.go_build(RPC_PKG, RPC_OV, name="c04rpc")
    ctx.exhaustive = True
    q = ctx.quick
    plans = [
        # every single token class of the full product, each configuration
        # (x every unauthorized-callback kind x every server construction)
        ("jwt1", "AuthJwtGen", dict(Tokens="AllTokens", Cfgs=CFGS, Servers=SERVERS, Callbacks=CALLBACKS, MaxReq=1), api),
        # request sequences (parser ordering states, clock advance)
        ("jwt2", "AuthJwtGen", dict(Tokens="CoreTokens", Cfgs=CFGS, Servers=('{"default","chain+use"}' if q else SERVERS),
                                    Callbacks=CALLBACKS, MaxReq=2), api),
        ("jwt3", "AuthJwtGen", dict(Tokens=("FewTokens" if q else "CoreTokens"), Cfgs=CFGS,
                                    Servers=('{"default","chain"}' if q else SERVERS),
                                    Callbacks='{"none","silent"}', MaxReq=3), api),
        ("sig", "AuthSigGen", sigk(ctx, '{"default","chain"}' if q else SERVERS), api),
        # routes that carry BOTH gates: token class x signed/altered request class, each judged by its own spec
        ("both", "AuthBothGen", bothk(ctx), api),
        # single calls over the full metadata product, then sequences with the store changing in between
        ("rpc1", "AuthRpcGen", dict(MaxCalls=1, MaxEnv=0, Kinds='{"unary","stream"}', CallSet="AllCalls"), rpc),
        ("rpc2", "AuthRpcGen", dict(MaxCalls=2, MaxEnv=1, Kinds='{"unary","stream"}', CallSet="CoreCalls"), rpc),
        ("rpc3", "AuthRpcGen", dict(MaxCalls=3, MaxEnv=2, Kinds=('{"unary"}' if q else '{"unary","stream"}'),
                                    CallSet=("FewCalls" if q else "CoreCalls")), rpc),
    ]
    if not q:
        plans.insert(3, ("jwt4", "AuthJwtGen", dict(Tokens="FewTokens", Cfgs=CFGS, Servers='{"default","chain+use"}',
                                                    Callbacks='{"none","header"}', MaxReq=4), api))
    sig_cases = []
    for name, module, K, binp in plans:
        cases = gen(ctx, module, name, K)
        if name == "sig":
            sig_cases = cases
        path, n = ctx.write_cases(name + ".ndjson", cases)
        ctx.samples += core.sample_of(cases, 1)
        if binp is api:
            ctx.replay(API_PKG, API_OV, API_RUN, path, label=name, shards=8, binp=binp)
        else:
            ctx.replay(RPC_PKG, RPC_OV, RPC_RUN, path, label=name, shards=8, binp=binp)
    # seeded long request histories against one parser
    K = dict(Tokens="CoreTokens", Cfgs=CFGS, Servers=SERVERS, Callbacks=CALLBACKS, MaxReq=12)
    cases = gen(ctx, "AuthJwtGen", "jwtsim", K, simulate=(300 if q else 1000), depth=16)
    path, n = ctx.write_cases("jwtsim.ndjson", cases)
    ctx.replay(API_PKG, API_OV, API_RUN, path, label="jwtsim", shards=8, binp=api)
    # concurrent stage: the same behaviours, many at once, against ONE route / parser
    cases = [c for c in gen(ctx, "AuthJwtGen", "jwtconc", CONC_K) if '"advance"' not in c]
    path, n = ctx.write_cases("jwtconc.ndjson", cases)
    need = 30000 if q else 150000
    cnt, _ = ctx.replay(API_PKG, API_OV, "^TestVerifC04JwtConc$", path, label="jwtconc", shards=1, binp=api,
                        gomaxprocs=8, env=dict(VERIF_CONC_G=8, VERIF_CONC_MIN=need))
    if not ctx.disagreements:
        vacuity(ctx, sig_cases, cnt, need)
    ctx.assumptions += [
        "JWT time claims are judged by golang-jwt against the real clock; tokens are minted +-1 h away from it",
        "signature timestamps: the request is repeated when the wall-clock second changed while it was served"]
    ctx.notes["bounds"] = {p[0]: p[2] for p in plans}


def vacuity(ctx, sig_cases, conc, need):
    """What the run must have exercised (evaluated only when no disagreement was found: a difference of the code
    under test is reported as such, never as a vacuous run)."""
    if conc.get("conc.requests", 0) < need:
        raise core.Infra("concurrent JWT stage judged only %s requests" % conc.get("conc.requests"))
    tot = {}
    for k, v in ctx.counters.items():
        name = k.split(".", 1)[1]
        tot[name] = tot.get(name, 0) + v
    miss = []
    # every callback kind saw denials, and a configured callback was really reached through the engine
    for cb in ("none", "silent", "header", "writes401"):
        if tot.get("jwt.denied.cb-" + cb, 0) == 0:
            miss.append("jwt.denied.cb-" + cb)
        if cb != "none" and tot.get("jwt.denied-callback-called.cb-" + cb, 0) == 0:
            miss.append("jwt.denied-callback-called.cb-" + cb)
    if tot.get("conc.callback-calls.cb-header", 0) == 0:
        miss.append("conc.callback-calls.cb-header")
    # every route group of every key layout admitted honest requests and refused (otherwise perfect) requests that
    # decrypt under a key of the other group only
    for lg in ("one.g1", "split.g1", "split.g2", "alias.g1", "alias.g2"):
        if tot.get("sig.pass." + lg, 0) == 0:
            miss.append("sig.pass." + lg)
        if not lg.startswith("one.") and tot.get("sig.foreign-key-denied." + lg, 0) == 0:
            miss.append("sig.foreign-key-denied." + lg)
    # every offered secret length was admitted (honest, chunk-encrypted secret) under both RSA key sizes, refused
    # when a signed field was altered, and the secrets really had the number of RSA blocks the specification says
    for sl in ["short"] + sig_lens(ctx):
        for k in ("KA", "KB"):
            if tot.get("sig.pass.len-%s.%s" % (sl, k), 0) == 0:
                miss.append("sig.pass.len-%s.%s" % (sl, k))
        if tot.get("sig.tampered-denied.len-" + sl, 0) == 0:
            miss.append("sig.tampered-denied.len-" + sl)
    for n in (1, 2, 3) + (() if ctx.quick else (4,)):
        if tot.get("sig.pass.blocks-%d" % n, 0) == 0:
            miss.append("sig.pass.blocks-%d" % n)
    if tot.get("sig.corrupt-block-denied", 0) == 0:
        miss.append("sig.corrupt-block-denied")
    # routes with both gates: requests failing none, one and both gates were answered, and the unauthorized
    # callback of every kind was reached on such a route
    for k in ("both.admit.pass.run", "both.admit.deny.403", "both.deny.pass.401", "both.deny.deny.401"):
        if tot.get(k, 0) == 0:
            miss.append(k)
    for cb in ("silent", "header", "writes401"):
        if tot.get("both.denied-callback-called.cb-" + cb, 0) == 0:
            miss.append("both.denied-callback-called.cb-" + cb)
    if miss:
        raise core.Infra("vacuous run: never exercised: %s" % miss)
    nf = sum(1 for c in sig_cases if '"foreign":true' in c)
    ctx.notes["sig_cases_with_a_foreign_group_key"] = nf


def replay(ctx, rp):
    if (rp.get("key") or "").startswith("C04:jwt:concurrent"):
        # a concurrent disagreement is re-executed as the whole stage, not as one behaviour
        cases = [c for c in gen(ctx, "AuthJwtGen", "jwtconc", CONC_K) if '"advance"' not in c]
        path, _ = ctx.write_cases("jwtconc.ndjson", cases)
        ctx.replay(API_PKG, API_OV, "^TestVerifC04JwtConc$", path, label="replay", gomaxprocs=8,
                   env=dict(VERIF_CONC_G=8, VERIF_CONC_MIN=30000))
        return
    path, _ = ctx.write_cases("replay.ndjson", [rp["case"]])
    if (rp.get("key") or "").startswith("C04:rpc"):
        ctx.replay(RPC_PKG, RPC_OV, RPC_RUN, path, label="replay")
    else:
        ctx.replay(API_PKG, API_OV, API_RUN, path, label="replay")
