"""C18 - lib/syncx primitives.  Code -> spec: randomized concurrent histories recorded from the real
primitives (race detector on) are validated by TLC against the call-level contracts of
spec/SyncxTrace.tla (linearizability with TLC choosing the internal steps)."""
import json, os, re
from vlib import core

PKG = "./lib/syncx"
OVERLAY = {"lib/syncx/zz_verif_c18_trace_test.go": "c18/syncx_trace_test.go"}
INVS = ["Inv_LimitBound", "Inv_PoolBound", "Inv_RefOnce", "Inv_SfOneOwner"]

META = dict(
    text="Linearizability by trace validation: randomized concurrent scenarios on the real SingleFlight, LockedCalls, "
         "Limit, TimeoutLimit, Pool, RefResource, ResourceManager, ManagedResource, SpinLock, Barrier, OnceGuard, DoneChan "
         "and Once (race detector on, several GOMAXPROCS) are recorded as inv/ret/callback events and TLC decides for each "
         "history whether some placement of the internal linearization steps of spec/SyncxTrace.tla explains it, evaluating "
         "the contract invariants in every state. Mechanism-level models (SingleFlightImpl/LockedCallsImpl) are model-checked "
         "over all interleavings.",
    note="Trusted: TLC, the tracer's global sequence number (events are emitted by the calling goroutine before the call / "
         "after the return / inside the callback), Go race detector. Coverage is the set of recorded schedules, not all "
         "schedules; timeouts of TimeoutLimit are judged only by 'a timeout is reported only after the timeout elapsed'.",
    technique="TLA+ call-level contracts + TLC trace validation of recorded concurrent histories",
    design="4/C18")

FINISH = dict(rule="one history = one randomized scenario (2-5 goroutines x 1-4 calls) on a fresh primitive; every history "
                   "is checked event by event by TLC against SyncxTrace.tla; distinct = histories")


def record(ctx, binp, label, rounds, gomaxprocs, shard):
    path = os.path.join(ctx.build, "trace-%s.ndjson" % label)
    import subprocess
    e = dict(os.environ)
    e.update(core.GOENV)
    e.update(VERIF_SEED=str(ctx.seed), VERIF_TRACE=path, VERIF_ROUNDS=str(rounds), VERIF_SHARD=str(shard),
             GOMAXPROCS=str(gomaxprocs))
    p = subprocess.run([binp, "-test.run", "^TestVerifC18Trace$", "-test.count=1", "-test.timeout", "600s"],
                       cwd=os.path.join(core.REPO, "lib/syncx"), env=e, capture_output=True, text=True, timeout=700)
    out = p.stdout + p.stderr
    if "DATA RACE" in out:
        ctx.disagree("C18:data-race", "race detector report while running the syncx scenarios:\n" + out[-3000:], source="race")
        return None
    if p.returncode != 0 or "C18TRACES" not in out:
        raise core.Infra("C18 recorder failed rc=%s\n%s" % (p.returncode, out[-3000:]))
    return path


IMPL_INVS = ["NoOverlap", "SfWaiterResult", "SfUnregisteredOnReturn", "LcOwnResult", "AtMostOnce"]


def mc_impl(ctx):
    """Mechanism-level models of flightGroup / lockedGroup (mutex regions, WaitGroup, map): every
    interleaving of a small configuration satisfies the call-level contract and terminates; a
    deliberately broken variant must be rejected (vacuity guard)."""
    confs = [('{1,2,3}', '{"a"}', 2), ('{1,2}', '{"a","b"}', 2)] if ctx.quick else [('{1,2,3}', '{"a","b"}', 2), ('{1,2,3,4}', '{"a"}', 1)]
    for mode in ("sf", "lc"):
        for i, (procs, keys, mcalls) in enumerate(confs):
            K = dict(Procs=procs, Keys=keys, MaxCalls=mcalls, Mode='"%s"' % mode, Variant='"code"')
            cfg = core.render_cfg(spec="Spec", constants=K, invariants=IMPL_INVS, properties=["Terminates"])
            ctx.tlc("SingleFlightImpl", cfg, constants=K, name="impl-%s-%d" % (mode, i), timeout=2400)
        K = dict(Procs="{1,2}", Keys='{"a"}', MaxCalls=1, Mode='"%s"' % mode, Variant='"unregister-early"')
        cfg = core.render_cfg(spec="Spec", constants=K, invariants=IMPL_INVS)
        r = ctx.tlc("SingleFlightImpl", cfg, constants=K, name="impl-%s-broken" % mode, timeout=600, allow_violation=True)
        if r.violated != "NoOverlap":
            raise core.Infra("vacuity guard: the broken variant of SingleFlightImpl (%s) was not rejected (got %r)" % (mode, r.violated))
        ctx.notes["impl_%s_broken_variant_rejected_by" % mode] = r.violated


def run(ctx):
    mc_impl(ctx)
    binp = ctx.go_build(PKG, OVERLAY, race=True, name="c18drv")
    plans = [(30, 4, 0), (30, 16, 1), (15, 1, 2)] if ctx.quick else [(300, 4, 0), (300, 16, 1), (150, 1, 2), (300, 2, 3), (300, 8, 4)]
    for rounds, gmp, shard in plans:
        path = record(ctx, binp, "g%d" % gmp + "-%d" % shard, rounds, gmp, shard)
        if path is None:
            continue
        acc, rej = ctx.validate_traces("SyncxTrace", path, key_prefix="C18", invariants=INVS, name="trace-%d" % shard, timeout=1500)
        if not ctx.samples:
            lines = open(path).read().splitlines()
            ctx.samples.append([json.loads(x) for x in lines[:14]])
    ctx.assumptions += ["events are emitted by the calling goroutine: inv before the call, ret after it returns, callbacks from inside the user function",
                        "histories are the schedules the Go scheduler produced under the given seeds; not exhaustive over schedules"]


def replay(ctx, rp):
    seg = json.loads(rp["case"])
    path = os.path.join(ctx.build, "replay.ndjson")
    open(path, "w").write("\n".join(seg) + "\n")
    ctx.validate_traces("SyncxTrace", path, key_prefix="C18", invariants=INVS, name="replay")
