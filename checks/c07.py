"""C07 - lib/mr MapReduce.  spec/MRContract.tla (scenario -> set of allowed results, the statement's contract),
spec/MRContractGen.tla (TLC enumerates scenarios with their outcome sets as JSON cases), spec/MRPipeline.tla
(mechanism model of mapreduce.go, one channel operation per step, model-checked over all interleavings against
the contract) -> black-box driver harness/c07/mr_test.go runs every scenario many times through the six entry
points under the race detector."""
import glob, json, os, re
from vlib import core

PKG = "./lib/mr"
OVERLAY = {"lib/mr/zz_verif_c07_test.go": "c07/mr_test.go"}
RUN = "^TestVerifC07$"

ALL_APIS = '{"MapReduce","MapReduceVoid","MapReduceChan","ForEach","Finish","FinishVoid"}'
ALL_MB = '{"w0","w1","w2","cancelE","cancelNil","panic","latepanic"}'
ALL_REND = '{"ret","panic","latepanic","cancel"}'
ALL_CTX = '{"bg","before","during"}'
P12 = '{"panicbuf","deadline"}'
ALL3 = '{"panicbuf","deadline","outclose"}'

META = dict(
    text="Contract + mechanism model + black-box stress + trace validation. spec/MRContract.tla states, for a scenario (item "
         "count, workers, what each mapper does: write 0-2 values / cancel(err) / cancel(nil) / panic / panic only after "
         "the call returned; what the reducer does: read the pipe to its end or stop after j values, write 0-2 results, "
         "then return / panic / cancel; generator normal or panicking after k items; context background / done before / "
         "done during; the kind of VALUE the mappers and the reducer write - distinct ordinary values, the untyped nil, a typed "
         "nil pointer, 0, \"\", false - is a further dimension of the cases on which the contract does not depend: one write "
         "of nil is one write), the SET of results the statement allows (value, ErrReduceNoOutput, the cancel error or "
         "ErrCancelWithNil, DeadlineExceeded, the re-raised panic; where causes race, the union) and the exactly-once "
         "obligations. spec/MRPipeline.tla models lib/mr/mapreduce.go one channel / atomic / once operation per step "
         "(source, collector, output, done, panicChan + CAS, pool tokens, WaitGroup, failed flag, the two sync.Once, the "
         "guardedWriter check-then-send, all drain loops); TLC explores every interleaving of every scenario of the "
         "configured families (<= 3 items, <= 2 workers) and checks: result in Outcomes, exactly-once, bounded workers, "
         "every run comes to rest with every goroutine finished (nothing blocked for ever, the call returns) - for the "
         "code under test (Repairs {panicbuf, deadline} = /repo commits ea11f3e + c6d89a0; only the known send-on-closed-"
         "output behaviour tolerated); the model of the code before those commits is kept as an expected-violation run "
         "(TLC exhibits the blocked state of the fixed leak) and the model with the third repair as a lead. TLC then enumerates "
         "the scenarios with their outcome sets as JSON; the Go driver acts each scenario out through mr.MapReduce / "
         "MapReduceVoid / MapReduceChan / ForEach / Finish / FinishVoid with instrumented user functions, repeatedly, "
         "under -race with GOMAXPROCS 16/2/1 and seeded random yields, and checks membership of the result, the "
         "exactly-once multisets, the worker bound, that the call returns and that no goroutine of the call is left once "
         "the generator function has returned (hangs and leaks are proven from a stop-the-world goroutine snapshot in "
         "which every goroutine of the call is blocked; stacks attached; race-detector reports are verdicts too). In a "
         "recording pass the user functions log their events with a global sequence number and TLC validates every "
         "history against the contract-level acceptor spec/MRTrace.tla (mapped only after generated and at most once, "
         "received only after written and at most once, worker bound at every point, the first cancel wins, "
         "DeadlineExceeded only after the context was cancelled, everything mapped/delivered before a reducer that read "
         "the pipe to its end makes the call return).",
    note="Trusted: TLC, the Go race detector and runtime.Stack's consistent snapshot, the driver's classification of "
         "results, the tracer's global sequence number. Schedules on the real code are the ones the Go scheduler "
         "produced (seeded yields, three GOMAXPROCS settings, 2 executions per scenario and setting in the quick tier, 8 "
         "in the thorough tier - not the 50 of the design), not all schedules; all interleavings are covered only on the "
         "model (n <= 3, workers <= 2, one step per channel operation, goroutine start-up order free). The contract is a "
         "set wherever the statement lets causes race; exactly-once and the worker bound are judged only in scenarios "
         "without any cancel / panic / context ('without cancellation'). Not modelled: user functions that block for "
         "ever, a MapReduceChan source that is never closed, more than two reducer writes, nested MapReduce calls. "
         "Non-ordinary values (nil, typed nil, zero values) are indistinguishable from each other, so the recording pass / "
         "trace acceptor uses only the scenarios with distinct ordinary values, and the mechanism model carries no values. The "
         "design's MRTrace (MRPipeline with silent channel steps) is replaced by the cheaper contract-level acceptor; a "
         "recorded history it rejects at the ret event because the caller re-raised 'send on closed channel' carries the "
         "driver's key for that outcome (C07:result:send-on-closed-output), every other rejection C07:trace:<event>. On "
         "a tree with a defect, scenarios of a signature that already failed VERIF_FAILCAP times in a driver process are "
         "skipped (nothing is skipped on a conforming tree). Findings, all reproduced on the real code. Fixed by ea11f3e: "
         "blocking onceChan.write left goroutines for ever when a panic followed a return through cancel / context / "
         "result (keys C07:leak:panic-after-{cancel,ctx,result,panic}-return) and made the call hang when the panic came "
         "after the caller accepted the reducer's value or while the caller itself ran cancel (C07:hang:panic-after-output-"
         "accepted, C07:hang:panic-while-caller-cancels). Fixed by c6d89a0: with a done context the select could return "
         "ErrReduceNoOutput/nil (C07:result:no-output-instead-of-deadline). Open known finding: finish() closes `output` "
         "while the reducer may be sending (race detector report C07:data-race:guardedWriter.Write+"
         "mapReduceWithPanicChan.func2.1, rarely visible as C07:result:send-on-closed-output).",
    technique="TLA+ contract (outcome sets) + TLC model checking of the channel-level mechanism model + TLC-enumerated "
              "scenarios replayed black-box on the real entry points under -race with goroutine-snapshot leak/hang proofs "
              "+ TLC validation of recorded user-level histories",
    design="4/C07")

FINISH = dict(rule="cases = complete TLC enumeration of the scenario families of MRContract.tla (every function from items "
                   "to mapper behaviours x reducer behaviour x generator behaviour x context x workers x entry point, "
                   "filtered by Applicable/WellFormed; the families without causes and a family with cancel / panic once more "
                   "for every non-ordinary kind of written value); every case is executed VERIF_REPS times per GOMAXPROCS setting; "
                   "steps = executions; a case fails at its first execution that disagrees")


def fam(**kw):
    """one scenario family as the text of a TLA+ record (see CONSTANT Fams in MRContract.tla)"""
    K = dict(Apis='{"MapReduce"}', NSet="0..2", WSet="1..2", MBSet=ALL_MB, RStopSet="{-1,0,1}", RWSet="0..2",
             REndSet=ALL_REND, GenKSet="{-1,0,1}", CtxSet=ALL_CTX, Sparse="FALSE", Base="{}", Pos="{}")
    K.update(kw)
    return "[" + ", ".join("%s |-> %s" % kv for kv in K.items()) + "]"


def fams(*fs):
    return "{" + ",\n  ".join(fs) + "}"


# ------------------------------------------------------------------------------------------- model checking
INV_REPAIRED = ["ResultOK", "OrderOK", "Bounded", "AtMostOnce", "ExactlyOnce", "ExactlyOnceAtReturn", "LeakFree"]

NOCAUSE = dict(MBSet='{"w0","w1","w2"}', RStopSet="{-1,1}", RWSet="0..2", REndSet='{"ret"}', GenKSet="{-1}", CtxSet='{"bg"}')
CAUSES = dict(MBSet='{"w1","cancelE","cancelNil","panic"}', RStopSet="{-1,0}", RWSet="0..1",
              REndSet='{"ret","panic","cancel"}', GenKSet="{-1,0,1}", CtxSet='{"bg"}')
CTXF = dict(MBSet='{"w1","cancelE","panic"}', RStopSet="{-1,0}", RWSet="0..1", REndSet='{"ret"}', GenKSet="{-1,1}",
            CtxSet='{"before","during"}')
LATE = dict(MBSet='{"w1","cancelE","latepanic"}', RStopSet="{-1,0}", RWSet="0..1", REndSet='{"ret","latepanic"}',
            GenKSet="{-1}", CtxSet='{"bg","during"}')
FOREACH = dict(Apis='{"ForEach"}', MBSet='{"w0","panic","latepanic"}', RStopSet="{-1}", RWSet="{0}", REndSet='{"ret"}',
               GenKSet="{-1,0,1,2}", CtxSet='{"bg"}')
# DESIGN.md section 9: two items, mapper 1 cancel(err), mapper 2 panics after the call has returned
SUSPECT = dict(NSet="{2}", WSet="{2}", MBSet='{"cancelE","latepanic"}', RStopSet="{-1}", RWSet="{1}", REndSet='{"ret"}',
               GenKSet="{-1}", CtxSet='{"bg"}')


def pipeline(ctx, name, families, repairs, tolerate, invs, expect=None, properties=(), spec="Spec", timeout=1500, coverage=False):
    K = dict(Fams=families, Repairs=repairs, Tolerate=tolerate)
    cfg = core.render_cfg(spec=spec, constants=K, invariants=invs, properties=properties, alias="Brief")
    r = ctx.tlc("MRPipeline", cfg, constants=K, name=name, workers=6, timeout=timeout, heap="6g",
                allow_violation=expect is not None, want_json=False, coverage=coverage)
    if expect is not None and r.violated != expect:
        raise core.Infra("MRPipeline %s: expected TLC to report %s violated (the model of the code before the fixes must show "
                         "the blocked state), got %s" % (name, expect, r.violated))
    return r


def mc(ctx):
    quick = ctx.quick
    # (a) recorded lead for the defects fixed by /repo commits ea11f3e + c6d89a0: the model of the code BEFORE those
    #     commits (Repairs = {}) must still exhibit the blocked state of DESIGN.md section 9 (expected violation)
    pipeline(ctx, "prefix-suspect", fams(fam(**SUSPECT)), "{}", '{"rt","noout"}', ["LeakFree"], expect="LeakFree")
    out = open(os.path.join(ctx.build, "tlc-prefix-suspect", "tlc.out"), errors="replace").read()
    out = out[out.find("Error:"):]
    states = out.split("\nState ")
    last = re.sub(r"\s+", " ", states[-1]) if len(states) > 1 else ""
    m_lines = re.search(r"lines = \{([^}]*)\}", last)
    m_at = re.search(r"/\\ at = (\{.*?\}) /\\", last)
    m_res = re.search(r"result = (\[[^\]]*\])", last)
    m_sc = re.search(r"scenario = (\[[^\]]*\])", last)
    lines = sorted(int(x) for x in re.findall(r"-?\d+", m_lines.group(1))) if m_lines else []
    ctx.notes["model_blocked_state_before_fix"] = dict(
        scenario=m_sc.group(1) if m_sc else None, caller_result=m_res.group(1) if m_res else None,
        blocked_processes=m_at.group(1) if m_at else None, mapreduce_go_lines_before_ea11f3e=lines, trace_steps=len(states) - 1,
        meaning="lead, not a verdict: TLC counterexample to LeakFree on the model of mapreduce.go as it was before commit "
                "ea11f3e (Repairs = {}): a state with no enabled step in which the caller has returned and these processes are "
                "blocked for ever (m_pw = onceChan.write's send :352, d_wait = wg.Wait :259, r_recv = the reducer reading the "
                "pipe :221); the driver reproduced exactly these three stacks on that tree (key C07:leak:panic-after-cancel-"
                "return, fixed)")
    if not lines:
        raise core.Infra("could not read the blocked state from TLC's counterexample")
    if quick:
        late_q = dict(LATE, NSet="{2}", WSet="{2}", RStopSet="{-1}", RWSet="{1}", REndSet='{"ret"}')
        cur = fams(fam(**NOCAUSE, NSet="0..2"), fam(**CAUSES, NSet="0..1"), fam(**late_q), fam(**FOREACH, NSet="0..2"),
                   fam(**CTXF, NSet="0..1"))
        full = None
        small = fams(fam(NSet="0..1", WSet="{1}", MBSet='{"w1","cancelE","panic"}', RStopSet="{-1,0}", RWSet="{1}",
                         REndSet='{"ret","panic"}', GenKSet="{-1,0}", CtxSet='{"bg","during"}'))
    else:
        cur = fams(fam(**NOCAUSE, NSet="0..3"), fam(**CAUSES), fam(**LATE), fam(**FOREACH, NSet="0..3"),
                   fam(**dict(CTXF, GenKSet="{-1}")), fam(**dict(CTXF, NSet="0..1", RWSet="0..2")))
        full = fams(fam(**CAUSES), fam(**LATE), fam(**FOREACH, NSet="0..3"), fam(**dict(CTXF, GenKSet="{-1}")),
                    fam(**dict(CTXF, NSet="0..1", RWSet="0..2")), fam(**NOCAUSE, NSet="0..2"))
        small = fams(fam(NSet="0..1", WSet="{1}", MBSet='{"w1","cancelE","panic"}', RStopSet="{-1,0}", RWSet="0..1",
                         REndSet='{"ret","panic"}', GenKSet="{-1,0}", CtxSet='{"bg","during"}'))
    # (b) the code under test = Repairs {panicbuf, deadline} (commits ea11f3e, c6d89a0): full invariant set; the only
    #     tolerated behaviour is the open known finding send-on-closed-output (Tolerate = {rt})
    pipeline(ctx, "current", cur, P12, '{"rt"}', INV_REPAIRED)
    # (c) ... every behaviour comes to rest (weak fairness), small family, with per-action coverage as vacuity guard
    r = pipeline(ctx, "current-termination", small, P12, '{"rt"}', ["ResultOK"], properties=["Termination"], spec="FairSpec", coverage=True)
    ctx.check_coverage(r, ["CtxFire", "GenEnd", "GenClose", "SrcHandoff", "SrcClosedRecv", "PwBuffered", "CallerTakePanic",
                           "PrioEmpty", "CallerCtx", "CallerCtxRet", "OutHandoff", "OutClosedRecv", "CallerEval", "XOnce",
                           "XSet", "XRet", "FOnce", "FCloseDone", "FCloseOut", "DLoop", "DSelect", "DWait", "DCloseColl",
                           "MWChk", "MWSend", "MFail", "MExit", "MUnpool", "RRecv", "RWChk", "RSendClosed", "REnd", "RDefer",
                           "RFinish"])
    # (d) lead: what a full repair looks like - with "outclose" added nothing at all needs to be tolerated (thorough only)
    if full:
        pipeline(ctx, "lead-full-repair", full, ALL3, "{}", INV_REPAIRED + ["NoSendOnClosed"])
    ctx.notes["model_leads"] = [
        "open (known finding): send-on-closed-output - finish() (from cancel or the caller's ctx branch) closes `output` between "
        "the reducer's guardedWriter check and its send; the runtime error is recovered in the reducer goroutine, written to "
        "panicChan and may be re-raised in the caller; the race detector reports the same close-versus-send (tolerated in "
        "ResultOK as Tolerate={rt}; removed in the model by repair 'outclose', /tmp/fixes/C07-3.patch, not taken)",
        "fixed by c6d89a0: no-output-instead-of-deadline (select took the closed output although the context was done)",
        "fixed by ea11f3e: blocking onceChan.write (leaks after a return through cancel/context/result, hangs when the panic "
        "came after the caller accepted the reducer's value or while the caller ran cancel; two racing panics could let a "
        "normal result through)"]


# ------------------------------------------------------------------------------------------- scenario generation
VALFAMS = None  # set below (needs fam/fams)
VALS = ("nil", "typednil", "zero-int", "zero-str", "false")  # MRContract!ValueKinds without "ord"


def gen(ctx, name, families):
    # + the directed scenarios (ordering established by the driver before the reducer writes), see MRContract!Directed
    # + the value dimension: the families VALFAMS once more for every non-ordinary kind of written value
    K = dict(Fams=families, Orders='{"cancel-before-write","ctx-before-write","workers-held"}', ValFams=VALFAMS,
             Vals="{" + ",".join('"%s"' % v for v in VALS) + "}")
    cfg = core.render_cfg(spec="GSpec", constants=K, invariants=["Emit", "SaneInv"])
    r = ctx.tlc("MRContractGen", cfg, constants=K, name=name, workers=4, timeout=900)
    return r.printed


VALFAMS = fams(fam(Apis='{"MapReduce","MapReduceChan","MapReduceVoid"}', NSet="0..2", WSet="1..2", MBSet='{"w0","w1","w2"}',
                   RStopSet="{-1,1}", RWSet="0..2", REndSet='{"ret"}', GenKSet="{-1}", CtxSet='{"bg"}'),
               fam(Apis='{"MapReduce","MapReduceChan"}', NSet="1..2", WSet="{2}", MBSet='{"w1","cancelE","panic"}',
                   RStopSet="{-1,0}", RWSet="0..1", REndSet='{"ret"}', GenKSet="{-1}", CtxSet='{"bg"}'))


def scenario_cases(ctx):
    if ctx.quick:
        # every scenario with <= 2 items over a reduced alphabet + sparse scenarios with 3-4 items, all entry points
        F = fams(fam(Apis=ALL_APIS, NSet="0..2", WSet="1..2", MBSet='{"w0","w2","cancelE","panic","latepanic"}',
                     RStopSet="{-1,1}", RWSet="0..2", REndSet=ALL_REND, GenKSet="{-1,1}", CtxSet=ALL_CTX),
                 fam(Apis=ALL_APIS, NSet="0..2", WSet="{2}", MBSet='{"w1","cancelNil"}',
                     RStopSet="{-1,0}", RWSet="0..1", REndSet='{"ret"}', GenKSet="{-1,0}", CtxSet='{"bg"}'),
                 fam(Apis=ALL_APIS, NSet="3..4", WSet="{1,3}", MBSet='{"w2","cancelE","panic","latepanic"}',
                     Sparse="TRUE", Base='{"w1"}', Pos="{1,3}", RStopSet="{-1,2}", RWSet="{0,1}",
                     REndSet='{"ret","panic"}', GenKSet="{-1,2}", CtxSet='{"bg","during"}'))
    else:
        # every scenario with <= 2 items over the full alphabet; every function to a reduced alphabet for 3 items;
        # sparse scenarios (a base behaviour, <= 2 special items) for 4, 16 and 100 items
        F = fams(fam(Apis=ALL_APIS, NSet="0..2", WSet="1..2"),
                 fam(Apis=ALL_APIS, NSet="{3}", WSet="{2,3}", MBSet='{"w2","cancelE","panic","latepanic"}',
                     RStopSet="{-1,2}", RWSet="{0,1}", REndSet='{"ret","panic"}', GenKSet="{-1,2}", CtxSet=ALL_CTX),
                 fam(Apis=ALL_APIS, NSet="{4}", WSet="{1,3}", MBSet='{"w2","cancelE","cancelNil","panic","latepanic"}',
                     Sparse="TRUE", Base='{"w1"}', Pos="{1,4}", RStopSet="{-1,3}", RWSet="{0,1}",
                     REndSet='{"ret","cancel"}', GenKSet="{-1,3}", CtxSet=ALL_CTX),
                 fam(Apis=ALL_APIS, NSet="{16,100}", WSet="{1,3,16}", MBSet='{"w2","cancelE","panic","latepanic"}',
                     Sparse="TRUE", Base='{"w1"}', Pos="{1,9,16}", RStopSet="{-1,5}", RWSet="{0,1}",
                     REndSet='{"ret","panic"}', GenKSet="{-1,9}", CtxSet=ALL_CTX))
    return gen(ctx, "gen", F)


def run_driver(ctx, binp, path, label, reps, gmp, shards=16):
    racelog = os.path.join(ctx.build, "race-" + label)
    return ctx.replay(PKG, OVERLAY, RUN, path, label=label, shards=shards, binp=binp, gomaxprocs=gmp, timeout=1500,
                      env=dict(VERIF_REPS=reps, VERIF_FAILCAP=1 if ctx.quick else 2, VERIF_RACELOG=racelog,
                               GORACE="exitcode=0 log_path=" + racelog))


def classify_rejected_results(ctx):
    """The acceptor MRTrace judges the recorded `ret` event against the history's `allowed` set, i.e. the same result
    membership the driver judges in the replay passes.  A history rejected AT its ret event BECAUSE the outcome is not
    allowed gets the class key the driver gives that outcome (mr_test.go, "---- result"), so that one behaviour of the
    code has one key whichever binding direction observed it.  Only the class both sides know is renamed (the caller
    re-raising the runtime error of a send on the closed output channel); everything else keeps C07:trace:<event>."""
    for d in ctx.disagreements:
        if d.get("source") != "trace" or d.get("key") != "C07:trace:ret" or not d.get("case"):
            continue
        try:
            seg = [json.loads(x) for x in json.loads(d["case"])]
            ev = seg[d["step"]]
            allowed = [(a["kind"], a["val"]) for a in seg[0]["allowed"]]
        except Exception:
            continue
        if ev.get("e") != "ret" or (ev.get("kind"), ev.get("val")) in allowed:
            continue  # rejected for another conjunct of MRTrace!Ret (ordering knowledge): stays a trace key
        if ev["kind"] == "panic" and "send on closed channel" in str(ev["val"]):
            d["key"] = "C07:result:send-on-closed-output"
            d["msg"] += " [result class of the driver: the outcome is not in the allowed set]"


def run(ctx):
    mc(ctx)
    cases = scenario_cases(ctx)
    path, n = ctx.write_cases("cases.ndjson", cases)
    ctx.samples += core.sample_of(cases, 3)
    ctx.notes["scenarios"] = n
    binp = ctx.go_build(PKG, OVERLAY, race=True, name="c07drv")
    reps = 2 if ctx.quick else 8
    bad_all = []
    for gmp in (16, 2, 1):
        cnt, bad = run_driver(ctx, binp, path, "g%d" % gmp, reps, gmp)
        bad_all += bad
    ctx.exhaustive = True
    # recording pass (code -> spec): a sample of the scenarios is executed once more with the user functions logging
    # their events; TLC validates every recorded history against the contract-level acceptor spec/MRTrace.tla
    step = 7 if ctx.quick else 5
    sample = [c for i, c in enumerate(cases) if (i % step == 0 or '"order":""' not in c) and '"n":100' not in c
              and '"val":"ord"' in c]  # the acceptor identifies values by their distinct ordinary ids
    spath, _ = ctx.write_cases("cases-trace.ndjson", sample)
    tpath = os.path.join(ctx.build, "trace.ndjson")
    _, tbad = ctx.replay(PKG, OVERLAY, RUN, spath, label="rec", shards=1, binp=binp, gomaxprocs=4, timeout=900,
                         env=dict(VERIF_REPS=1, VERIF_FAILCAP=1, VERIF_TRACE=tpath, VERIF_RACELOG=os.path.join(ctx.build, "race-rec"),
                                  GORACE="exitcode=0 log_path=" + os.path.join(ctx.build, "race-rec")))
    bad_all += tbad
    if os.path.exists(tpath) and os.path.getsize(tpath) > 0:
        def describe(segment, first_bad):
            try:
                return " in " + json.loads(segment[0]).get("scenario", "")
            except Exception:
                return ""
        acc, rej = ctx.validate_traces("MRTrace", tpath, key_prefix="C07", invariants=["Inv_Running", "Inv_Subset"],
                                       name="trace", timeout=900, describe=describe, heap="6g")
        ctx.notes["histories_accepted"] = acc
        ctx.notes["histories_rejected"] = rej
        classify_rejected_results(ctx)
    # vacuity guards on the driver's own counters
    c = ctx.counters
    tot = lambda k: sum(v for kk, v in c.items() if kk.endswith("." + k))
    if not bad_all:
        for k in ("result.ret", "result.err", "result.panic", "leakchecks", "exactly_once_checks", "maxrunning_2"):
            if tot(k) == 0:
                raise core.Infra("vacuous driver run: counter %s is 0" % k)
        # ... and on the value dimension: for every non-ordinary kind of value, a call returned exactly the reducer's
        # single write with a nil error, and mapper writes of that kind were matched against what the reducer received
        for v in VALS:
            for k in ("value.%s.returned" % v, "value.%s.delivered" % v):
                if tot(k) == 0:
                    raise core.Infra("vacuous driver run: counter %s is 0" % k)
    # only on a tree that (again) has the pre-fix leak: do the real stacks show the blocked state of lead (a)?
    # (the leak itself is then a violation reported by the driver; this is an additional note, never an error)
    want = ctx.notes.get("model_blocked_state_before_fix", {}).get("mapreduce_go_lines_before_ea11f3e")
    for d in ctx.disagreements:
        if d["key"] == "C07:leak:panic-after-cancel-return" and "mb=[cancelE latepanic]" in d["msg"] and "MapReduce n=2 workers=2" in d["msg"]:
            got = sorted(set(int(x) for x in re.findall(r"mapreduce\.go:(\d+)", d["msg"].split("\n")[0])))
            ctx.notes["real_blocked_stack_lines"] = got
            ctx.notes["model_and_real_blocked_state_agree"] = (got == want)
            break
    ctx.assumptions += ["schedules on the real code are those produced by the Go scheduler under the seeded yields and GOMAXPROCS 1/2/16",
                        "a hang / leak is reported only when a stop-the-world snapshot shows every goroutine of the call blocked on a "
                        "channel / lock; goroutines that are merely slow are waited for (30 s, then exit 2)"]


def replay(ctx, rp):
    if rp.get("case"):
        path, _ = ctx.write_cases("replay.ndjson", [rp["case"]])
    else:  # a race-detector report is not tied to one case: run the quick scenario set again
        path, _ = ctx.write_cases("replay.ndjson", scenario_cases(ctx))
    binp = ctx.go_build(PKG, OVERLAY, race=True, name="c07drv")
    for gmp in (16, 2, 1):
        run_driver(ctx, binp, path, "replay-g%d" % gmp, 300 if rp.get("case") else 2, gmp, shards=1 if rp.get("case") else 16)
