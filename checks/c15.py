"""C15 - service discovery.  spec/Discov.tla (abstract view), spec/DiscovGen.tla (behaviour generator)
-> replay through the real discov.NewSubscriber on a scripted EtcdClient."""
from vlib import core

PKG = "./lib/discov/internal"
OVERLAY = {"lib/discov/internal/zz_verif_c15_export_test.go": "c15/export_test.go",
           "lib/discov/internal/zz_verif_c15_test.go": "c15/discov_test.go"}
RUN = "^TestVerifC15$"

K3 = dict(Keys='{"k1","k2","k3"}', Vals='{"va","vb"}',
          ValOf='[k \\in {"k1","k2","k3"} |-> IF k = "k3" THEN "vb" ELSE "va"]',
          Subs='{"s1","x1"}', Excl='{"x1"}', MaxMissed=3, MidLen=1)
V3 = "k1=va,k2=va,k3=vb"


def mc(ctx):
    cfg = core.render_cfg(spec="Spec", constants=K3, invariants=["TypeOK", "Converged", "ExclSound"],
                          properties=["Listeners"], view="core")
    r = ctx.tlc("Discov", cfg, constants=K3, name="Discov-mc", workers=6, coverage=True, timeout=900)
    ctx.check_coverage(r, ["Change", "Delete", "Disconnect", "Resume", "Reload", "Attach"])


def gen(ctx, name, K, maxlen, maxdisc, maxreload, simulate=None):
    G = dict(K, MaxLen=maxlen, MaxDisc=maxdisc, MaxReload=maxreload)
    cfg = core.render_cfg(spec="GSpec", constants=G, invariants=["Emit"])
    r = ctx.tlc("DiscovGen", cfg, constants=G, name=name, simulate=simulate, depth=maxlen + 1, timeout=1500,
                workers=(1 if simulate else 6), heap="8g")
    return r.printed


def run(ctx):
    mc(ctx)
    binp = ctx.go_build(PKG, OVERLAY, name="c15drv")
    plans = [("g5", K3, V3, dict(maxlen=5, maxdisc=2, maxreload=2))]
    for name, K, valof, kw in plans:
        cases = gen(ctx, name, K, **kw)
        path, cnt = ctx.write_cases(name + ".ndjson", cases)
        ctx.samples += core.sample_of(cases, 1)
        ctx.replay(PKG, OVERLAY, RUN, path, label=name, env=dict(VERIF_C15_VALOF=valof), shards=16, binp=binp)


def replay(ctx, rp):
    path, _ = ctx.write_cases("replay.ndjson", [rp["case"]])
    ctx.replay(PKG, OVERLAY, RUN, path, label="replay", env=dict(VERIF_C15_VALOF=V3))


FINISH = dict(rule="tbd")
META = dict(text="tbd", note="tbd", technique="tbd", design="4/C15")
