"""C15 - service discovery.  spec/Discov.tla (abstract view of the registry), spec/DiscovImpl.tla
(handleChanges / container mechanism, checked against Discov), spec/DiscovGen.tla (behaviour
generator) -> replay through the real discov.NewSubscriber on a scripted EtcdClient."""
import glob
import json
import os
import re
import time
from concurrent.futures import ThreadPoolExecutor
from vlib import core

PKG = "./lib/discov/internal"
OVERLAY = {"lib/discov/internal/zz_verif_c15_export_test.go": "c15/export_test.go",
           "lib/discov/internal/zz_verif_c15_test.go": "c15/discov_test.go"}
RUN = "^TestVerifC15$"
PKG_D = "./lib/discov"
OVERLAY_D = {"lib/discov/zz_verif_c15_container_test.go": "c15/container_test.go"}
RUN_D = "^TestVerifC15Container$"
CONN_OPS = ("disconnect", "resume", "reload")
# how long a NewSubscriber on an unreachable registry takes to fail (exported internal.DialTimeout,
# default 5 s; nothing listens at those endpoints, so the outcome does not depend on the value)
DIAL_MS = 2
ENV = dict(VERIF_C15_VALOF="k1=va,k2=va,k3=vb,k4=vb,r1=vb,r3=va", VERIF_C15_IDOF="r1=k1,r3=k3",
           VERIF_C15_DIAL_TIMEOUT_MS=DIAL_MS)


def consts(valof, subs, excl, mid, missed=3, idof=None):
    """valof: life -> value; idof: life -> name of the key in etcd (default: the life's own name)."""
    keys = sorted(valof)
    q = lambda xs: "{" + ",".join('"%s"' % x for x in xs) + "}"
    f = "(" + " @@ ".join('("%s" :> "%s")' % (k, valof[k]) for k in keys) + ")"
    g = "(" + " @@ ".join('("%s" :> "%s")' % (k, (idof or {}).get(k, k)) for k in keys) + ")"
    K = dict(Keys=q(keys), Vals=q(sorted(set(valof.values()))), ValOf=f, IdOf=g, Subs=q(subs), Excl=q(excl),
             MaxMissed=missed, MidLen=mid)
    return K, ",".join("%s=%s" % (k, valof[k]) for k in keys)


V2 = dict(k1="va", k2="va")
V3 = dict(k1="va", k2="va", k3="vb")
V4 = dict(k1="va", k2="va", k3="vb", k4="vb")
# lives r1 / r3: the keys k1 / k3 registered again with the other value (k3 / r1 share vb, k1 / r3 share va)
VR = dict(k1="va", k3="vb", r1="vb", r3="va")
IDR = dict(r1="k1", r3="k3")

META = dict(
    text="Model-based replay: spec/Discov.tla describes a model etcd (keys under one prefix, two keys sharing a "
         "value), the watch being up or down, the changes missed while it is down, reloads (snapshot + new watch "
         "from the snapshot revision, with changes hitting etcd in between) and subscribers (plain and exclusive) "
         "attaching at different times; it predicts, per step, the set of value lists Values() may show and whether "
         "the change listeners must have run. TLC model-checks the spec (Converged, ExclSound, Listeners) and the "
         "mechanism spec DiscovImpl.tla (snapshot diff against cluster.values, container maps) against it, then "
         "enumerates every behaviour up to a length bound (plus seeded simulation of longer ones). Every behaviour is "
         "executed through the public discov.NewSubscriber/Values/AddListener on the real registry, cluster and "
         "container code, with a scripted EtcdClient (Get = snapshot+revision, Watch = unbuffered channel fed by "
         "the driver from an event log honouring the requested start revision) seeded into the connection manager; "
         "after every step Values() of every subscriber and the listener counters are compared with the prediction. "
         "Behaviours with the same connection events are merged into multi-prefix cases (2-3 prefixes on one cluster, "
         "Discov instantiated per prefix, connection events shared); a sample is replayed with 3 goroutines calling "
         "Values() in a tight loop, and put/delete-only behaviours are replayed on the container with a reader queued on "
         "its lock when each event arrives (in-package, verdict still Values() at quiescence). "
         "The scripted client serves any Get/Watch by etcd's range semantics over the whole key space; a sample of "
         "behaviours runs with sibling services (svc2/..., svc-admin/...) registering and expiring in the same etcd. "
         "spec/DiscovConn.tla (one notification per outage, at the next READY) is enumerated and replayed on the real "
         "stateWatcher, and a sample of behaviours has its reloads triggered by that watcher from scripted state sequences "
         "(TRANSIENT_FAILURE/SHUTDOWN, then CONNECTING/IDLE paths to READY). "
         "A sample of behaviours is replayed with Get faults (quick errors, Gets blocking until the request deadline; "
         "RequestTimeout shortened to 200 ms through the exported package variable) injected into a reload or the "
         "initial load: the predictions are unchanged and a load that never finishes although the registry answers "
         "again is a disagreement. "
         "Histories may begin while the registry cannot be reached (Discov!AttachFail, generator constants "
         "MinFail/MaxFail): 1-2 NewSubscriber calls - for the same or another subscriber of the key - are made on an "
         "endpoint at which nothing listens (the real etcd client is dialled and fails after the exported DialTimeout, "
         "shortened to 2 ms), then the scripted client becomes the cluster's client and the retry and the usual steps "
         "follow (1 and 2 subscribers; also sampled into the Get-fault, sibling and connection-state stages and "
         "the simulations); DiscovImpl.tla carries the listener left registered by the failed attempt and rejects "
         "(JoinSkip) a Monitor that takes a registered listener for a running watch. "
         "A key that expires and is registered again with another value starts a new life (Discov.tla: Keys are lives, "
         "IdOf = the key's name in etcd, at most one life per id present, a life begins only when no other life of its id "
         "is present): plans r* (generator constant QuietUp: the registry changes only during outages) enumerate "
         "delete + put-with-another-value inside one outage - re-creation, re-creation with a value another live key "
         "carries, values swapped between two keys - for a plain, an exclusive and two subscribers; the reload snapshot "
         "then shows a key the cluster knew with another value (step field reval) and Values() must be the distinct "
         "values of the live keys (keys C15:stale-value|missing-value:<mode>:recreated-with-other-value). "
         "The driver waits for a watch after NewSubscriber only if that call took a snapshot (a joiner served from the "
         "cache starts none); a call of the code under test that is stuck at a barrier time-out (blocked inside the "
         "repository's code, unmoved a second later) and a panic / fatal error inside it - recovered on the driver's "
         "goroutines, read from the crashed shard's log otherwise - are disagreements with their own keys "
         "(C15:hang:*, C15:panic:*, C15:crash:<function>), not harness problems; harness problems are kept to the end "
         "of the run and never hide a disagreement.",
    note="Trusted: TLC, the scripted EtcdClient (model etcd written for this check), the barrier (an event of unknown "
         "type whose error log line acknowledges that the watch goroutine is idle again), in the generated behaviours "
         "cluster.reload is called by the driver; in the connection-state stage the real stateWatcher calls it from a "
         "scripted connectivity-state source (only the three wiring lines of cluster.watchConnState are repeated by the "
         "test export, since ActiveConnection() returns a concrete *grpc.ClientConn). Not covered: "
         "subscribers attaching while the watch is down, a registry becoming unreachable again for NewSubscriber "
         "after the first success (the client, once made, is kept), the real client's own dial/retry behaviour beyond "
         "'returns an error after DialTimeout', "
         "watch channel errors/cancellation, compaction, an in-place overwrite of a LIVE key with another value "
         "(excluded by the statement's 'one value during its life'; never generated), the mechanism model DiscovImpl "
         "for re-created keys (it is checked with one life per key; the order of OnDelete/OnAdd for a key whose value "
         "changed is judged on the real code only), events being processed concurrently with a reload (cluster.reload waits for the watch "
         "goroutines while holding the cluster lock: observed to deadlock when an event is in flight; outside the "
         "statement's 'once all delivered events have been processed'). Exclusive mode: where a snapshot/replay "
         "gives no order among keys sharing a value every order is admitted. Bounds: <= 4 keys (or 2 keys with 2 lives each), 2 values, <= 3 "
         "subscribers, <= 3 (re-creation plans: 4) missed changes per outage, <= 1 change between snapshot and new watch.",
    technique="TLA+ spec (Discov/DiscovImpl) + TLC-generated behaviours replayed through discov.NewSubscriber on a scripted etcd",
    design="4/C15")

FINISH = dict(rule="behaviours = complete TLC enumeration (BFS over the history variable) of all step sequences of "
                   "Discov!Next up to MaxLen steps from every initial key set, with MaxDisc disconnections, "
                   "MaxReload reloads and MinFail..MaxFail failed first attempts, plus seeded TLC simulation of longer behaviours; after every step Values() of "
                   "every attached subscriber must be one of the value sets the specification admits and listeners "
                   "must have run when the value list certainly changed")


def mc(ctx):
    K, _ = consts(V3, ["s1", "x1"], ["x1"], 1)
    cfg = core.render_cfg(spec="Spec", constants=K, invariants=["TypeOK", "Converged", "ExclSound"],
                          properties=["Listeners"], view="core")
    r = ctx.tlc("Discov", cfg, constants=K, name="Discov-mc", workers=(2 if ctx.quick else 4), coverage=True, timeout=900, heap="3g")
    ctx.check_coverage(r, ["Put", "Delete", "Disconnect", "Resume", "Reload", "Attach"])
    if "AttachFail" not in r.coverage:
        raise core.Infra("vacuous model: action AttachFail never evaluated (coverage keys: %s)" % sorted(r.coverage))
    # mechanism model (snapshot diff base, container maps) against the abstract spec
    KI, _ = consts(V3, ["s1", "x1"], ["x1"], 1, missed=(2 if ctx.quick else 3))
    KT = dict(KI, StoreBack=True, JoinSkip=False)
    cfg = core.render_cfg(spec="ISpec", constants=KT, invariants=["TypeOK", "Refines", "BaseIsView"], view="icore")
    ctx.tlc("DiscovImpl", cfg, constants=KT, name="DiscovImpl-storeback", workers=(2 if ctx.quick else 4), timeout=1200, heap="3g")
    # the same mechanism without storing the snapshot back: TLC's counterexample is a lead for the
    # replay (rule 1: not a verdict); it documents that the model separates the two trees
    KF = dict(KI, StoreBack=False, JoinSkip=False)
    cfg = core.render_cfg(spec="ISpec", constants=KF, invariants=["Refines"], view="icore")
    r = ctx.tlc("DiscovImpl", cfg, constants=KF, name="DiscovImpl-nostoreback", workers=1, timeout=1200, heap="3g",
                allow_violation=True)
    ctx.notes["model_lead"] = ("DiscovImpl with StoreBack=FALSE (handleChanges not storing the snapshot as the new diff base) "
                               "violates Refines: %s" % bool(r.violated))
    # the mechanism that takes "a listener is registered for the key" for "the key is being watched":
    # rejected only through a failed first attempt (the model separates the two trees; a lead)
    KJ = dict(KI, StoreBack=True, JoinSkip=True)
    cfg = core.render_cfg(spec="ISpec", constants=KJ, invariants=["Refines"], view="icore")
    r = ctx.tlc("DiscovImpl", cfg, constants=KJ, name="DiscovImpl-joinskip", workers=1, timeout=1200, heap="3g",
                allow_violation=True)
    ctx.notes["model_lead_joinskip"] = ("DiscovImpl with JoinSkip=TRUE (Monitor skipping load and watch when the key has a "
                                        "registered listener) violates Refines: %s" % bool(r.violated))
    if not r.violated:
        raise core.Infra("vacuous mechanism model: the tree that skips load and watch for a key with a registered listener "
                         "is not rejected after a failed first attempt")


def gen(ctx, name, K, maxlen, maxdisc, maxreload, simulate=None, minfail=0, maxfail=0, quietup=False):
    G = dict(K, MaxLen=maxlen, MaxDisc=maxdisc, MaxReload=maxreload, MinFail=minfail, MaxFail=maxfail, QuietUp=quietup)
    cfg = core.render_cfg(spec="GSpec", constants=G, invariants=["Emit"])
    r = ctx.tlc("DiscovGen", cfg, constants=G, name=name, simulate=simulate, depth=maxlen + 1, timeout=1500,
                workers=(1 if simulate else 6), heap="4g")
    return r.printed


def run(ctx):
    ctx._c15_deferred = []
    # model checking runs beside generation and replay (small models, 2 workers each)
    pool = ThreadPoolExecutor(1)
    mcf = pool.submit(mc, ctx)
    binp = ctx.go_build(PKG, OVERLAY, name="c15drv")
    A, _ = consts(V2, ["s1"], [], 0)
    B, _ = consts(V3, ["s1", "x1"], ["x1"], 1)
    X, _ = consts(V3, ["x1"], ["x1"], 1)
    D, _ = consts(V4, ["s1", "s2", "x1"], ["x1"], 1)
    # r*: keys that expire and are registered again with another value (lives r1 = k1 with k3's value,
    # r3 = k3 with k1's value: re-creation, re-creation with a value another live key has, swap);
    # the registry changes only during the outages, so that the length goes into delete + put + reload
    RA, _ = consts(VR, ["s1"], [], 0, missed=4, idof=IDR)
    RX, _ = consts(VR, ["x1"], ["x1"], 0, missed=4, idof=IDR)
    RB, _ = consts(VR, ["s1", "x1"], ["x1"], 0, missed=3, idof=IDR)
    # g*: histories whose first NewSubscriber succeeds; f*: histories that begin with 1..2 attempts
    # failing because the registry cannot be reached, then the retry, then the usual steps
    if ctx.quick:
        plans = [("gA7", A, dict(maxlen=7, maxdisc=2, maxreload=2)),
                 ("gB4", B, dict(maxlen=4, maxdisc=1, maxreload=2))]
        fplans = [("fA6", A, dict(maxlen=6, maxdisc=2, maxreload=2, minfail=1, maxfail=1)),
                  ("fB4", B, dict(maxlen=4, maxdisc=1, maxreload=2, minfail=1, maxfail=2))]
        rplans = [("rA7", RA, dict(maxlen=7, maxdisc=1, maxreload=1, quietup=True)),
                  ("rX7", RX, dict(maxlen=7, maxdisc=1, maxreload=1, quietup=True)),
                  ("rB6", RB, dict(maxlen=6, maxdisc=1, maxreload=1, quietup=True))]
        sims = [("sB12", B, dict(maxlen=12, maxdisc=3, maxreload=3, maxfail=1), 600)]
    else:
        plans = [("gA8", A, dict(maxlen=8, maxdisc=3, maxreload=3)),
                 ("gB5", B, dict(maxlen=5, maxdisc=2, maxreload=2)),
                 ("gX5", X, dict(maxlen=5, maxdisc=2, maxreload=3))]
        fplans = [("fA7", A, dict(maxlen=7, maxdisc=2, maxreload=2, minfail=1, maxfail=2)),
                  ("fB5", B, dict(maxlen=5, maxdisc=1, maxreload=2, minfail=1, maxfail=2))]
        rplans = [("rA9", RA, dict(maxlen=9, maxdisc=2, maxreload=2, quietup=True)),
                  ("rX9", RX, dict(maxlen=9, maxdisc=2, maxreload=2, quietup=True)),
                  ("rB7", RB, dict(maxlen=7, maxdisc=1, maxreload=2, quietup=True))]
        sims = [("sB14", B, dict(maxlen=14, maxdisc=4, maxreload=4, maxfail=1), 5000),
                ("sD20", D, dict(maxlen=20, maxdisc=5, maxreload=6, maxfail=2), 5000)]
    ctx.exhaustive = True
    for name, K, kw in plans + fplans + rplans:
        cases = gen(ctx, name, K, **kw)
        path, cnt = ctx.write_cases(name + ".ndjson", cases)
        ctx.samples += core.sample_of(cases, 1)
        stage(ctx, PKG, OVERLAY, RUN, path, label=name, env=ENV, shards=SHARDS, binp=binp)
    # Get faults (errors, time-outs) during a reload / the initial load: same predictions
    read = lambda name: open(os.path.join(ctx.build, name + ".ndjson")).read().splitlines()
    allc = [c for name, K, kw in plans for c in read(name)]
    failc = [c for name, K, kw in fplans for c in read(name)]
    fc = fault_cases(ctx, allc, 16 if ctx.quick else 96) + fault_cases(ctx, failc, 8 if ctx.quick else 48)
    path, cnt = ctx.write_cases("faults.ndjson", fc)
    stage(ctx, PKG, OVERLAY, RUN, path, label="faults", env=dict(ENV, VERIF_C15_REQ_TIMEOUT_MS=200), shards=SHARDS, binp=binp)
    # several prefixes on one cluster (the reload must reload and re-watch every one of them)
    mc_ = multi_cases(ctx, allc, 400 if ctx.quick else 6000)
    path, cnt = ctx.write_cases("multi.ndjson", mc_)
    ctx.samples += core.sample_of(mc_, 1)
    stage(ctx, PKG, OVERLAY, RUN, path, label="multi", env=ENV, shards=SHARDS, binp=binp)
    # sibling services sharing the subscriber's name as a string prefix
    sc_ = sibling_cases(ctx, allc, 3000 if ctx.quick else 40000) + sibling_cases(ctx, failc, 300 if ctx.quick else 4000)
    path, cnt = ctx.write_cases("siblings.ndjson", sc_)
    stage(ctx, PKG, OVERLAY, RUN, path, label="siblings", env=ENV, shards=SHARDS, binp=binp)
    # the real connection-state watcher: alone against spec/DiscovConn.tla, and end to end (its
    # notification starts the cluster's reload)
    KC = dict(MaxLen=(5 if ctx.quick else 7))
    cfg = core.render_cfg(spec="Spec", constants=KC, invariants=["OncePerOutage", "NoOutageNoNote", "Emit"])
    r = ctx.tlc("DiscovConn", cfg, constants=KC, name="DiscovConn-gen", workers=4, timeout=900, heap="3g")
    path, cnt = ctx.write_cases("statewatcher.ndjson", r.printed)
    stage(ctx, PKG, OVERLAY, "^TestVerifC15StateWatcher$", path, label="statewatcher", shards=SHARDS, binp=binp)
    cn_ = conn_cases(ctx, allc, 600 if ctx.quick else 8000) + conn_cases(ctx, failc, 100 if ctx.quick else 1500)
    path, cnt = ctx.write_cases("connstate.ndjson", cn_)
    ctx.samples += core.sample_of(cn_, 1)
    stage(ctx, PKG, OVERLAY, RUN, path, label="connstate", env=ENV, shards=SHARDS, binp=binp)
    # concurrent Values() readers: (a) 3 goroutines reading in a tight loop while the events of a
    # behaviour are fed, (b) a reader queued on the container lock at the moment each event arrives
    rc_ = reader_cases(ctx, allc, 3000 if ctx.quick else 40000)
    path, cnt = ctx.write_cases("readers.ndjson", rc_)
    stage(ctx, PKG, OVERLAY, RUN, path, label="readers", env=dict(ENV, VERIF_C15_READERS=3), shards=8, binp=binp)
    cc_ = container_cases(allc, 3000 if ctx.quick else 30000)
    path, cnt = ctx.write_cases("container.ndjson", cc_)
    stage(ctx, PKG_D, OVERLAY_D, RUN_D, path, label="container", env=ENV, shards=SHARDS)
    for name, K, kw, num in sims:
        cases = sorted(set(gen(ctx, name, K, simulate=num, **kw)))
        path, cnt = ctx.write_cases(name + ".ndjson", cases)
        ctx.samples += core.sample_of(cases, 1)
        stage(ctx, PKG, OVERLAY, RUN, path, label=name, env=ENV, shards=SHARDS, binp=binp)
    probe(ctx)
    ctx.assumptions += ["scripted EtcdClient stands for etcd (snapshot+revision, ordered watch from a requested revision)",
                        "cluster.reload is invoked by the driver, not by the gRPC connection-state watcher",
                        "a registry that cannot be reached = an endpoint at which nothing listens (the real etcd client is "
                        "dialled and fails after DialTimeout); it becomes reachable when the scripted client is made the "
                        "cluster's client"]
    # harness problems never hide what was seen on the real code; vacuity guards only without disagreements
    try:
        mcf.result()
    except core.Infra as e:
        ctx._c15_deferred.append(e)
    finally:
        pool.shutdown()
    if ctx._c15_deferred:
        if not ctx.disagreements:
            raise ctx._c15_deferred[0]
        ctx.notes["harness_problem_besides_disagreement"] = str(ctx._c15_deferred[0])[:1500]
    if not ctx.disagreements:
        vacuity(ctx, [n for n, _, _ in fplans])
        for n, _, _ in rplans:
            if ctx.counters.get(n + ".revalued_reloads", 0) < 50:
                raise core.Infra("vacuous run: plan %s replayed only %d reloads whose snapshot shows a known key with another "
                                 "value" % (n, ctx.counters.get(n + ".revalued_reloads", 0)))


SHARDS = 8


def vacuity(ctx, fnames):
    """The failed-first-attempt histories must really have had their failing attempts (NewSubscriber
    returning an error) and their retries."""
    for n in fnames:
        cases = ctx.counters.get(n + ".cases", 0)
        fa, ra = ctx.counters.get(n + ".failed_attempts", 0), ctx.counters.get(n + ".retried_attaches", 0)
        if cases == 0 or fa < cases or ra < cases:
            raise core.Infra("vacuous run: plan %s replayed %d histories with %d failed first attempts and %d retried "
                             "NewSubscriber calls" % (n, cases, fa, ra))


def stage(ctx, pkg, overlay, run, path, *, label, **kw):
    """ctx.replay, except that a harness problem is kept for the end of the run (it must not hide a
    disagreement seen in another shard or stage) and that a driver process brought down by the code
    under test - a panic or a fatal runtime error on one of its own goroutines - is a finding."""
    try:
        return ctx.replay(pkg, overlay, run, path, label=label, **kw)
    except core.Infra as e:
        n = salvage(ctx, label, path)
        core.log("stage %s: harness problem (%d disagreements recovered from its shards): %s" % (label, n, str(e)[:300]))
        if n == 0:
            ctx._c15_deferred.append(e)
        else:
            ctx.notes.setdefault("harness_problems", []).append(str(e)[:600])
        return {}, []


STD = ("runtime.", "runtime/", "sync.", "sync/", "time.", "internal/", "panic(", "testing.", "reflect.")


def crash_site(out):
    """(function, message) if the process log shows a panic / fatal error whose innermost frame
    below the runtime lies in the repository's own code (not in an overlaid zz_verif file)."""
    m = re.search(r"^(panic: .*|fatal error: .*)$", out, re.M)
    if not m or "test timed out" in m.group(1):
        return None
    rest = out[m.end():]
    g = re.search(r"^goroutine \d+ \[[^\]]*\]:\n", rest, re.M)
    if not g:
        return None
    lines = rest[g.end():].split("\n\n")[0].splitlines()
    for j in range(0, len(lines) - 1, 2):
        fn, where = lines[j], lines[j + 1].strip()
        if fn.startswith("created by "):
            break
        if fn.startswith(STD):
            continue
        if "github.com/gotid/god/" in fn and "zz_verif" not in where and "/internal/verifkit" not in fn:
            short = re.sub(r"\([^()]*\)$", "", fn).split("/")[-1].split(".", 1)[-1].replace("(*", "").replace(")", "")
            return short, m.group(1) + "\n" + "\n".join(lines[:24])
        return None
    return None


def salvage(ctx, label, path):
    """After ctx.replay gave up on a stage: wait for its shard processes, then record (a) the
    disagreements the shards did report, (b) crashes caused by the code under test."""
    logs = sorted(glob.glob(os.path.join(ctx.build, "%s-[0-9]*.out" % label)))
    shard = lambda lp: lp[:-4].rsplit("-", 1)[1]
    vfile = lambda lp: os.path.join(ctx.build, "verdicts-%s-%s.ndjson" % (label, shard(lp)))

    def finished(lp):
        out = open(lp, errors="replace").read()
        if re.search(r"^(panic: |fatal error: |FAIL|PASS|ok )", out, re.M):
            return True
        vf = vfile(lp)
        return os.path.exists(vf) and '"counters"' in open(vf).read()[-4000:]

    t0 = time.time()
    while time.time() - t0 < 180 and not all(finished(lp) for lp in logs):
        time.sleep(1)
    raws = open(path).read().splitlines() if path and os.path.exists(path) else []
    have = set((d.get("label"), d.get("key"), d.get("case")) for d in ctx.disagreements)
    n = 0

    def add(key, msg, idx, step=None):
        nonlocal n
        case = raws[idx] if idx is not None and 0 <= idx < len(raws) else None
        if (label, key, case) in have:
            return
        have.add((label, key, case))
        ctx.disagreements.append(dict(key=key, msg=msg, step=step, case=case, source="replay", label=label))
        n += 1

    for lp in logs:
        vf = vfile(lp)
        if os.path.exists(vf):
            for line in open(vf).read().splitlines():
                try:
                    b = json.loads(line)
                except ValueError:
                    continue
                if "counters" in b or b.get("infra") or b.get("ok"):
                    continue
                add(b.get("key", ""), b.get("msg", ""), b.get("case"), b.get("step"))
        site = crash_site(open(lp, errors="replace").read())
        if site:
            idx = None
            try:
                idx = int(open(vf + ".cur").read().strip())
            except (OSError, ValueError):
                pass
            add("C15:crash:" + site[0], "the driver process was brought down inside the code under test while replaying "
                "this history: " + site[1], idx)
    return n


FAULTS = [["err"], ["block"], ["err", "err"], ["block", "err"], ["err", "block"], ["block", "block"]]


def fault_cases(ctx, cases, n):
    """Get faults are below the abstraction of Discov.tla (a failing Get is a longer outage): the
    predictions of a generated behaviour stay as they are, one of its reload steps (or its first
    attach = the initial load) is annotated with a fault pattern for the scripted Get."""
    import json, random
    rng = random.Random(ctx.seed * 7919 + 15)
    withrel = [c for c in cases if '"op":"reload"' in c and '"op":"disconnect"' in c]
    out = []
    for i, raw in enumerate(rng.sample(withrel, min(n, len(withrel)))):
        steps = json.loads(raw)
        if i % 4 == 3:
            tgt = [j for j, st in enumerate(steps) if st["op"] == "attach"][:1]
        else:
            tgt = [j for j, st in enumerate(steps) if st["op"] == "reload"]
            tgt = [tgt[rng.randrange(len(tgt))]]
        steps[tgt[0]]["faults"] = FAULTS[i % len(FAULTS)]
        out.append(json.dumps(steps, separators=(",", ":")))
    return out


def multi_cases(ctx, cases, n):
    """Several prefixes watched through one cluster: Discov.tla instantiated per prefix (independent
    key spaces and subscribers), the connection events (disconnect / resume / reload) shared.  Built
    from generated single-prefix behaviours with the same sequence of connection events: between two
    connection events the local steps of the prefixes are interleaved, each connection event becomes
    one step carrying every prefix's prediction (and its own changes between snapshot and new watch)."""
    import json, random
    rng = random.Random(ctx.seed * 104729 + 15)
    groups = {}
    for raw in cases:
        if '"op":"reload"' not in raw:
            continue
        steps = json.loads(raw)
        sig = tuple(st["op"] for st in steps if st["op"] in CONN_OPS)
        groups.setdefault(sig, []).append(steps)
    sigs = sorted(g for g in groups if len(groups[g]) >= 3)
    out = []
    while sigs and len(out) < n:
        sig = sigs[rng.randrange(len(sigs))]
        picks = rng.sample(groups[sig], 2 + (len(out) % 2))
        segs = []
        for b in picks:
            cur, ss, cs = [], [], []
            for st in b:
                if st["op"] in CONN_OPS:
                    ss.append(cur)
                    cs.append(st)
                    cur = []
                else:
                    cur.append(st)
            ss.append(cur)
            segs.append((ss, cs))
        merged = []
        for j in range(len(sig) + 1):
            pend = [[dict(st, p=i) for st in segs[i][0][j]] for i in range(len(picks))]
            while any(pend):
                i = rng.choice([i for i in range(len(picks)) if pend[i]])
                merged.append(pend[i].pop(0))
            if j < len(sig):
                merged.append(dict(op=sig[j], shared=[dict(segs[i][1][j], p=i) for i in range(len(picks))]))
        out.append(json.dumps(merged, separators=(",", ":")))
    return out


def reader_cases(ctx, cases, n):
    """Behaviours with batches of events (resume / reload) for the concurrent-reader stage."""
    import random
    rng = random.Random(ctx.seed * 611953 + 15)
    pool = [c for c in cases if '"op":"resume"' in c or '"op":"reload"' in c]
    return rng.sample(pool, min(n, len(pool)))


def container_cases(cases, n):
    """Behaviours made of one attach followed by watch-delivered puts and deletes only."""
    import json
    out = []
    for raw in cases:
        if any(('"op":"%s"' % o) in raw for o in CONN_OPS) or raw.count('"op":"attach"') != 1:
            continue
        if json.loads(raw)[1]["op"] == "attach":
            out.append(raw)
        if len(out) >= n:
            break
    return out


RECOVERIES = [["TRANSIENT_FAILURE", "CONNECTING", "READY"], ["TRANSIENT_FAILURE", "IDLE", "CONNECTING", "READY"],
              ["TRANSIENT_FAILURE", "READY"], ["TRANSIENT_FAILURE", "CONNECTING", "TRANSIENT_FAILURE", "CONNECTING", "READY"],
              ["SHUTDOWN", "CONNECTING", "READY"], ["TRANSIENT_FAILURE", "IDLE", "READY"], ["SHUTDOWN", "READY"]]


def conn_cases(ctx, cases, n):
    """Reloads triggered by the real stateWatcher: behaviours without a self-resuming watch, their
    disconnect steps become a reported failure state, their reload steps a scripted recovery
    (a reload without a preceding disconnect is a short outage that lost nothing)."""
    import json, random
    rng = random.Random(ctx.seed * 15485863 + 15)
    pool = [c for c in cases if '"op":"reload"' in c and '"op":"resume"' not in c]
    out = []
    for i, raw in enumerate(rng.sample(pool, min(n, len(pool)))):
        steps = json.loads(raw)
        steps[0]["conn"] = True
        j = i
        for st in steps:
            if st["op"] == "disconnect":
                st["states"] = [rng.choice(["TRANSIENT_FAILURE", "TRANSIENT_FAILURE", "SHUTDOWN"])]
            elif st["op"] == "reload":
                st["states"] = RECOVERIES[j % len(RECOVERIES)]
                j += 1
        out.append(json.dumps(steps, separators=(",", ":")))
    return out


SIBLINGS = [("svc2/k1", "vz"), ("svc-admin/k1", "vy"), ("svc2/k2", "vz"), ("svc0", "vx"), ("svc/../svd", "vw")][:4]


def sibling_cases(ctx, cases, n):
    """Other services whose names extend the subscriber's ("svc2/...", "svc-admin/...") register and
    expire in the same etcd while the behaviour runs: the predictions do not change."""
    import json, random
    rng = random.Random(ctx.seed * 32452843 + 15)
    pool = [c for c in cases if '"op":"reload"' in c]
    out = []
    for raw in rng.sample(pool, min(n, len(pool))):
        steps = json.loads(raw)
        present = set()
        for st in steps:
            if st["op"] in ("attach",) or rng.random() < 0.35:
                continue
            sib = []
            for _ in range(rng.randint(1, 2)):
                key, val = SIBLINGS[rng.randrange(len(SIBLINGS))]
                if key in present and rng.random() < 0.5:
                    present.discard(key)
                    sib.append(dict(op="del", key=key, val=""))
                else:
                    present.add(key)
                    sib.append(dict(op="put", key=key, val=val))
            st["sib"] = sib
        out.append(json.dumps(steps, separators=(",", ":")))
    return out


def probe(ctx):
    """A key re-created with another value during an outage, outside the generated behaviours (kept as a
    plain record next to the judged plans r*)."""
    import json, os
    out = os.path.join(ctx.build, "c15probe.json")
    rc, txt = ctx.go_test(PKG, OVERLAY, "^TestVerifC15Probe$", env=dict(VERIF_C15_PROBE_OUT=out), name="probe", timeout=120)
    if rc == 0 and os.path.exists(out):
        ctx.notes["probe"] = json.load(open(out))
    else:
        ctx.notes["probe"] = "probe did not run (rc=%s)" % rc


def replay(ctx, rp):
    ctx._c15_deferred = []
    path, _ = ctx.write_cases("replay.ndjson", [rp["case"]])
    env = dict(ENV)
    if '"faults"' in rp["case"]:
        env["VERIF_C15_REQ_TIMEOUT_MS"] = 200
    if rp.get("label") == "container":
        stage(ctx, PKG_D, OVERLAY_D, RUN_D, path, label="replay", env=env)
    else:
        if rp.get("label") == "readers":
            env["VERIF_C15_READERS"] = 3
        stage(ctx, PKG, OVERLAY, RUN, path, label="replay", env=env)
    if ctx._c15_deferred and not ctx.disagreements:
        raise ctx._c15_deferred[0]
