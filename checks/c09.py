"""C09 - rolling window and adaptive shedder.  spec/RollingWindow.tla (abstract, bucket-aligned),
spec/RollingWindowImpl.tla (offset/lastTime/span mechanism, refinement checked by TLC),
spec/RollingWindowLock.tla (extent of rw.lock in Reduce: a reduction split into select/visit/return is atomic only when
the lock spans the callbacks), spec/RollingWindowGen.tla -> replay on collection.RollingWindow under the virtual clock
(sequential histories, concurrent adders, reductions held in their callback and overlapped by a clock advance + an Add);
spec/Shedder.tla + ShedderGen.tla -> replay on load.adaptiveShedder with an injected CPU reading;
spec/ShedGate.tla -> the HTTP handler / gRPC interceptor report exactly one Pass or Fail per admitted request."""
import os, threading
from vlib import core

W = 6
SHARDS = 12
OV_SHARDS = 8      # overlap families: two goroutines per step, keep the machine's share small
PKG_W = "./lib/collection"
OV_W = {"lib/collection/zz_verif_c09_test.go": "c09/window_test.go"}
PKG_S = "./lib/load"
OV_S = {"lib/load/zz_verif_c09_test.go": "c09/shedder_test.go"}
PKG_H = "./api/handler"
OV_H = {"api/handler/zz_verif_c09_test.go": "c09/gate_http_test.go"}
PKG_R = "./rpc/internal/serverinterceptors"
OV_R = {"rpc/internal/serverinterceptors/zz_verif_c09_test.go": "c09/gate_rpc_test.go"}

META = dict(
    text="Model-based replay with a refinement check. TLC (a) checks on the abstract window (RollingWindow.tla) that the "
         "buckets always equal the logged adds of the last `size` bucket intervals, (b) checks that the transcription "
         "of offset/lastTime/span()/updateOffset()/Reduce() (RollingWindowImpl.tla) refines it for sizes 1-4, quarter-"
         "bucket advances up to size+2 buckets, (c) enumerates Add/Reduce histories with sub-bucket, multi-bucket and "
         "multi-window gaps (RollingWindowGen.tla, both ignore-current settings, concurrent adders at a frozen clock, "
         "walk-out over every expiry boundary) that are replayed on the real RollingWindow under the timex virtual "
         "clock, comparing the multiset of non-empty buckets and the totals; (c') overlap steps: a Reduce is held inside "
         "its callback after 0..3 buckets, the clock moves on by 0..size+1 bucket intervals and another goroutine calls "
         "Add (waited for only until it returned or is parked on a lock), the callback is let go: the reduction must equal "
         "the specification's report of ONE moment (before the advance / after it / after the add - Reduce is one atomic "
         "action of RollingWindow.tla; RollingWindowLock.tla shows that the mechanism has this property iff rw.lock spans "
         "the callbacks), and the add is visible afterwards (next reduction, walk-out); (d) model-checks Shedder.tla (P1 no "
         "rejection while cool, P2 rejection only above the window capacity, P3 in-flight = admitted - completed) and "
         "replays ShedderGen.tla behaviours (CPU reading injected through systemOverloadChecker, both decisions "
         "generated wherever a rejection is permitted) on the real adaptive shedder, comparing the in-flight count "
         "after every step and every rejection against the specification's permission and capacity; (e) the HTTP "
         "handler and the gRPC interceptor are driven with a counting Shedder: one Pass or Fail per admitted request.",
    note="Implications stay implications: an admission where a rejection was permitted is never a violation (the sibling "
         "behaviour is replayed instead). The smoothing constant is not compared: the real smoothed count is read "
         "in-package and checked against the specification's capacity and against [0, max in-flight seen by a "
         "completion]. Capacity borderlines (rounded vs exact average latency, float product on an integer) are not "
         "generated. Real CPU sampling (lib/stat) is replaced by the injected reading. Window values are small "
         "integers (exact in float64). Trusted: TLC, timex/mathx hooks, Go runtime.",
    technique="TLA+ specs (RollingWindow/RollingWindowImpl/Shedder) + TLC refinement check + TLC-generated behaviours replayed on the real code",
    design="4/C09")

FINISH = dict(rule="behaviours = complete TLC enumeration (BFS over the history variable) of macro-steps [advance; op] up to "
                   "MaxOps operations (window: every advance class from 0 to size+2 buckets; overlap families: every [prefix; "
                   "gap; held reduction x advance during it x buckets read before the hold; add by another goroutine]; shedder: scripted families "
                   "around bursts, completions, overload and the cool-off second) plus seeded TLC simulation of longer "
                   "behaviours; every reduction / every Allow decision and in-flight count is compared with the "
                   "specification")


# ------------------------------------------------------------------------------------ model checking

def mc(ctx, workers=W):
    combos = [(1, 2, True), (2, 2, False), (3, 2, True)] if ctx.quick else \
             [(s, q, i) for (s, q) in [(1, 4), (2, 4), (3, 2), (3, 4), (4, 2)] for i in (True, False)]
    for size, q, ign in combos:
        K = dict(Size=size, Q=q, IgnoreCurrent=ign, Advances="0..%d" % ((size + 1) * q + 1), Vals="{1,2}")
        tag = "s%dq%d%s" % (size, q, "i" if ign else "c")
        cfg = core.render_cfg(spec="Spec", constants=K, invariants=["Aligned", "AbsExact", "AbsReduceExact"],
                              properties=["Refines"], constraints=["Bound"], action_constraints=["NoDoubleAdv"])
        ctx.tlc("RollingWindowImpl", cfg, constants=K, name="RWImpl-" + tag, timeout=1200, workers=workers,
                defs=dict(Bound="Len(log) <= 2 /\\ now <= %d" % (2 * ((size + 1) * q + 1)),
                          NoDoubleAdv='~(out.op = "advance" /\\ out\'.op = "advance")'))
    K = dict(Size=3, Q=2, IgnoreCurrent=True, Advances="0..9", Vals="{1,2}")
    cfg = core.render_cfg(spec="Spec", constants=K, invariants=["TypeOK", "Exact", "ReduceExact"], constraints=["Bound"])
    ctx.tlc("RollingWindow", cfg, constants=K, name="RW-abs", timeout=900, workers=workers,
            defs=dict(Bound="Len(log) <= %d /\\ now <= 16" % (2 if ctx.quick else 3)))
    # extent of rw.lock in Reduce: the reduction split into select / visit ... / return, overlapped by advances and adds
    # of other goroutines.  "locked" (the lock spans the callbacks) must satisfy Atomic, "unlocked" must violate it
    # (vacuity guard of the model: the overlap dimension can tell the two apart).
    lock_runs = [(3, 2, True, "locked"), (3, 2, True, "unlocked")] if ctx.quick else \
                [(s, 2, i, v) for s in (2, 3, 4) for i in (True, False) for v in ("locked", "unlocked")]
    for size, q, ign, variant in lock_runs:
        K = dict(Size=size, Q=q, IgnoreCurrent=ign, Advances=("{0,1,2,%d}" if ctx.quick else "{0,1,2,4,%d}") % (2 * size + 1),
                 Vals="{1,2}", Variant='"%s"' % variant)
        cfg = core.render_cfg(spec="LSpec", constants=K, invariants=["Atomic"], constraints=["Bound"], view="lview")
        r = ctx.tlc("RollingWindowLock", cfg, constants=K, name="RWLock-s%d%s-%s" % (size, "i" if ign else "c", variant), timeout=1200,
                    workers=workers, allow_violation=True,
                    defs=dict(Bound="now <= %d /\\ \\A p \\in Pos : ring[p].count <= %d" % (4 * size, 1 if ctx.quick else 2)))
        if variant == "locked" and r.violated:
            raise core.Infra("RollingWindowLock: the locked reduction violates %s (model problem)\n%s" % (r.violated, r.trace_text[-1500:]))
        if variant == "unlocked" and r.violated != "Atomic":
            raise core.Infra("vacuous lock model: a reduction whose callbacks run outside rw.lock is not refuted (violated=%s)" % r.violated)
    # shedder: buckets of 500 ms (W = 2), cool-off = 4 ticks
    K = dict(Size=(2 if ctx.quick else 3), Q=2, TickUs=250000, Advances="{0,1,2,5}", MaxFly=3, CalmK=2)
    bound = "now <= 6 /\\ \\A j \\in Ages : passBk[j] <= 1"
    cfg = core.render_cfg(spec="Spec", constants=K, invariants=["TypeOK", "AgedOut", "HighsShape"],
                          properties=["P1", "P2", "P2b", "P3", "P4", "WindowsFedByPass"], constraints=["Bound"], view="core")
    ctx.tlc("Shedder", cfg, constants=K, name="Shedder-mc", timeout=1500, workers=workers, defs=dict(Bound=bound))
    # vacuity guard: a rejection must be reachable in that model
    K2 = dict(K, Size=2)
    cfg = core.render_cfg(spec="Spec", constants=K2, invariants=["NeverDrops"], constraints=["Bound"])
    r = ctx.tlc("Shedder", cfg, constants=K2, name="Shedder-reach", timeout=600, workers=workers, allow_violation=True,
                defs=dict(Bound="now <= 6 /\\ \\A j \\in Ages : passBk[j] <= 1", NeverDrops='~(out.op = "allow" /\\ out.drop)'))
    if r.violated != "NeverDrops":
        raise core.Infra("vacuous shedder model: no rejection reachable (P1/P2 would hold trivially)")


# ------------------------------------------------------------------------------------ rolling window

def advs(size, q, full):
    if full:
        return "0..%d" % ((size + 2) * q)
    s = {0, 1, q - 1, q, q + 1, q * size - 1, q * size, q * size + 1, (size + 2) * q}
    if size > 2:
        s.add(q * (size - 1))
    return "{" + ",".join(str(x) for x in sorted(s)) + "}"


def gen_w(ctx, name, size, q, ign, maxops, adv, burst="{40}", vals="{1,2}", simulate=None, depth=None, ov=None, workers=W):
    # ov = (OvMax, OvAdvances, OvGates): overlap steps (a held reduction overlapped by a clock advance and an Add of another
    # goroutine); the overlapping add carries a value of its own (5) so that its bucket is recognisable in every report
    ovmax, ovadv, ovgates = ov or (0, "{}", "{}")
    K = dict(Size=size, Q=q, IgnoreCurrent=ign, Advances=adv, Vals=vals, MaxOps=maxops, Burst=burst,
             OvMax=ovmax, OvAdvances=ovadv, OvGates=ovgates, OvVals="{5}")
    cfg = core.render_cfg(spec="GSpec", constants=K, invariants=["Emit"])
    r = ctx.tlc("RollingWindowGen", cfg, constants=K, name=name, simulate=simulate, depth=depth, timeout=1200,
                workers=(1 if simulate else workers))
    return r.printed


def window(ctx, binp):
    plans = []
    for ign in (True, False):
        t = "i" if ign else "c"
        if ctx.quick:
            plans += [("w1" + t, 1, 4, ign, 3, advs(1, 4, False), None, "{1,2}"), ("w3" + t, 3, 4, ign, 3, advs(3, 4, False), None, "{2}"),
                      ("w2" + t, 2, 4, ign, 2, advs(2, 4, True), None, "{1,2}"), ("w4" + t, 4, 4, ign, 2, advs(4, 4, True), None, "{1,2}"),
                      ("ws40" + t, 40, 4, ign, 40, "{0,1,3,4,5,40,159,160,161,168}", (300, 42), "{1,2}", (40, "{8,161}", "{1}"))]
        else:
            plans += [("w1" + t, 1, 4, ign, 4, advs(1, 4, False), None, "{1,2}"), ("w2" + t, 2, 4, ign, 3, advs(2, 4, True), None, "{2}"),
                      ("w3" + t, 3, 4, ign, 3, advs(3, 4, True), None, "{2}"), ("w3d" + t, 3, 4, ign, 4, "{0,1,4,5,11,12,13,20}", None, "{2}"),
                      ("w4" + t, 4, 4, ign, 3, advs(4, 4, False), None, "{1,2}"),
                      ("ws4" + t, 4, 4, ign, 50, advs(4, 4, True), (3000, 52), "{1,2,3}", (50, "{1,4,9,17}", "{2}")),   # overlap choices kept few: simulation cost grows with the enabled successors
                      ("ws40" + t, 40, 4, ign, 50, "{0,1,3,4,5,40,159,160,161,168}", (2000, 52), "{1,2,3}", (50, "{8,161}", "{1}")),
                      ("ws50" + t, 50, 4, ign, 50, "{0,1,2,4,7,50,199,200,201,240}", (2000, 52), "{1,2,3}", (50, "{4,202}", "{3}"))]
    for name, size, q, ign, maxops, adv, sim, vals, *ov in plans:
        cases = gen_w(ctx, name, size, q, ign, maxops, adv, vals=vals, simulate=(sim[0] if sim else None), depth=(sim[1] if sim else None),
                      ov=(ov[0] if ov else None))
        path, cnt = ctx.write_cases(name + ".ndjson", cases)
        ctx.samples += core.sample_of(cases, 1)
        ctx.replay(PKG_W, OV_W, "^TestVerifC09Window$", path, label=name, shards=SHARDS, gomaxprocs=4, binp=binp,
                   env=dict(VERIF_SIZE=size, VERIF_Q=q, VERIF_IGNORE=(1 if ign else 0)))


def overlap(ctx, binp, workers=W):
    """A Reduce whose callback is held, overlapped by a clock advance of 0 .. size+1 bucket intervals and an Add issued by
    another goroutine (RollingWindowGen!Overlap): the reduction must report the window of ONE moment (before the advance,
    after it, after the add); the add must be visible afterwards.  Exhaustive over [prefix of adds/reduces with sub-bucket,
    bucket and beyond-window gaps; gap before the reduction; advance during it; number of buckets read before it is held]."""
    plans = []
    for ign in (True, False):
        t = "i" if ign else "c"
        if ctx.quick:
            plans += [("o3" + t, 3, 2, ign, 3, "{0,1,2,7}", "{1,2}", (1, "{0,1,2,3,4,6,8}", "{0,1}"))]
        else:
            plans += [("o1" + t, 1, 2, ign, 3, "{0,1,2,3,5}", "{1,2}", (1, "0..5", "{0,1}")),
                      ("o2" + t, 2, 2, ign, 3, "{0,1,2,3,5}", "{1,2}", (1, "0..7", "{0,1,2}")),
                      ("o3" + t, 3, 2, ign, 4, "{0,1,2,7}", "{2}", (1, "0..9", "{0,1,2,3}")),
                      ("o3q" + t, 3, 4, ign, 3, advs(3, 4, False), "{2}", (1, "{0,1,4,5,8,12,13,16}", "{1,2}")),
                      ("o4" + t, 4, 2, ign, 3, "{0,1,2,3,9}", "{1,2}", (1, "0..11", "{0,1,2,3}"))]
    for name, size, q, ign, maxops, adv, vals, ov in plans:
        cases = gen_w(ctx, name, size, q, ign, maxops, adv, burst="{}", vals=vals, ov=ov, workers=workers)
        path, cnt = ctx.write_cases(name + ".ndjson", cases)
        ctx.samples += core.sample_of([c for c in cases if '"overlap"' in c][:200], 1)
        ctx.replay(PKG_W, OV_W, "^TestVerifC09Window$", path, label=name, shards=OV_SHARDS, gomaxprocs=4, binp=binp,
                   env=dict(VERIF_SIZE=size, VERIF_Q=q, VERIF_IGNORE=(1 if ign else 0)))


def overlap_vacuity(ctx):
    """Evaluated only when no disagreement was found: the overlap families must really have held reductions while the
    clock moved and another goroutine added, for both ignore-current settings and for every class of advance."""
    for t in ("i", "c"):
        tot = {}
        for k, v in ctx.counters.items():
            lab, _, cnt = k.partition(".")
            if lab.startswith("o") and lab.endswith(t) and cnt.startswith("overlaps"):
                tot[cnt] = tot.get(cnt, 0) + v
        ctx.notes["overlaps_" + t] = tot
        missing = [c for c in ("overlaps", "overlaps_gap0", "overlaps_gap<bucket", "overlaps_gap<window", "overlaps_gap>=window") if not tot.get(c)]
        if missing:
            raise core.Infra("vacuous overlap families (%s): counters %s are 0" % (t, missing))
    ctx.notes["overlap_adds_not_blocked"] = sum(v for k, v in ctx.counters.items() if k.endswith(".overlap_add_not_blocked"))


# ------------------------------------------------------------------------------------ shedder

def script(*steps):
    return "<<" + ", ".join("[ops |-> {%s}, adv |-> {%s}]" % (",".join('"%s"' % o for o in ops), ",".join(str(a) for a in adv))
                            for ops, adv in steps) + ">>"


ANY = ("allowHot", "allowCool", "burstS", "burstL", "pass", "fail", "passn", "failn", "quiet")


def gen_s(ctx, name, size, q, maxops, adv, scr, simulate=None, depth=None):
    K = dict(Size=size, Q=q, TickUs=TICKUS, Advances=adv, MaxFly=380, CalmK=300, MaxOps=maxops, Script=scr)
    cfg = core.render_cfg(spec="GSpec", constants=K, invariants=["Emit"])
    r = ctx.tlc("ShedderGen", cfg, constants=K, name=name, simulate=simulate, depth=depth, timeout=1500,
                workers=(1 if simulate else W))
    return r.printed


TICKUS = 250   # one specification tick = 0.25 ms: latencies of 0.25, 0.5, 1.5, 1.75, 2.25 ms are 1, 2, 6, 7, 9 ticks
MS = 4         # ticks per millisecond


def shedder(ctx):
    binp = ctx.go_build(PKG_S, OV_S, name="c09shed")
    plans = []
    # (4 s, 4 buckets): bucket = 1 s = 4000 ticks, W = 1; (1 s, 10 buckets) and the default (5 s, 50 buckets): bucket = 400 ticks, W = 10
    S = 1000 * MS
    A1 = "{0,1,2,6,9,%d,%d,%d,%d,%d,%d,%d}" % (125 * MS, 250 * MS, S - 100, S, S + 100, S + 1, 2 * S)
    A10 = "{0,1,2,6,7,9,%d,%d,%d,%d,%d,%d,%d}" % (25 * MS, 100 * MS, 125 * MS, 250 * MS, S - 100, S, S + 100)
    free = script((ANY[:-1], [0, 6, S]))      # exhaustive family: without the quiet macro
    freesim = script((ANY, [0, 1, 6, 9, 125 * MS, S - 100, S, S + 100]))
    # sub-millisecond / fractional-millisecond latencies with many passes per bucket: the capacity from the true
    # latencies is several requests, the capacity from latencies rounded down to whole milliseconds is smaller
    subms = script((["burstL"], [0]), (["passn"], [1, 7]), (["burstL"], [0]), (["passn"], [7, 9]),
                   (["burstL"], [0]), (["passn"], [6, 7]), (["burstS"], [100 * MS, 150 * MS]),
                   (["allowHot"], [0]), (["allowHot"], [0]), (["allowHot"], [0]))
    # busy phase completed via Pass (smoothed count high), the rest drained via Fail, quiet Fail-only traffic, then an
    # overload burst: the smoothed count must have followed the in-flight history down (Shedder!P4)
    calm = script((["burstL"], [0]), (["passn"], [6, 125 * MS]), (["failn"], [0]), (["quiet"], [0, 100 * MS, S + 100]),
                  (["burstS"], [0, 100 * MS, S + 100]), (["allowHot"], [0]), (["allowHot"], [0]))
    if ctx.quick:
        cool = script((["burstL"], [0]), (["fail", "passn"], [0, 125 * MS]), (["allowHot"], [0, 125 * MS, S]),
                      (["allowHot", "allowCool", "fail"], [0, S - 100, S, S + 100]), (["allowCool", "allowHot"], [0, S - 1, S, S + 1]))
        capf = script((["burstL"], [0]), (["passn", "pass"], [6, 125 * MS, S]), (["burstL"], [0, S + 100]), (["fail", "failn"], [0]),
                      (["allowHot"], [0, S]))
        plans += [("s4cool", 4, S, 5, A1, cool, None), ("s4free", 4, S, 3, A1, free, None),
                  ("s4cap", 4, S, 5, A1, capf, None), ("s10sub", 10, 100 * MS, 10, A10, subms, None),
                  ("s4calm", 4, S, 7, A1, calm, None),
                  ("s4sim", 4, S, 14, A1, freesim, (1000, 16)),
                  ("s10sim", 10, 100 * MS, 14, A10, script((ANY, [0, 1, 2, 6, 9, 100 * MS, 125 * MS, S])), (1000, 16)),
                  ("s50sim", 50, 100 * MS, 14, A10, script((ANY, [0, 1, 6, 9, 100 * MS, 125 * MS, S])), (500, 16))]
    else:
        cool = script((["burstL"], [0]), (["fail", "pass", "passn", "failn"], [0, 6, 125 * MS, 250 * MS]), (["allowHot"], [0, 125 * MS, S]),
                      (["allowHot", "allowCool", "pass", "fail"], [0, S - 100, S, S + 100]),
                      (["allowCool", "allowHot"], [0, S - 1, S, S + 1, 2 * S]))
        capf = script((["burstS", "burstL"], [0]), (["passn", "pass"], [6, 125 * MS, S]), (["burstL", "burstS"], [0, S + 100]),
                      (["passn", "failn", "fail"], [0, S]), (["allowHot"], [0, S, 2 * S]), (["allowHot", "allowCool"], [0, S]))
        plans += [("s4cool", 4, S, 5, A1, cool, None), ("s4free", 4, S, 4, A1, script((ANY[:-1], [0, S])), None),
                  ("s4cap", 4, S, 6, A1, capf, None), ("s10cool", 10, 100 * MS, 5, A10, cool, None),
                  ("s10sub", 10, 100 * MS, 10, A10, subms, None), ("s50sub", 50, 100 * MS, 10, A10, subms, None),
                  ("s4calm", 4, S, 7, A1, calm, None), ("s10calm", 10, 100 * MS, 7, A10, calm, None),
                  ("s4sim", 4, S, 20, A1, freesim, (8000, 22)),
                  ("s10sim", 10, 100 * MS, 20, A10, script((ANY, [0, 1, 2, 6, 9, 100 * MS, 125 * MS, S])), (8000, 22)),
                  ("s50sim", 50, 100 * MS, 20, A10, script((ANY, [0, 1, 6, 9, 100 * MS, 125 * MS, S])), (4000, 22))]
    for name, size, q, maxops, adv, scr, sim in plans:
        cases = gen_s(ctx, name, size, q, maxops, adv, scr, simulate=(sim[0] if sim else None), depth=(sim[1] if sim else None))
        path, cnt = ctx.write_cases(name + ".ndjson", cases)
        ctx.samples += core.sample_of(cases, 1)
        ctx.replay(PKG_S, OV_S, "^TestVerifC09Shed$", path, label=name, shards=SHARDS, gomaxprocs=2, binp=binp,
                   env=dict(VERIF_SIZE=size, VERIF_Q=q, VERIF_TICKUS=TICKUS))
    drops = sum(v for k, v in ctx.counters.items() if k.endswith(".drops"))
    ctx.notes["shedder_rejections_observed"] = drops
    if drops == 0:
        raise core.Infra("vacuous shedder replay: the real shedder never rejected a request in any behaviour")
    if ctx.counters.get("s10sub.may_drop_steps", 0) + ctx.counters.get("s10sub.drops", 0) == 0:
        raise core.Infra("vacuous sub-millisecond family: no step near the capacity was replayed")


# ------------------------------------------------------------------------------------ gates

def gates(ctx):
    K = dict()
    cfg = core.render_cfg(spec="Spec", invariants=["Conserved", "Emit"])
    r = ctx.tlc("ShedGate", cfg, name="gate", timeout=300, workers=1)
    path, cnt = ctx.write_cases("gate.ndjson", r.printed)
    ctx.samples += core.sample_of(r.printed, 1)
    ctx.replay(PKG_H, OV_H, "^TestVerifC09GateHTTP$", path, label="gate-http")
    ctx.replay(PKG_R, OV_R, "^TestVerifC09GateRPC$", path, label="gate-rpc")


def run(ctx):
    # Harness problems (model checking, vacuity guards, barrier time-outs) are collected and reported only when the real code
    # produced no disagreement: they never replace a verdict.  The model-checking runs (they concern the models only) and the
    # overlap families (own TLC generation and replay files) run beside the other stages with 2-3 TLC workers.
    deferred = []

    def stage(fn, *a):
        try:
            fn(ctx, *a)
        except core.Infra as e:
            deferred.append(e)
        except Exception as e:
            deferred.append(core.Infra("%s: unexpected %r" % (fn.__name__, e)))
    binw = ctx.go_build(PKG_W, OV_W, name="c09win")   # one binary for both window stages (built before the side thread starts)

    def side():
        stage(mc, 2 if ctx.quick else 3)
        stage(overlap, binw, 2 if ctx.quick else 3)
    mct = threading.Thread(target=side, daemon=True)
    mct.start()
    ctx.exhaustive = True
    ctx.assumptions += [
        "time is the timex virtual clock (hook H1); one tick = 10 ms (window) / 0.25 ms (shedder)",
        "CPU reading injected through load.systemOverloadChecker; lib/stat sampling not exercised",
        "shedder capacity is defined by the exact average latency; whole-millisecond statistics may only err upwards; genuine nearest-rounding borderlines excluded from generation (ShedderGen!StatsOK)",
    ]
    try:
        stage(window, binw)
        stage(shedder)
        if os.path.exists(os.path.join(core.SPEC, "ShedGate.tla")):
            stage(gates)
    finally:
        mct.join()
    if not ctx.disagreements and not deferred:
        stage(overlap_vacuity)
    if deferred and not ctx.disagreements:
        raise deferred[0]
    if deferred:
        ctx.notes["harness_problems_beside_disagreements"] = [str(e)[:1000] for e in deferred[:5]]


def replay(ctx, rp):
    path, _ = ctx.write_cases("replay.ndjson", [rp["case"]])
    msg = rp.get("msg") or ""
    key = rp.get("key") or ""
    if key.startswith("C09:window"):
        size = int(msg.split("size=")[1].split()[0])
        q = int(msg.split("Q=")[1].split()[0])
        ign = "ignoreCurrent=true" in msg
        ctx.replay(PKG_W, OV_W, "^TestVerifC09Window$", path, label="replay",
                   env=dict(VERIF_SIZE=size, VERIF_Q=q, VERIF_IGNORE=(1 if ign else 0)))
    elif key.startswith("C09:shed"):
        size = int(msg.split("buckets=")[1].split()[0])
        q = int(msg.split("Q=")[1].split()[0])
        tus = int(msg.split("tickus=")[1].split()[0])
        ctx.replay(PKG_S, OV_S, "^TestVerifC09Shed$", path, label="replay", env=dict(VERIF_SIZE=size, VERIF_Q=q, VERIF_TICKUS=tus))
    elif key.startswith("C09:gate:http"):
        ctx.replay(PKG_H, OV_H, "^TestVerifC09GateHTTP$", path, label="replay")
    else:
        ctx.replay(PKG_R, OV_R, "^TestVerifC09GateRPC$", path, label="replay")
