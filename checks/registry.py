"""Data for MANIFEST.json that is not per-check (bin/mkmanifest collects META from checks/cXX.py)."""

HOOK_COMMITS = ["428da50bb844be279c4bdb3ff3d567cc39c31a49", "4c96223e0aad98cdee211edf97dcb88b8070700d"]
NOT_YET = "check not built yet in this round (see DESIGN.md section 10 for the build order)"
NOT_APPLICABLE = {}

# checks that are finished and reviewed; only these are rendered into MANIFEST.json
ENABLED = ["C01", "C02", "C03", "C04", "C05", "C06", "C07", "C08", "C09", "C10", "C11", "C12", "C13", "C14", "C15", "C16", "C17", "C18", "C19", "C20"]
