"""Single source for MANIFEST.json (bin/mkmanifest renders it)."""

CHECKS = {
    "C10": dict(
        text="Exhaustive-small-scope model-based replay: TLC enumerates every behaviour of the abstract wheel "
             "(spec/Wheel.tla via WheelGen.tla) up to 2-3 scheduling operations over 2 keys with every delay up to "
             "several revolutions and every phase of the wheel, plus seeded simulation of longer behaviours; each "
             "behaviour is executed on the real TimingWheel (hand-driven ticker) and every tick's fired set, every "
             "error class and every drain set is compared with the specification. WheelImpl.tla (slots/circles "
             "mechanism) is model-checked to refine Wheel.tla.",
        note="Trusted: TLC, the Go driver's barrier (run loop is sequential; goroutine count returns to baseline), "
             "Go runtime. Delays below one interval and invalid arguments after Stop are outside the statement and "
             "not generated. Bounds: N in {2,3,4,5,7} slots, <= 3 keys, delays <= 5 revolutions.",
        technique="TLA+ spec (Wheel/WheelImpl) + TLC-generated behaviours replayed on the real wheel",
        design="4/C10"),
}

NOT_YET = "check not built yet in this round (see DESIGN.md section 10 for the build order)"

HOOK_COMMITS = ["428da50bb844be279c4bdb3ff3d567cc39c31a49", "4c96223e0aad98cdee211edf97dcb88b8070700d"]
NOT_APPLICABLE = {}
