"""C10 - timing wheel.  spec/Wheel.tla (abstract), spec/WheelImpl.tla (mechanism), spec/WheelGen.tla
(behaviour generator) -> replay on the real TimingWheel with a hand-driven ticker."""
from vlib import core

PKG = "./lib/collection"
OVERLAY = {"lib/collection/zz_verif_c10_test.go": "c10/wheel_test.go"}
META = dict(
    text="Exhaustive-small-scope model-based replay: TLC enumerates every behaviour of the abstract wheel "
         "(spec/Wheel.tla via WheelGen.tla) up to 2-3 scheduling operations over 2 keys with every delay up to "
         "several revolutions and every phase of the wheel, plus seeded simulation of longer behaviours; each "
         "behaviour is executed on the real TimingWheel (hand-driven ticker) and every tick's fired set, every "
         "error class and every drain set is compared with the specification; further replay modes: callbacks still running while later ticks fire, blocks of 250 timers across the key index's compaction thresholds, delays that are not whole intervals, and Drain callbacks held (blocks of 12 timers) while more ticks than any pending delay are offered. WheelImpl.tla (slots/circles "
         "mechanism) is model-checked to refine Wheel.tla.",
    note="Trusted: TLC, the Go driver's barrier (run loop is sequential; goroutine count returns to baseline), "
         "Go runtime. Delays below one interval and invalid arguments after Stop are outside the statement and "
         "not generated. Bounds: N in {2,3,4,5,7} slots, <= 3 keys, delays <= 5 revolutions.",
    technique="TLA+ spec (Wheel/WheelImpl) + TLC-generated behaviours replayed on the real wheel",
    design="4/C10")

FINISH = dict(rule="behaviours = complete TLC enumeration (BFS over the history variable) of macro-steps "
                   "[pre ticks; op] up to MaxOps scheduling operations followed by ticks past the last due tick "
                   "+ one revolution, plus seeded TLC simulation of longer behaviours; every tick and every "
                   "operation of every behaviour is compared with the specification's prediction")


def gen(ctx, name, n, keys, vals, maxops, pre, delays, mode, simulate=None, depth=None):
    K = dict(Keys=keys, Vals=vals, MaxD=3 * n + 1, MaxOps=maxops, Pre=pre, TailTicks=2 * n + 1, Delays=delays, Mode='"%s"' % mode)
    cfg = core.render_cfg(spec="GSpec", constants=K, invariants=["Emit"])
    r = ctx.tlc("WheelGen", cfg, constants=K, name=name, simulate=simulate, depth=depth, timeout=1200,
                workers=(1 if simulate else None))
    return r.printed


def mc(ctx):
    K = dict(Keys='{"a","b"}', Vals="{1,2}", MaxD=4)
    cfg = core.render_cfg(spec="Spec", constants=K, invariants=["TypeOK"],
                          properties=["FiresOnlyAtDue", "OnlySetSchedules", "ShutdownIsFinal"],
                          constraints=["Bound"], view="core")
    ctx.tlc("Wheel", cfg, constants=K, defs=dict(Bound="T <= 6"), name="Wheel-mc", timeout=600)


def mc_impl(ctx):
    """WheelImpl (slots / circles / timers, one action per run-loop command) refines Wheel:
    every mechanism step is an abstract step with exactly the same fired set."""
    if ctx.quick:
        K, bound = dict(N=3, Keys='{"a","b"}', Vals="{1}", MaxD=4), "T <= 5 /\\ nid <= 3"
    else:
        K, bound = dict(N=3, Keys='{"a","b"}', Vals="{1,2}", MaxD=4), "T <= 5 /\\ nid <= 3"
    cfg = core.render_cfg(spec="Spec", constants=K, invariants=["TimersConsistent", "NoOrphans"],
                          properties=["Refines"], constraints=["Bound"], view="icore")
    ctx.tlc("WheelImpl", cfg, constants=K, defs=dict(Bound=bound), name="WheelImpl-mc", timeout=1500)


def run(ctx):
    mc(ctx)
    mc_impl(ctx)
    binp = ctx.go_build(PKG, OVERLAY, name="c10drv")
    plans = []
    if ctx.quick:
        plans.append(("g3a", 3, dict(keys='{"a","b"}', vals="{1,2}", maxops=2, pre="0..3", delays="1..7", mode="full")))
        plans.append(("g3b", 3, dict(keys='{"a"}', vals="{1}", maxops=3, pre="{0,1,3}", delays="{1,2,3,4,7}", mode="nobad")))
        sims = [("s3", 3, dict(keys='{"a","b"}', vals="{1,2}", maxops=6, pre="0..4", delays="1..10", mode="full"), 1500, 9)]
    else:
        plans.append(("g2", 2, dict(keys='{"a","b"}', vals="{1,2}", maxops=2, pre="0..3", delays="1..7", mode="full")))
        plans.append(("g3a", 3, dict(keys='{"a","b"}', vals="{1,2}", maxops=2, pre="0..4", delays="1..10", mode="full")))
        plans.append(("g3c", 3, dict(keys='{"a","b"}', vals="{1}", maxops=3, pre="{0,1,3}", delays="{1,2,3,4,7}", mode="nobad")))
        plans.append(("g4", 4, dict(keys='{"a","b"}', vals="{1,2}", maxops=2, pre="0..5", delays="1..13", mode="full")))
        plans.append(("g7", 7, dict(keys='{"a"}', vals="{1}", maxops=3, pre="{0,1,6,7}", delays="{1,6,7,8,15}", mode="nobad")))
        sims = [("s3", 3, dict(keys='{"a","b"}', vals="{1,2}", maxops=8, pre="0..4", delays="1..16", mode="full"), 20000, 11),
                ("s5", 5, dict(keys='{"a","b","c"}', vals="{1,2}", maxops=10, pre="0..6", delays="1..26", mode="full"), 20000, 13)]
    ctx.exhaustive = True
    for name, n, kw in plans:
        cases = gen(ctx, name, n, **kw)
        path, cnt = ctx.write_cases(name + ".ndjson", cases)
        ctx.samples += core.sample_of(cases, 1)
        ctx.replay(PKG, OVERLAY, "^TestVerifC10$", path, label=name, env=dict(VERIF_SLOTS=n), shards=16, binp=binp)
        if name in ("g3b", "g3c", "g7"):
            # the same behaviours with delays that are not whole multiples of the interval
            # (d intervals + half an interval, and + one interval minus a nanosecond): floor(d/I) is unchanged
            for frac, tag in ((500000000, "half"), (999999999, "almost")):
                ctx.replay(PKG, OVERLAY, "^TestVerifC10$", path, label=name + "-frac-" + tag,
                           env=dict(VERIF_SLOTS=n, VERIF_FRACNS=frac), shards=16, binp=binp)
        if name in ("g3a", "g4"):
            # the same behaviours with callbacks that are still running while later ticks fire
            ctx.replay(PKG, OVERLAY, "^TestVerifC10$", path, label=name + "-slowcb", env=dict(VERIF_SLOTS=n, VERIF_GATED=1),
                       shards=16, binp=binp)
        if name in ("g3a", "g4"):
            # behaviours with a Drain: blocks of 12 timers per key (more than the drain workers), the drain
            # callbacks held while more ticks than any pending delay are offered
            ctx.replay(PKG, OVERLAY, "^TestVerifC10$", path, label=name + "-draingate", env=dict(VERIF_SLOTS=n, VERIF_DRAINGATE=12),
                       shards=16, binp=binp)
    bulk(ctx, binp)
    for name, n, kw, num, depth in sims:
        cases = gen(ctx, name, n, simulate=num, depth=depth, **kw)
        path, cnt = ctx.write_cases(name + ".ndjson", cases)
        ctx.samples += core.sample_of(cases, 1)
        ctx.replay(PKG, OVERLAY, "^TestVerifC10$", path, label=name, env=dict(VERIF_SLOTS=n), shards=16, binp=binp)


def bulk(ctx, binp):
    """Behaviours that take the wheel's key index (a SafeMap, which re-organises itself after
    10 000 deletions) across its thresholds: blocks of 250 timers handled together."""
    n, mult, nb = 5, 250, 60

    def o(**kw):
        return "[" + ", ".join('%s |-> %s' % (k, ('"%s"' % v) if isinstance(v, str) else v) for k, v in kw.items()) + "]"
    open1 = [o(op="setr", lo=1, hi=a, v=1, d=40) for a in ((48, 56) if ctx.quick else (44, 48, 52, 56))]
    open2 = [o(op="remover", lo=1, hi=b) for b in ((40, 41) if ctx.quick else (39, 40, 41, 44))]
    menu = [o(op="setr", lo=57, hi=58, v=2, d=30), o(op="remover", lo=41, hi=47), o(op="mover", lo=45, hi=58, d=20),
            o(op="remover", lo=57, hi=57), o(op="setr", lo=1, hi=2, v=3, d=10), o(op="ticks", n=1)]
    if not ctx.quick:
        menu += [o(op="remover", lo=42, hi=54), o(op="setr", lo=59, hi=60, v=1, d=25)]
    K = dict(Keys="1..%d" % nb, Vals="{1,2,3}", MaxD=60, NB=nb, Menu="{" + ", ".join(menu) + "}",
             Open1="{" + ", ".join(open1) + "}", Open2="{" + ", ".join(open2) + "}", Steps=3 if ctx.quick else 4,
             TailTicks=n + 1)
    cfg = core.render_cfg(spec="BSpec", constants=K, invariants=["EmitB"])
    r = ctx.tlc("WheelBulkGen", cfg, constants=K, name="bulk", timeout=1200)
    path, cnt = ctx.write_cases("bulk.ndjson", r.printed)
    ctx.samples += core.sample_of(r.printed, 1)
    ctx.replay(PKG, OVERLAY, "^TestVerifC10$", path, label="bulk", env=dict(VERIF_SLOTS=n, VERIF_BULK=mult), shards=16,
               binp=binp, timeout=1500)


def replay(ctx, rp):
    import json
    path, _ = ctx.write_cases("replay.ndjson", [rp["case"]])
    n = int(rp["msg"].split("N=")[1].split()[0]) if "N=" in (rp.get("msg") or "") else 3
    env = dict(VERIF_SLOTS=n)
    if (rp.get("key") or "").startswith("C10:bulk"):
        env["VERIF_BULK"] = 250
    if (rp.get("key") or "").startswith("C10:drain:"):
        env["VERIF_DRAINGATE"] = 12
    if (rp.get("key") or "").startswith("C10:slow-callbacks"):
        env["VERIF_GATED"] = 1
    ctx.replay(PKG, OVERLAY, "^TestVerifC10$", path, label="replay", env=env)
