"""C19 - rotating log files.  spec/RotateLog.tla (abstract directory model + step relation RotateLogRel.tla,
model-checked), spec/RotateLogGen.tla (write histories x configurations) -> harness/c19 records the directory
after every Write/Close of the real logx.RotateLogger -> spec/RotateLogTrace.tla validates every step."""
import json, os
from vlib import core
from checks import c13 as tv          # generic chunked TLC trace validation lives in checks/c13.py

PKG = "./lib/logx"
OVERLAY = {"lib/logx/zz_verif_c19_test.go": "c19/rotate_test.go"}
RUN = "^TestVerifC19$"
MB = 1 << 20

META = dict(
    text="Trace validation against a TLA+ directory model: TLC enumerates every write history (record sizes "
         "small/half/max/max+1, simulated day changes) for a set of rule configurations (size and daily rule, "
         "maxBackups, keep-days, gzip, delimiter, pre-existing backups of several ages, pre-existing current file); "
         "the driver runs each on the real RotateLogger (NewLogger/Write/Close) in a scratch directory with an "
         "explicit barrier after every Write, reads all files back (gunzip) and records which record is in which "
         "file; TLC validates each step against spec/RotateLogRel.tla: record present, complete, once and in order; "
         "a rotation moves exactly the old current file into one backup; gzip when configured; other backups "
         "untouched; removals only with a rotation and only of outdated backups; size rule: at most one record beyond "
         "the maximum. The abstract model RotateLog.tla (NoLoss, SizeBound, Retention) is model-checked and shown to "
         "produce only steps the relation admits.",
    note="Rotation instants are not predicted (the statement fixes none). Families: (1) NewLogger with the real rules "
         "deciding ShallRotate/MarkRotated/OutdatedFiles behind a driver-supplied RotateRule wrapper (barrier record; backup "
         "names in the real format with synthetic increasing times), plus cases with the real BackupFilename and file starts "
         "1.1 s apart (size rule incl. the public megabyte constructor) or one simulated day change (daily rule); "
         "(2) 'config': writers built by newFileWriter(Config{Rotation,MaxSize MB,MaxBackups,KeepDays,Compress}) = "
         "handleOptions + createOutput, judged against the configured values; (3) 'public': Setup(Config{Mode file}) + "
         "Info/Error/Slow/Stat/Severe + Close with package state (setupOnce, writer, options, disableLog/Stat, logLevel) "
         "reset per case, one history per log file, every file observed after every step (a record must be in its own "
         "file family; the logger's own diagnostics in the access log are skipped); (4) 'burst': several writes with no "
         "barrier racing the post-rotation compress/clean-up goroutine, judged at quiescence by BurstFailed; 'closeq': "
         "Close with records still queued - Close does not drain the queue (observed: a large share of queued records is "
         "dropped although Write returned nil), the statement only covers records processed before Close, so only "
         "'everything processed earlier is intact, queued ones that are present are in order' is claimed; (5) 'mixed': "
         "pre-existing backups partly gz, partly plain; (6) 'boundary': daily backups dated today-keepDays (must stay: a "
         "date-named backup holds records up to the end of its day), one day older, one day younger, pre-existing and "
         "just produced by the day-change rotation (current file started yesterday); (7) 'bigburst': bursts of 20-60 "
         "records of 10-30 KB, several times maxSize, so that the writer's queue holds a backlog; 'largesmall': a large "
         "record that triggers a rotation followed by many small ones; (8) 'flood' (GFloods in RotateLogGen.tla): ONE producer "
         "writes 300-2000 small self-identifying records in a tight loop with no barrier - several times the capacity of the "
         "writer's queue (100 slots), so Write finds the queue full (guarded: a run in which no flood ever had as many records "
         "outstanding as the queue has slots is vacuous) - followed by a barrier (unchanged Write blocks on a full queue, so "
         "every record it accepted is processed by then: all of them must be there, once, complete, in the order of "
         "acceptance - clause burst-order names the case 'all there, wrong order') or by Close with the tail still queued "
         "(those present in order); size rule with dozens of rotations inside a flood, gzip + clean-up racing, 1 MB (no "
         "rotation), daily rule with and without a day change before the flood. The barrier is bounded (ShallRotate call count, "
         "falling back to 'queue empty and every writer goroutine parked in its select'): the files decide. (9) 'hours' "
         "(size rule, maxBackups, names 'hours'): the HOUR OF THE DAY of the instants the backups stand for is a dimension - "
         "the k-th file is started rot[k] hours after a base midnight (00, 01, 09, 11, 12, 13, 14, 23 h on one date and across "
         "dates, starts 12 h / 24 h apart; the backup name is the real rule's for that instant), pre-existing backups named in "
         "RFC 3339 for given hours; 'hourage': days=2 with pre-existing backups at every hour of the day before the age boundary. "
         "For the size rule the instant a backup stands for (ts, ageh in the trace) is the driver's knowledge (instant of the "
         "BackupFilename call / of the pre-existing backup), never decoded from the name with the package's own layout constant: "
         "'newest' and 'older than' are judged in true time order, two files started 12 h apart must give two backups. Not covered: a run that spans local midnight; bursts in "
         "configurations where a backup created during the burst may itself be outdated; plain-text encoding and volume mode.",
    technique="TLA+ directory model + TLC-generated histories + TLC trace validation of the real logger's files",
    design="4/C19")

FINISH = dict(rule="histories = complete TLC enumeration (BFS over the history variable) of all operation sequences of "
                   "the stated length for every listed configuration, plus seeded TLC simulation of longer histories; "
                   "after every Write and after Close the whole directory is read back and the step is accepted or "
                   "rejected by TLC against the step relation (high-water mark = length of the log)")


def tla_cfg(c):
    return ('[rule |-> "%s", maxSize |-> %d, maxBackups |-> %d, days |-> %d, gzip |-> %s, delim |-> "%s", '
            'names |-> "%s", pre |-> <<%s>>, precur |-> %d, via |-> "%s", pregz |-> "%s", rot |-> <<%s>>]') % (
        c["rule"], c["maxSize"], c["maxBackups"], c["days"], "TRUE" if c["gzip"] else "FALSE", c.get("delim", "-"),
        c.get("names", "counter"), ", ".join(str(a) for a in c.get("pre", [])), c.get("precur", 0), c.get("via", ""), c.get("pregz", ""),
        ", ".join(str(a) for a in c.get("rot", [])))


def C(rule, maxSize=0, maxBackups=0, days=0, gzip=False, pre=(), precur=0, names="counter", delim="-", via="", pregz="", rot=()):
    return dict(rule=rule, maxSize=maxSize, maxBackups=maxBackups, days=days, gzip=gzip, pre=list(pre), precur=precur,
                names=names, delim=delim, via=via, pregz=pregz, rot=list(rot))


# ------------------------------------------------------------------------------- model check

def mc(ctx):
    def rec(rule, maxSize, maxBackups, days, gzip):
        return '[rule |-> "%s", maxSize |-> %d, maxBackups |-> %d, days |-> %d, gzip |-> %s, slack |-> %d]' % (
            rule, maxSize, maxBackups, days, "TRUE" if gzip else "FALSE", 24 if rule == "daily" else 0)
    confs = [rec("size", 4, 0, 0, False), rec("size", 4, 2, 0, False), rec("size", 4, 1, 2, True),
             rec("size", 0, 0, 2, False), rec("daily", 0, 0, 2, True), rec("daily", 0, 0, 0, False)]
    pre = ('<<[ts |-> -3, ageh |-> 73, recs |-> <<101, 102>>, gz |-> FALSE], [ts |-> -2, ageh |-> 49, recs |-> <<103>>, '
           'gz |-> FALSE], [ts |-> -1, ageh |-> 1, recs |-> <<104>>, gz |-> TRUE]>>')
    K = dict(Configs="{" + ", ".join(confs) + "}", Sizes="{2, 4, 5}", MaxRecs=(4 if ctx.quick else 5), Pre=pre)
    cfg = core.render_cfg(spec="Spec", constants=K, invariants=["TypeOK", "NoLoss"],
                          properties=["SizeBound", "Retention", "RelationAdmitsModel"], view="core")
    r = ctx.tlc("RotateLog", cfg, constants=K, name="RotateLog-mc", workers=6, timeout=900)
    if r.distinct < 1000:
        raise core.Infra("vacuous model: RotateLog-mc has only %d states" % r.distinct)


# ------------------------------------------------------------------------------- generate / record / validate

def gen(ctx, name, confs, sizes, maxops, maxday, simulate=None, fams=("",), burst=(), prefixes=((),), floods=()):
    K = dict(GConfigs="{" + ", ".join(tla_cfg(c) for c in confs) + "}", GSizes="{%s}" % ", ".join(map(str, sizes)),
             MaxOps=maxops, MaxDay=maxday, GFams="{%s}" % ", ".join('"%s"' % f for f in fams),
             GBurst="{%s}" % ", ".join("<<%s>>" % ", ".join(map(str, b)) for b in burst),
             GPrefixes="{%s}" % ", ".join("<<%s>>" % ", ".join(map(str, b)) for b in prefixes),
             GFloods="{%s}" % ", ".join("<<%d, %d, %d>>" % tuple(fl) for fl in floods))
    cfg = core.render_cfg(spec="GSpec", constants=K, invariants=["Emit"])
    r = ctx.tlc("RotateLogGen", cfg, constants=K, name=name, simulate=simulate, depth=(maxops + 4 if simulate else None),
                timeout=1200, workers=(1 if simulate else 6))
    return r.printed


def record(ctx, binp, label, cases_path, shards=16, env=None):
    prefix = os.path.join(ctx.build, "trace-" + label)
    cnt, bad = ctx.replay(PKG, OVERLAY, RUN, cases_path, label=label, binp=binp, shards=shards,
                          env=dict(env or {}, VERIF_TRACE=prefix, VERIF_LABEL=label), source="record", timeout=1200)
    if bad:
        raise core.Infra("C19 recorder reported verdicts (it must only record): %s" % bad[:2])
    hists = []
    import glob
    paths = sorted(glob.glob(prefix + "-*.ndjson"))      # core may cap the number of shards
    if not paths:
        raise core.Infra("no trace file written: " + prefix)
    for p in paths:
        cur = None
        with open(p) as f:
            for line in f:
                if '"ev":"init"' in line:
                    cur = [line]
                    hists.append(cur)
                elif cur is not None:
                    cur.append(line)
                else:
                    raise core.Infra("trace %s does not start with an init event" % p)
        os.remove(p)
    return hists, cnt


def short(ids, runs=10):
    """record ids with runs of consecutive ids folded (a..b): a flood in order is one run, every place
    where the order of acceptance is broken starts a new one"""
    ids = list(ids or [])
    if len(ids) <= 12:
        return str(ids)
    out, i = [], 0
    while i < len(ids) and len(out) < runs:
        j = i
        while j + 1 < len(ids) and ids[j + 1] == ids[j] + 1:
            j += 1
        out.append(str(ids[i]) if j == i else "%d..%d" % (ids[i], ids[j]))
        i = j + 1
    return "[%s%s](%d ids)" % (", ".join(out), ", ..." if i < len(ids) else "", len(ids))


def brief(e):
    if e["ev"] in ("daychange",):
        return "daychange"
    files = e.get("files", [])
    shown = files if len(files) <= 6 else files[:3] + files[-3:]
    d = "cur=%s(%sB) backups%s=%s" % (short(e.get("cur")), e.get("cb"), "" if shown is files else "(%d, first and last 3)" % len(files),
                                     [("%s%s%s" % (f["ts"], "z" if f["gz"] else "", short(f["recs"]))) for f in shown])
    if e["ev"] == "write":
        return "write #%s size %s -> %s" % (e["id"], e["size"], d)
    if e["ev"] == "close":
        return "close(err=%r) -> %s" % (e.get("err"), d)
    if e["ev"] in ("burst", "closeq"):
        return "%s %s -> %s" % (e["ev"], short(e.get("ids")), d)
    return "init %s -> %s" % (e.get("cfg"), d)


def describe(h, k, failed):
    init = json.loads(h[0])
    ev = json.loads(h[k])
    evs = [json.loads(x) for x in h[:k + 1]]
    nrot = 0
    # number of rotations seen before the rejected step (class of the failing case)
    seen = {f["ts"] for f in init.get("files", [])}
    for e in evs[1:k]:
        for f in e.get("files", []):
            if f["ts"] not in seen:
                seen.add(f["ts"])
                nrot += 1
    cls = "first-rotation" if nrot == 0 else "later"
    key = "C19:%s:%s:%s" % ("+".join(failed), ev["ev"], init["cfg"]["rule"])
    msg = ("history #%s%s step %d rejected by the step relation, clauses %s (%s). Trace: %s  ||  REJECTED: %s" % (
        init.get("h"), (" file " + init["fam"]) if init.get("fam") else "", k, failed, cls, " ; ".join(brief(e) for e in evs[:k][-4:]), brief(ev)))
    return key, msg, init.get("h"), k


def tspec():
    return dict(module="RotateLogTrace", tracefile="c19trace.ndjson", constants={}, invariants=["Ordered"], describe=describe)


def plans(ctx):
    S = [8, 32, 64, 65]                 # small, half, max, max+1 for maxSize 64
    pre3 = [73, 49, 1]                  # for days=2 (48 h): two older, one young
    size_confs = [C("size", 64), C("size", 64, maxBackups=2, pre=pre3), C("size", 64, days=2, gzip=True, pre=[73, 49, 47, 1]),
                  C("size", 64, maxBackups=1, days=2, gzip=True, pre=[200, 47], precur=20)]
    daily_confs = [C("daily"), C("daily", days=2, gzip=True, pre=[96, 72, 48, 24]), C("daily", days=1, pre=[48, 24], precur=20)]
    real_size = [C("size", 64, maxBackups=2, pre=[49, 1], names="real"), C("size", 64, days=2, gzip=True, pre=[49, 1], names="real")]
    real_mb = [C("size", MB, maxBackups=1, gzip=True, names="real"), C("size", MB, names="real")]
    real_daily = [C("daily", days=2, gzip=True, pre=[96, 24], names="real"), C("daily", names="real", delim="_")]
    # the logging-configuration path (newFileWriter(Config) = handleOptions + createOutput, as Setup(Mode "file")):
    # MaxSize is in MB there, names are real -> size-triggered rotations 1.1 s apart
    def CF(rule, **kw):
        return C(rule, names="real", via="config", **kw)
    # the public API: Setup(Config{Mode "file"}) + Info/Error/Slow/Stat/Severe + Close
    def PB(rule, **kw):
        return C(rule, names="real", via="public", **kw)
    FAMS = ("info", "error", "severe", "slow", "stat")
    # writes with no barrier in between (racing the post-rotation goroutine) and records queued at Close;
    # only for configurations in which a backup created during the step cannot itself be outdated
    BURSTS = [(65, 65, 65), (32, 32, 8, 65), (64, 8)]
    burst_confs = [C("size", 64, gzip=True, pre=[73, 1], days=2), C("size", 64, maxBackups=4, pre=[73, 49, 1]),
                   C("size", 64, maxBackups=4, gzip=True, days=2, pre=[73, 47], precur=20),
                   C("daily", days=2, gzip=True, pre=[96, 24])]
    mixed_confs = [C("size", 64, maxBackups=2, pre=[73, 49, 47, 1], pregz="mixed"),
                   C("size", 64, maxBackups=2, gzip=True, pre=[73, 49, 47, 1], pregz="mixed"),
                   C("size", 64, days=2, gzip=True, pre=[73, 49, 47, 1], pregz="mixed"),
                   C("size", 64, days=2, maxBackups=1, pre=[73, 49, 47, 1], pregz="mixed"),
                   C("daily", days=2, gzip=True, pre=[96, 72, 48, 24], pregz="mixed"),
                   C("daily", days=2, pre=[96, 72, 48, 24], pregz="mixed")]
    # [records that fill the file] ; one LARGE record that triggers a rotation ; then many small records:
    # the second file, too, may grow beyond the maximum by at most one record
    LS_PREFIX = [(32, 32, 40), (64, 33), (60, 64), (8, 65)]
    ls_confs = [C("size", 64), C("size", 64, maxBackups=2, gzip=True, pre=[1])]
    # retention boundary of the daily rule: backups dated today-keepDays (must stay), -1 day older (may go), one day
    # younger; pre-existing ones and the one the day-change rotation has just produced ("yesterday": the current
    # file was started yesterday, so its backup carries yesterday's date in the real format)
    bound_confs = [C("daily", days=1, pre=[72, 48], names="yesterday"), C("daily", days=1, gzip=True, pre=[48], names="yesterday"),
                   C("daily", days=2, pre=[72, 48], names="yesterday"), C("daily", days=2, gzip=True, pre=[96, 72, 48], names="yesterday"),
                   C("daily", days=1, pre=[48, 24], names="real"), C("daily", days=2, gzip=True, pre=[72, 48, 24], names="real"),
                   C("daily", days=2, pre=[72, 48, 24]), C("daily", days=1, gzip=True, pre=[48, 24])]
    # backlog in the writer's queue: bursts of 20-60 records of >= 10 KB with no barrier, several times maxSize
    KB = 1024
    BIG = [tuple([10 * KB] * 40), tuple([12 * KB, 20 * KB] * 15), tuple([10 * KB] * 60), tuple([16 * KB] * 20)]
    big_confs = [C("size", 100 * KB), C("size", 100 * KB, gzip=True, days=2, pre=[73, 1]), C("size", 64 * KB, maxBackups=0, pre=[1], precur=20)]
    # floods: ONE producer writes 300-2000 small records in a tight loop with no barrier - several times the
    # capacity of the writer's queue (100), so Write finds the queue full - then a barrier (or Close with the tail
    # still queued); both rules, rotation on (small maxSize: dozens of rotations inside a flood; a day change
    # before the flood) and off (1 MB; daily rule with no day change).  Judged at quiescence by BurstFailed:
    # every record accepted and processed is there once, complete, in the order of acceptance (burst-order).
    FLOODS = [(300, 12, 4), (2000, 16, 3)]
    flood_confs = [C("size", 2 * KB), C("size", KB, gzip=True, days=2, pre=[73, 1]), C("size", MB),
                   C("daily"), C("daily", days=2, gzip=True, pre=[96, 24])]
    # hour of the day (size rule; names "hours"): the k-th file is STARTED rot[k] hours (+30 min) after a base
    # midnight (its backup carries that instant), the pre-existing backups stand for the hours `pre` after it (real
    # RFC 3339 names): 00, 01, 09, 11, 12, 13, 14, 23 h on one date and across dates, file starts 12 h / 24 h apart.
    # Which instant a backup stands for is the driver's knowledge, never decoded from its name: clean-up by maxBackups
    # keeps the newest backups in TRUE time order; two files started 12 h apart give two backups, no record lost.
    def H(maxBackups, pre, rot, gzip=False, delim="-"):
        return C("size", 64, maxBackups=maxBackups, gzip=gzip, pre=pre, rot=rot, names="hours", delim=delim)
    hour_confs = [H(2, (9, 10, 11), (13, 14, 23, 24, 25, 33)), H(2, (0, 1, 9), (11, 12, 13, 14, 23, 24)),
                  H(0, (), (1, 13, 25, 37, 49, 61)), H(3, (1,), (13, 25, 37, 38, 48, 60)),
                  H(1, (23, 24, 25), (36, 37, 48, 49, 57, 60), gzip=True), H(2, (13, 23), (33, 37, 49, 50, 60, 61), delim="_"),
                  H(4, (0, 12, 13, 24, 36, 37), (38, 47, 48, 49, 59, 60), gzip=True)]
    # age limit: pre-existing backups at EVERY hour of the day before the boundary (must stay) and two behind it
    age_confs = [C("size", 64, days=2, pre=[73, 49] + list(range(47, 24, -1))),
                 C("size", 64, days=2, maxBackups=30, gzip=True, pre=[73, 49] + list(range(47, 24, -1)))]
    P = []
    P.append(dict(name="hours", confs=hour_confs, sizes=[32, 65], maxops=(5 if ctx.quick else 6), maxday=0))
    P.append(dict(name="hourage", confs=age_confs, sizes=[32, 65], maxops=(3 if ctx.quick else 4), maxday=0))
    if ctx.quick:
        P.append(dict(name="flood", confs=flood_confs, sizes=[], maxops=2, maxday=1, floods=FLOODS, shards=8, chunk=50))
        P.append(dict(name="boundary", confs=bound_confs, sizes=[40], maxops=3, maxday=1))
        P.append(dict(name="bigburst", confs=big_confs, sizes=[30 * KB], maxops=2, maxday=0, burst=BIG))
        P.append(dict(name="largesmall", confs=ls_confs, sizes=[8, 16], maxops=8, maxday=0, prefixes=LS_PREFIX))
        P.append(dict(name="burst", confs=burst_confs, sizes=[32, 65], maxops=3, maxday=1, burst=BURSTS))
        P.append(dict(name="mixed", confs=mixed_confs, sizes=[32, 65], maxops=4, maxday=2))
        P.append(dict(name="pubdaily", confs=[PB("daily", days=2, gzip=True, pre=[96, 24]), PB("daily")],
                      sizes=[40], maxops=4, maxday=1, fams=FAMS, pick=48))
        P.append(dict(name="pubsize", confs=[PB("size", maxSize=MB, maxBackups=2, pre=[1])],
                      sizes=[600 * 1024], maxops=4, maxday=0, fams=("info", "error"), pick=4))
        P.append(dict(name="config", confs=[CF("size", maxSize=MB, maxBackups=2, pre=[1]),
                                            CF("daily", days=2, gzip=True, pre=[96, 24])],
                      sizes=[600 * 1024], maxops=4, maxday=1))
        P.append(dict(name="size5", confs=size_confs, sizes=S, maxops=5, maxday=0))
        P.append(dict(name="daily5", confs=daily_confs, sizes=[8, 40], maxops=5, maxday=5))
        P.append(dict(name="sim12", confs=size_confs + daily_confs, sizes=S, maxops=12, maxday=12, simulate=400))
        P.append(dict(name="realsize", confs=real_size, sizes=[32, 65], maxops=3, maxday=0, pick=16))
        P.append(dict(name="realdaily", confs=real_daily, sizes=[8, 40], maxops=3, maxday=1))
    else:
        ages = [200, 73, 49, 47, 1]
        subsets = [[a for i, a in enumerate(ages) if m >> i & 1] for m in range(32)]
        P.append(dict(name="size6", confs=size_confs + [C("size", 64, maxBackups=3, delim="_"), C("size", 0, days=2, pre=pre3)],
                      sizes=S, maxops=6, maxday=0))
        P.append(dict(name="pre", confs=[C("size", 64, maxBackups=mb, days=d, gzip=gz, pre=p, precur=pc)
                                         for p in subsets for (mb, d, gz, pc) in ((2, 0, False, 0), (0, 2, True, 0), (1, 2, False, 20))],
                      sizes=[32, 65], maxops=4, maxday=0))
        P.append(dict(name="daily7", confs=daily_confs + [C("daily", days=3, gzip=False, pre=[120, 96, 72, 48, 24], delim="_")],
                      sizes=[8, 40], maxops=7, maxday=7))
        P.append(dict(name="sim30", confs=size_confs + daily_confs, sizes=S, maxops=30, maxday=30, simulate=3000))
        P.append(dict(name="realsize", confs=real_size, sizes=[32, 65], maxops=4, maxday=0, pick=48))
        P.append(dict(name="realmb", confs=real_mb, sizes=[16, MB // 2, MB, MB + 1], maxops=4, maxday=0, pick=32))
        P.append(dict(name="realdaily", confs=real_daily, sizes=[8, 40], maxops=4, maxday=1))
        P.append(dict(name="boundary", confs=bound_confs, sizes=[8, 40], maxops=4, maxday=1))
        P.append(dict(name="bigburst", confs=big_confs + [C("size", 256 * KB, gzip=True)], sizes=[30 * KB, 70 * KB], maxops=2, maxday=0,
                      burst=BIG + [tuple([10 * KB, 30 * KB, 11 * KB] * 20)]))
        P.append(dict(name="largesmall", confs=ls_confs + [C("size", 64, days=2, maxBackups=1, pre=[49], precur=20)],
                      sizes=[8, 16], maxops=9, maxday=0, prefixes=LS_PREFIX + [(32, 40, 8, 8)]))
        P.append(dict(name="flood", confs=flood_confs + [C("size", 256), C("size", 4 * KB, maxBackups=0, gzip=True, pre=[1], precur=20),
                                                         C("daily", days=1, pre=[48, 24], precur=20)],
                      sizes=[16], maxops=2, maxday=1, floods=FLOODS + [(700, 24, 0), (1200, 9, 30)], shards=8, chunk=100))
        P.append(dict(name="burst", confs=burst_confs, sizes=[32, 65], maxops=4, maxday=1, burst=BURSTS))
        P.append(dict(name="burst5", confs=[C("size", 64, maxBackups=5, gzip=True, pre=[200, 73, 49, 1], delim="_"),
                                            C("size", 64, gzip=True, days=2, pre=[73, 1]), C("size", 64, pre=[1], precur=20)],
                      sizes=[8, 65], maxops=3, maxday=0, burst=[(65, 8, 65, 8, 65), (65, 65, 65, 65, 65)]))
        P.append(dict(name="mixed", confs=mixed_confs, sizes=[32, 65], maxops=5, maxday=2))
        P.append(dict(name="pubdaily", confs=[PB("daily", days=2, gzip=True, pre=[96, 24]), PB("daily"), PB("daily", days=1, pre=[48])],
                      sizes=[40, 300], maxops=5, maxday=1, fams=FAMS, pick=600))
        P.append(dict(name="pubsize", confs=[PB("size", maxSize=MB, maxBackups=mb, gzip=gz, pre=[1]) for mb in (2, 3) for gz in (False, True)],
                      sizes=[300 * 1024, 600 * 1024], maxops=5, maxday=0, fams=("info", "error", "stat"), pick=32))
        P.append(dict(name="config", confs=[CF("size", maxSize=MB, maxBackups=mb, days=d, gzip=gz, pre=pre)
                                            for mb in (2, 3) for (d, gz, pre) in ((0, False, [1]), (2, True, [49, 1]))]
                                           + [CF("daily", days=2, gzip=True, pre=[96, 24]), CF("daily")],
                      sizes=[300 * 1024, 600 * 1024], maxops=5, maxday=1, pick=40))
    return P


def run(ctx):
    import random
    mc(ctx)
    binp = ctx.go_build(PKG, OVERLAY, name="c19drv")
    ctx.exhaustive = True
    tot = {}
    for p in plans(ctx):
        cases = gen(ctx, p["name"], p["confs"], p["sizes"], p["maxops"], p["maxday"], simulate=p.get("simulate"),
                    fams=p.get("fams", ("",)), burst=p.get("burst", ()), prefixes=p.get("prefixes", ((),)),
                    floods=p.get("floods", ()))
        if not cases:
            raise core.Infra("generator %s produced no history" % p["name"])
        if p.get("pick") and len(cases) > p["pick"]:
            # real-time cases cost seconds each: a seeded sample of the enumeration, most rotations first
            rnd = random.Random(ctx.seed)
            cases = sorted(cases)
            rnd.shuffle(cases)
            cases = cases[:p["pick"]]
            ctx.notes[p["name"] + ".sampled"] = p["pick"]
        path, cnt = ctx.write_cases(p["name"] + ".ndjson", cases)
        ctx.samples += core.sample_of(cases, 1)
        hists, counters = record(ctx, binp, p["name"], path, shards=p.get("shards", 16))
        ncases = len({json.loads(h[0]).get("h") for h in hists})      # the public family records one history per log file
        if ncases != cnt:
            raise core.Infra("%s: %d histories generated, %d recorded" % (p["name"], cnt, ncases))
        for k, v in counters.items():
            tot[k] = tot.get(k, 0) + v
        tv.validate(ctx, p["name"], hists, tspec(), path, chunk_events=p.get("chunk", 20000))
        q = m = 0
        for h in hists:
            for line in h:
                if '"ev":"closeq"' in line:
                    e = json.loads(line)
                    have = set(e["cur"]) | {r for f in e["files"] for r in f["recs"]}
                    q += len(e["ids"])
                    m += sum(1 for i in e["ids"] if i not in have)
        if q:
            ctx.notes["queued_at_close.%s" % p["name"]] = dict(queued=q, dropped=m)
    # vacuity guards on what the drivers actually exercised - only when the relation found nothing to complain
    # about: a logger that does not rotate when it must is a size-bound disagreement, not a vacuous run
    if ctx.disagreements:
        ctx.notes["driver_totals"] = tot
        return
    if tot.get("rotations_seen", 0) == 0:
        raise core.Infra("vacuous run: the real logger never rotated")
    if tot.get("daychanges", 0) == 0:
        raise core.Infra("vacuous run: no simulated day change")
    for k in ("public_api_size", "public_api_daily", "public_rotations", "public_info", "public_error", "public_severe",
              "public_slow", "public_stat", "burst_records", "closeq_records", "flood_bursts", "flood_closeq"):
        if tot.get(k, 0) == 0:
            raise core.Infra("vacuous run: %s = 0 (%s)" % (k, tot))
    # hour-of-day family: files started in both halves of the day (01..12 h and 00, 13..23 h) were rotated
    if tot.get("hours_cases", 0) == 0 or tot.get("hours_am_names", 0) == 0 or tot.get("hours_pm_names", 0) == 0:
        raise core.Infra("vacuous run: hour-of-day family not exercised on both halves of the day: %s" % tot)
    if tot.get("config_path_size", 0) == 0 or tot.get("config_path_daily", 0) == 0 or tot.get("config_rotations", 0) < 3:
        raise core.Infra("vacuous run: the logging-configuration path (size and daily) was not exercised: %s" % tot)
    # the floods are there to make the single producer outrun the writer: at least some of them must have found
    # the queue full (as many records outstanding as the queue has slots)
    if tot.get("flood_queue_full", 0) == 0:
        raise core.Infra("vacuous run: in none of %d floods did the producer find the writer's queue full (%s)" % (
            tot.get("flood_bursts", 0), tot))
    ctx.notes["driver_totals"] = tot
    ctx.states = sum(t["distinct"] for t in ctx.tlc_runs)
    ctx.transitions = sum(t["generated"] for t in ctx.tlc_runs)
    ctx.assumptions += ["size-triggered rotations at least a second apart (backup names have one-second resolution): "
                        "synthetic increasing name times in the fast tier, 1.1 s waits in the real-name cases",
                        "the run does not span local midnight",
                        "every Write is followed by a barrier (writer and post-rotation goroutines idle) before the directory is read"]


def replay(ctx, rp):
    if not rp.get("case"):
        raise core.Infra("this finding carries no replayable history")
    path, _ = ctx.write_cases("replay.ndjson", [rp["case"]])
    binp = ctx.go_build(PKG, OVERLAY, name="c19drv")
    hists, _ = record(ctx, binp, "replay", path, shards=1)
    tv.validate(ctx, "replay", hists, tspec(), path)
