package collection

// Replay driver for property C17 (overlaid into lib/collection by /verif/bin/check).
// It executes TLC-generated behaviours of spec/MemCacheGen.tla on the real Cache through its
// public operations (Set, SetWithExpire, Get, Del, Take).  The cache is built by the real
// NewCache; only the ticker of its expiry wheel is replaced by one driven by hand (same
// interval, slot count and expiry callback, taken from the wheel NewCache made), and the
// +/-5% jitter is pinned through the mathx.Unstable override.  After every tick the number of
// entries, and after every operation its result and the set of keys held (the cache's entry map;
// after a store into the full cache this names the victim of the eviction), are compared with the
// specification.  Counters reord_* / evict_after_reord_* report how often the behaviours changed
// the recency order while the cache was below its limit (classes fill / del / age, decided by the
// specification) and how often evictions followed (vacuity guard of checks/c17.py).

import (
	"errors"
	"fmt"
	"math"
	"runtime"
	"sort"
	"strings"
	"sync"
	"sync/atomic"
	"testing"
	"time"

	kit "github.com/gotid/god/internal/verifkit"
	"github.com/gotid/god/lib/logx"
	"github.com/gotid/god/lib/mathx"
)

// c17Ticker is a timex.Ticker with an unbuffered channel: a send returns once the wheel's run
// loop has received the tick.
type c17Ticker struct {
	c       chan time.Time
	stopped chan struct{}
	once    sync.Once
}

func newC17Ticker() *c17Ticker {
	return &c17Ticker{c: make(chan time.Time), stopped: make(chan struct{})}
}
func (t *c17Ticker) Chan() <-chan time.Time { return t.c }
func (t *c17Ticker) Stop()                  { t.once.Do(func() { close(t.stopped) }) }

var (
	c17ErrFetch = errors.New("c17 fetch failed")
	c17Jitter   atomic.Uint64 // math.Float64bits of the pinned random number
	c17JitCalls atomic.Int64
)

func c17PinJitter(thousandths int) {
	c17Jitter.Store(math.Float64bits(float64(thousandths) / 1000.0))
}

func c17InstallJitter() {
	mathx.SetVerifUnstable(func() (float64, bool) {
		c17JitCalls.Add(1)
		return math.Float64frombits(c17Jitter.Load()), true
	})
}

type c17cache struct {
	c     *Cache
	tk    *c17Ticker
	base  int
	limit int
	T     int
}

// newC17Cache builds the cache with the real constructor and re-homes its expiry wheel onto a
// hand-driven ticker.
func newC17Cache(expire time.Duration, limit int) (*c17cache, error) {
	g0 := runtime.NumGoroutine()
	opts := []CacheOption{WithName("c17")}
	if limit > 0 {
		opts = append(opts, WithLimit(limit))
	}
	c, err := NewCache(expire, opts...)
	if err != nil {
		return nil, err
	}
	old := c.timingWheel
	tk := newC17Ticker()
	nw, err := newTimingWheelWithClock(old.interval, old.numSlots, old.execute, tk)
	if err != nil {
		return nil, err
	}
	c.timingWheel = nw
	old.Stop()
	cc := &c17cache{c: c, tk: tk, limit: limit}
	cc.base = g0 + 2 // the cache's statistics loop and the new wheel's run loop
	if !c17WaitGoroutines(cc.base, 60*time.Second) {
		return nil, fmt.Errorf("goroutines after construction: have %d want <= %d\n%s", runtime.NumGoroutine(), cc.base, c17Stacks())
	}
	return cc, nil
}

func (cc *c17cache) close() {
	cc.c.timingWheel.Stop()
	select {
	case <-cc.tk.stopped:
	case <-time.After(5 * time.Second):
	}
	c17WaitGoroutines(cc.base-1, 20*time.Second)
	// the statistics goroutine of NewCache lives for ever and keeps the cache reachable: drop the bulk
	cc.c.lock.Lock()
	cc.c.data = map[string]any{}
	cc.c.lock.Unlock()
	cc.c.timingWheel = nil
}

// c17WaitGoroutines waits until runtime.NumGoroutine() <= base.  Unlike a plain deadline loop it
// re-checks after the deadline has passed, so that a stall of the whole process (loaded machine)
// cannot turn into a spurious time-out.
func c17WaitGoroutines(base int, d time.Duration) bool {
	deadline := time.Now().Add(d)
	for i := 0; ; i++ {
		if runtime.NumGoroutine() <= base {
			return true
		}
		if time.Now().After(deadline) {
			for j := 0; j < 200; j++ {
				time.Sleep(5 * time.Millisecond)
				if runtime.NumGoroutine() <= base {
					return true
				}
			}
			return false
		}
		if i < 200 {
			runtime.Gosched()
		} else {
			time.Sleep(50 * time.Microsecond)
		}
	}
}

// settle waits until the run loop has finished the previous command and the goroutine running
// the expiry callbacks (which itself talks to the run loop) has ended.
func (cc *c17cache) settle() error {
	if err := cc.c.timingWheel.RemoveTimer("\x00barrier"); err != nil {
		return fmt.Errorf("barrier command: %v", err)
	}
	if !c17WaitGoroutines(cc.base, 60*time.Second) {
		return fmt.Errorf("goroutines did not settle: have %d want <= %d\n%s", runtime.NumGoroutine(), cc.base, c17Stacks())
	}
	return nil
}

// c17Stacks: the stacks of the goroutines that are not parked statistics loops (bounded output).
func c17Stacks() string {
	all := strings.Split(kit.Stacks(), "\n\n")
	var keep []string
	for _, g := range all {
		if strings.Contains(g, "statLoop") {
			continue
		}
		keep = append(keep, g)
		if len(keep) >= 8 {
			break
		}
	}
	return strings.Join(keep, "\n\n")
}

// tick sends one tick; the send returns once the run loop has received it (so every earlier
// tick has been processed by the sequential run loop).  With settled, it also waits until the
// expiry callbacks triggered by this tick have run to completion.
func (cc *c17cache) tick(settled bool) error {
	select {
	case cc.tk.c <- time.Time{}:
	case <-time.After(120 * time.Second):
		// a stall of the whole process (overloaded machine) lets the timer and the run loop become ready together:
		// the deadline counts only if the run loop still does not take the tick afterwards
		select {
		case cc.tk.c <- time.Time{}:
		case <-time.After(30 * time.Second):
			return fmt.Errorf("tick not accepted by the run loop\n%s", c17Stacks())
		}
	}
	cc.T++
	if settled {
		return cc.settle()
	}
	return nil
}

func c17Obj(v any) map[string]any {
	if v == nil {
		return nil
	}
	if m, ok := v.(map[string]any); ok {
		return m
	}
	return nil
}

type c17fail struct {
	key, msg string
	infra    bool
}

// ticks runs n ticks and compares the number of held entries after each with the trail.
// The full barrier is taken at every tick at which the specification drops an entry, at the
// tick before it and at the last tick; in between the count is read after the bare tick and,
// if it deviates, read again after a full barrier (the expected count is constant there, so a
// deviation that survives the barrier is an entry dropped or kept at the wrong time).
func (cc *c17cache) ticks(n int, trail []any, size0 int, lastSched string) *c17fail {
	want := size0
	ti := 0
	must := map[int]bool{n: true}
	for _, e := range trail {
		i := kit.Num(e.(map[string]any)["i"])
		must[i], must[i-1] = true, true
	}
	for i := 1; i <= n; i++ {
		if err := cc.tick(must[i]); err != nil {
			return &c17fail{infra: true, msg: err.Error()}
		}
		if ti < len(trail) {
			m := trail[ti].(map[string]any)
			if kit.Num(m["i"]) == i {
				want = kit.Num(m["size"])
				ti++
			}
		}
		got := cc.c.size()
		if got != want && !must[i] {
			if err := cc.settle(); err != nil {
				return &c17fail{infra: true, msg: err.Error()}
			}
			got = cc.c.size()
		}
		if got != want {
			kind := "dropped-outside-window"
			if got > want {
				kind = "not-dropped-in-window"
			}
			return &c17fail{key: "C17:expiry:" + kind + ":after-" + lastSched,
				msg: fmt.Sprintf("tick %d of %d (T=%d): cache holds %d entries, specification %d", i, n, cc.T, got, want)}
		}
	}
	return nil
}

func (cc *c17cache) probe(want map[string]any, where string) *c17fail {
	keys := make([]string, 0, len(want))
	for k := range want {
		keys = append(keys, k)
	}
	sort.Strings(keys)
	for _, k := range keys {
		w := kit.Num(want[k])
		v, ok := cc.c.Get(k)
		if f := c17CompareGet("probe-"+where, k, v, ok, w != 0, w); f != nil {
			return f
		}
	}
	return nil
}

func c17CompareGet(op, k string, v any, ok bool, whit bool, wv int) *c17fail {
	switch {
	case ok && !whit:
		return &c17fail{key: "C17:" + op + ":unexpected-hit", msg: fmt.Sprintf("%s(%s) = %v, specification: not held", op, k, v)}
	case !ok && whit:
		return &c17fail{key: "C17:" + op + ":missing", msg: fmt.Sprintf("%s(%s) missed, specification: holds %d", op, k, wv)}
	case ok && whit:
		if iv, isInt := v.(int); !isInt || iv != wv {
			return &c17fail{key: "C17:" + op + ":stale-value", msg: fmt.Sprintf("%s(%s) = %v, specification %d", op, k, v, wv)}
		}
	}
	return nil
}

// heldKeys: the keys of the cache's entry map (the state the statement calls "holds"), sorted.
func (cc *c17cache) heldKeys() []string {
	cc.c.lock.Lock()
	defer cc.c.lock.Unlock()
	keys := make([]string, 0, len(cc.c.data))
	for k := range cc.c.data {
		keys = append(keys, k)
	}
	sort.Strings(keys)
	return keys
}

func c17Strs(v any) []string {
	l := kit.List(v)
	out := make([]string, 0, len(l))
	for _, x := range l {
		out = append(out, kit.Str(x))
	}
	sort.Strings(out)
	return out
}

func runC17Case(c kit.Case, expire, limit int, rep *kit.Reporter) (v kit.Verdict) {
	v = kit.Verdict{Case: c.Index, OK: true}
	cc, err := newC17Cache(time.Duration(expire)*time.Second, limit)
	if err != nil {
		return kit.Verdict{Case: c.Index, Infra: true, Msg: err.Error()}
	}
	defer cc.close()
	size := 0
	lastSched := "none"
	nset := map[string]int{}
	reords := map[string]bool{} // classes of recency changes made below capacity so far in this behaviour
	for i, st := range c.Steps {
		fail := func(f *c17fail) kit.Verdict {
			if f.infra {
				return kit.Verdict{Case: c.Index, Infra: true, Msg: f.msg}
			}
			v.OK, v.Step, v.Key = false, i, f.key
			v.Msg = fmt.Sprintf("expire=%ds limit=%d step %d (%s): %s", expire, limit, i, kit.Str(st["op"]), f.msg)
			return v
		}
		op := kit.Str(st["op"])
		if op == "finish" {
			if f := cc.probe(c17Obj(st["probe0"]), "before-tail"); f != nil {
				return fail(f)
			}
			v.Steps++
		}
		if f := cc.ticks(kit.Num(st["pre"]), kit.List(st["trail"]), size, lastSched); f != nil {
			return fail(f)
		}
		v.Steps += kit.Num(st["pre"])
		k := kit.Str(st["k"])
		switch op {
		case "set", "setx":
			c17PinJitter(kit.Num(st["R"]))
			before := c17JitCalls.Load()
			if op == "set" {
				cc.c.Set(k, kit.Num(st["v"]))
			} else {
				cc.c.SetWithExpire(k, kit.Num(st["v"]), time.Duration(kit.Num(st["e"]))*time.Second)
			}
			if c17JitCalls.Load() != before+1 {
				return kit.Verdict{Case: c.Index, Infra: true, Msg: "jitter override not consulted exactly once by Set"}
			}
			nset[k]++
			lastSched = "set"
			if nset[k] > 1 {
				lastSched = "reset"
			}
			rep.Count("op_"+op, 1)
		case "get":
			val, ok := cc.c.Get(k)
			if f := c17CompareGet("get", k, val, ok, kit.Bool(st["hit"]), kit.Num(st["v"])); f != nil {
				return fail(f)
			}
			rep.Count("op_get", 1)
		case "del":
			cc.c.Del(k)
			rep.Count("op_del", 1)
		case "take":
			c17PinJitter(kit.Num(st["R"]))
			calls := 0
			fok, fv := kit.Bool(st["fok"]), kit.Num(st["fv"])
			val, err := cc.c.Take(k, func() (any, error) {
				calls++
				if fok {
					return fv, nil
				}
				return nil, c17ErrFetch
			})
			wantCalls := 0
			if kit.Bool(st["fetched"]) {
				wantCalls = 1
				nset[k]++
				lastSched = "take"
			}
			if calls != wantCalls {
				return fail(&c17fail{key: fmt.Sprintf("C17:take:fetch-calls-%d-want-%d", calls, wantCalls),
					msg: fmt.Sprintf("Take(%s) ran the fetch function %d times, specification %d", k, calls, wantCalls)})
			}
			if kit.Bool(st["err"]) {
				if err != c17ErrFetch {
					return fail(&c17fail{key: "C17:take:error-lost", msg: fmt.Sprintf("Take(%s) = (%v, %v), specification: the fetch error", k, val, err)})
				}
			} else {
				if err != nil {
					return fail(&c17fail{key: "C17:take:unexpected-error", msg: fmt.Sprintf("Take(%s) failed with %v, specification: value %d", k, err, kit.Num(st["v"]))})
				}
				if f := c17CompareGet("take", k, val, true, true, kit.Num(st["v"])); f != nil {
					return fail(f)
				}
			}
			rep.Count("op_take", 1)
			if kit.Bool(st["hit"]) {
				rep.Count("take_hit", 1)
			}
		case "finish":
			if f := cc.probe(c17Obj(st["probe"]), "after-tail"); f != nil {
				return fail(f)
			}
		default:
			return kit.Verdict{Case: c.Index, Infra: true, Msg: "unknown op " + op}
		}
		v.Steps++
		size = kit.Num(st["size"])
		if got := cc.c.size(); got != size {
			key := "C17:size:after-" + op
			if limit > 0 && got > limit {
				key = "C17:bound-exceeded:after-" + op
			}
			return fail(&c17fail{key: key, msg: fmt.Sprintf("cache holds %d entries, specification %d", got, size)})
		}
		if limit > 0 && size == limit {
			rep.Count("full", 1)
		}
		if hv, has := st["held"]; has {
			want, got := c17Strs(hv), cc.heldKeys()
			if strings.Join(want, ",") != strings.Join(got, ",") {
				key := "C17:held-keys:after-" + op
				if ev := c17Strs(st["evicted"]); len(ev) > 0 {
					key = "C17:lru:wrong-victim:after-" + op
					return fail(&c17fail{key: key, msg: fmt.Sprintf("%s(%s) into the full cache: holds %v afterwards, specification %v (least recently used: %v)",
						op, k, got, want, ev)})
				}
				return fail(&c17fail{key: key, msg: fmt.Sprintf("cache holds %v, specification %v", got, want)})
			}
			if ro := kit.Str(st["reord"]); ro != "" && !reords[ro] {
				reords[ro] = true
				rep.Count("reord_"+ro, 1)
			}
			if len(kit.List(st["evicted"])) > 0 {
				rep.Count("evictions", 1)
				for ro := range reords {
					rep.Count("evict_after_reord_"+ro, 1)
				}
			}
		}
	}
	return v
}

func TestVerifC17(t *testing.T) {
	logx.Disable()
	cases, err := kit.LoadCases(kit.Env("VERIF_CASES", ""))
	if err != nil {
		t.Fatal(err)
	}
	rep, err := kit.NewReporter(kit.Env("VERIF_OUT", ""))
	if err != nil {
		t.Fatal(err)
	}
	defer rep.Close()
	c17InstallJitter()
	defer mathx.SetVerifUnstable(nil)
	expire, limit := kit.EnvInt("VERIF_EXPIRE", 20), kit.EnvInt("VERIF_LIMIT", 0)
	shard, shards := kit.EnvInt("VERIF_SHARD", 0), kit.EnvInt("VERIF_SHARDS", 1)
	for _, c := range cases {
		if c.Index%shards != shard {
			continue
		}
		rep.Put(runC17Case(c, expire, limit, rep))
	}
}
