package collection

// Recording driver for the concurrent part of property C17: several goroutines call Take on a
// real Cache (built by NewCache, long expiry, real wheel untouched) with fetch functions that
// log their first and last statement; the recorded histories are validated by TLC against
// spec/MemCacheTake.tla.  Nothing is judged here; scheduling is left to the Go runtime, a gate
// only makes it likely that callers overlap (any outcome is a legal input of the validation).
// Two shapes: "gated" (few callers, two keys, the first fetch is held open while the others
// arrive) and "stagger" (many callers on one fresh key, started a few microseconds apart, with a
// very short fetch: callers that miss the cache just before the value is stored and reach the
// flight group just after the flight is gone).

import (
	"math/rand"
	"sort"
	"sync"
	"sync/atomic"
	"testing"
	"time"

	kit "github.com/gotid/god/internal/verifkit"
	"github.com/gotid/god/lib/logx"
)

func TestVerifC17Take(t *testing.T) {
	logx.Disable()
	rep, err := kit.NewReporter(kit.Env("VERIF_OUT", ""))
	if err != nil {
		t.Fatal(err)
	}
	defer rep.Close()
	tr, err := kit.NewTracer(kit.Env("VERIF_TRACE", ""))
	if err != nil {
		t.Fatal(err)
	}
	defer tr.Close()
	rounds := kit.EnvInt("VERIF_ROUNDS", 40)
	maxProcs := kit.EnvInt("VERIF_PROCS", 5)
	rng := rand.New(rand.NewSource(kit.Seed()*7919 + int64(kit.EnvInt("GOMAXPROCS", 0))))
	keys := []string{"a", "b"}
	if kit.Env("VERIF_SHAPE", "gated") == "stagger" {
		c17TakeStagger(rep, tr, rng, rounds, maxProcs)
		return
	}
	for r := 0; r < rounds; r++ {
		cache, err := NewCache(time.Hour)
		if err != nil {
			rep.Put(kit.Verdict{Case: r, Infra: true, Msg: err.Error()})
			return
		}
		n := 2 + rng.Intn(maxProcs-1)
		calls := 1 + rng.Intn(3)
		failPct := []int{0, 30, 100}[rng.Intn(3)]
		tr.Emit(kit.M{"e": "reset", "kind": "take", "n": n})
		var invs atomic.Int64
		var vals atomic.Int64
		var wg sync.WaitGroup
		// per-goroutine plans are drawn before the goroutines start (the rng is not shared)
		type plan struct {
			key  string
			fail bool
		}
		plans := make([][]plan, n)
		for p := 0; p < n; p++ {
			for c := 0; c < calls; c++ {
				plans[p] = append(plans[p], plan{key: keys[rng.Intn(len(keys))], fail: rng.Intn(100) < failPct})
			}
		}
		want := int64(n)
		for p := 0; p < n; p++ {
			wg.Add(1)
			go func(p int) {
				defer wg.Done()
				for _, pl := range plans[p] {
					k := pl.key
					tr.Emit(kit.M{"e": "inv", "p": p, "k": k})
					invs.Add(1)
					val, err := cache.Take(k, func() (any, error) {
						tr.Emit(kit.M{"e": "fb", "p": p, "k": k})
						// hold the fetch until every goroutine has invoked its first call (or 2 ms)
						deadline := time.Now().Add(2 * time.Millisecond)
						for invs.Load() < want && time.Now().Before(deadline) {
							time.Sleep(20 * time.Microsecond)
						}
						time.Sleep(50 * time.Microsecond)
						if pl.fail {
							tr.Emit(kit.M{"e": "fe", "p": p, "k": k, "ok": false, "v": 0})
							return nil, c17ErrFetch
						}
						v := int(vals.Add(1))
						tr.Emit(kit.M{"e": "fe", "p": p, "k": k, "ok": true, "v": v})
						return v, nil
					})
					if err != nil {
						tr.Emit(kit.M{"e": "ret", "p": p, "k": k, "err": true, "v": 0, "own": err == c17ErrFetch})
					} else {
						iv, _ := val.(int)
						tr.Emit(kit.M{"e": "ret", "p": p, "k": k, "err": false, "v": iv})
					}
				}
			}(p)
		}
		wg.Wait()
		cache.timingWheel.Stop()
		rep.Put(kit.Verdict{Case: r, OK: true, Steps: n * calls})
	}
}

// c17ev is one recorded event of the stagger shape.  The sequence number is taken with one
// atomic increment at the log point (no lock, no I/O in the callers' path); an event that is
// complete before another one starts has the smaller number, which is all the validation needs.
type c17ev struct {
	seq int64
	m   kit.M
}

// c17TakeStagger: per round a fresh cache, n callers of Take on one key released together and
// delayed by a few hundred nanoseconds of spinning each; the fetch is not gated and almost
// immediate, so callers pile up on the cache lock and on the flight group's lock exactly while
// the first flight stores its value and unregisters.
func c17TakeStagger(rep *kit.Reporter, tr *kit.Tracer, rng *rand.Rand, rounds, n int) {
	var sink atomic.Int64
	for r := 0; r < rounds; r++ {
		cache, err := NewCache(time.Hour)
		if err != nil {
			rep.Put(kit.Verdict{Case: r, Infra: true, Msg: err.Error()})
			return
		}
		spread := 1 + rng.Intn(2000)
		work := rng.Intn(200)
		delays := make([]int, n)
		for p := range delays {
			delays[p] = rng.Intn(spread)
		}
		var seq, vals atomic.Int64
		evs := make([][]c17ev, n)
		var wg sync.WaitGroup
		start := make(chan struct{})
		for p := 0; p < n; p++ {
			wg.Add(1)
			go func(p int) {
				defer wg.Done()
				log := func(m kit.M) { evs[p] = append(evs[p], c17ev{seq.Add(1), m}) }
				evs[p] = make([]c17ev, 0, 4)
				<-start
				x := int64(0)
				for i := 0; i < delays[p]; i++ {
					x += int64(i)
				}
				sink.Add(x)
				log(kit.M{"e": "inv", "p": p, "k": "a"})
				val, err := cache.Take("a", func() (any, error) {
					log(kit.M{"e": "fb", "p": p, "k": "a"})
					y := int64(0)
					for i := 0; i < work; i++ {
						y += int64(i)
					}
					sink.Add(y)
					v := int(vals.Add(1))
					log(kit.M{"e": "fe", "p": p, "k": "a", "ok": true, "v": v})
					return v, nil
				})
				if err != nil {
					log(kit.M{"e": "ret", "p": p, "k": "a", "err": true, "v": 0, "own": err == c17ErrFetch})
				} else {
					iv, _ := val.(int)
					log(kit.M{"e": "ret", "p": p, "k": "a", "err": false, "v": iv})
				}
			}(p)
		}
		close(start)
		wg.Wait()
		cache.timingWheel.Stop()
		var all []c17ev
		for _, e := range evs {
			all = append(all, e...)
		}
		sort.Slice(all, func(i, j int) bool { return all[i].seq < all[j].seq })
		tr.Emit(kit.M{"e": "reset", "kind": "stagger", "n": n})
		for _, e := range all {
			tr.Emit(e.m)
		}
		if vals.Load() > 1 {
			rep.Count("rounds_with_several_fetches", 1)
		}
		rep.Put(kit.Verdict{Case: r, OK: true, Steps: n})
	}
}
