package collection

// Recording driver for the concurrent part of property C17: several goroutines call Take on a
// real Cache (built by NewCache, long expiry, real wheel untouched) with fetch functions that
// log their first and last statement; the recorded histories are validated by TLC against
// spec/MemCacheTake.tla.  Nothing is judged here; scheduling is left to the Go runtime, a gate
// only makes it likely that callers overlap (any outcome is a legal input of the validation).
// Three shapes: "gated" (few callers, two keys, the first fetch is held open while the others
// arrive; every successful Take is followed by a Get of its caller and every round ends with a Get
// of every key), "twocache" (the same on TWO cache instances alive at the same time and asked for
// the same keys: the first calls of two goroutines go to different instances with the same key, so
// their gated fetches overlap; every event carries the cache id and every fetched value names the
// cache whose fetch function produced it) and "stagger" (many callers on one fresh key, started a
// few microseconds apart, with a very short fetch: callers that miss the cache just before the
// value is stored and reach the flight group just after the flight is gone).

import (
	"math/rand"
	"sort"
	"sync"
	"sync/atomic"
	"testing"
	"time"

	kit "github.com/gotid/god/internal/verifkit"
	"github.com/gotid/god/lib/logx"
)

func TestVerifC17Take(t *testing.T) {
	logx.Disable()
	rep, err := kit.NewReporter(kit.Env("VERIF_OUT", ""))
	if err != nil {
		t.Fatal(err)
	}
	defer rep.Close()
	tr, err := kit.NewTracer(kit.Env("VERIF_TRACE", ""))
	if err != nil {
		t.Fatal(err)
	}
	defer tr.Close()
	rounds := kit.EnvInt("VERIF_ROUNDS", 40)
	maxProcs := kit.EnvInt("VERIF_PROCS", 5)
	rng := rand.New(rand.NewSource(kit.Seed()*7919 + int64(kit.EnvInt("GOMAXPROCS", 0))))
	keys := []string{"a", "b"}
	shape := kit.Env("VERIF_SHAPE", "gated")
	if shape == "stagger" {
		c17TakeStagger(rep, tr, rng, rounds, maxProcs)
		return
	}
	// "gated": one cache; "twocache": two caches used at the same time with the same keys
	ncaches := 1
	if shape == "twocache" {
		ncaches = 2
	}
	hold := 2 * time.Millisecond
	kind := "take"
	if ncaches > 1 {
		hold = 20 * time.Millisecond
		kind = "twocache"
	}
	for r := 0; r < rounds; r++ {
		caches := make([]*Cache, ncaches)
		for i := range caches {
			c, err := NewCache(time.Hour)
			if err != nil {
				rep.Put(kit.Verdict{Case: r, Infra: true, Msg: err.Error()})
				return
			}
			caches[i] = c
		}
		n := 2 + rng.Intn(maxProcs-1)
		calls := 1 + rng.Intn(3)
		failPct := []int{0, 30, 100}[rng.Intn(3)]
		tr.Emit(kit.M{"e": "reset", "kind": kind, "n": n, "caches": ncaches})
		var invs atomic.Int64
		var vals atomic.Int64
		var wg sync.WaitGroup
		// per-goroutine plans are drawn before the goroutines start (the rng is not shared)
		type plan struct {
			cache int // 1-based id of the cache instance
			key   string
			fail  bool
		}
		plans := make([][]plan, n)
		for p := 0; p < n; p++ {
			for c := 0; c < calls; c++ {
				plans[p] = append(plans[p], plan{cache: 1 + rng.Intn(ncaches), key: keys[rng.Intn(len(keys))],
					fail: rng.Intn(100) < failPct})
			}
		}
		// two caches: the first calls of the first two goroutines ask DIFFERENT caches for the SAME key k0,
		// and a fetch of k0 is also held until a fetch of k0 has begun on the other cache (or `hold`)
		k0 := ""
		var began [3]atomic.Bool
		if ncaches > 1 {
			k0 = keys[rng.Intn(len(keys))]
			plans[0][0].cache, plans[0][0].key = 1, k0
			plans[1][0].cache, plans[1][0].key = 2, k0
		}
		want := int64(n)
		// get logs one Get on cache id c (gi before, gr after the call) as process p
		get := func(p, c int, k string) {
			tr.Emit(kit.M{"e": "gi", "p": p, "c": c, "k": k})
			val, ok := caches[c-1].Get(k)
			iv := 0
			if ok {
				if x, isInt := val.(int); isInt {
					iv = x
				} else {
					iv = -1
				}
			}
			tr.Emit(kit.M{"e": "gr", "p": p, "c": c, "k": k, "hit": ok, "v": iv})
		}
		for p := 0; p < n; p++ {
			wg.Add(1)
			go func(p int) {
				defer wg.Done()
				for _, pl := range plans[p] {
					k, c := pl.key, pl.cache
					tr.Emit(kit.M{"e": "inv", "p": p, "c": c, "k": k})
					invs.Add(1)
					val, err := caches[c-1].Take(k, func() (any, error) {
						tr.Emit(kit.M{"e": "fb", "p": p, "c": c, "k": k})
						// hold the fetch until every goroutine has invoked its first call (or `hold`)
						deadline := time.Now().Add(hold)
						for invs.Load() < want && time.Now().Before(deadline) {
							time.Sleep(20 * time.Microsecond)
						}
						if k == k0 {
							began[c].Store(true)
							for !began[3-c].Load() && time.Now().Before(deadline) {
								time.Sleep(20 * time.Microsecond)
							}
						}
						time.Sleep(50 * time.Microsecond)
						if pl.fail {
							tr.Emit(kit.M{"e": "fe", "p": p, "c": c, "k": k, "ok": false, "v": 0})
							return nil, c17ErrFetch
						}
						// values are unique in the round and name the cache whose fetch function made them
						v := c*1000 + int(vals.Add(1))
						tr.Emit(kit.M{"e": "fe", "p": p, "c": c, "k": k, "ok": true, "v": v})
						return v, nil
					})
					if err != nil {
						tr.Emit(kit.M{"e": "ret", "p": p, "c": c, "k": k, "err": true, "v": 0, "own": err == c17ErrFetch})
					} else {
						iv, isInt := val.(int)
						if !isInt {
							iv = -1
						}
						tr.Emit(kit.M{"e": "ret", "p": p, "c": c, "k": k, "err": false, "v": iv})
						// a successful Take leaves the key in ITS cache
						get(p, c, k)
					}
				}
			}(p)
		}
		wg.Wait()
		// at quiescence: what every cache holds for every key
		for c := 1; c <= ncaches; c++ {
			for _, k := range keys {
				get(n, c, k)
			}
		}
		for _, c := range caches {
			c.timingWheel.Stop()
		}
		rep.Put(kit.Verdict{Case: r, OK: true, Steps: n*calls + ncaches*len(keys)})
	}
}

// c17ev is one recorded event of the stagger shape.  The sequence number is taken with one
// atomic increment at the log point (no lock, no I/O in the callers' path); an event that is
// complete before another one starts has the smaller number, which is all the validation needs.
type c17ev struct {
	seq int64
	m   kit.M
}

// c17TakeStagger: per round a fresh cache, n callers of Take on one key released together and
// delayed by a few hundred nanoseconds of spinning each; the fetch is not gated and almost
// immediate, so callers pile up on the cache lock and on the flight group's lock exactly while
// the first flight stores its value and unregisters.
func c17TakeStagger(rep *kit.Reporter, tr *kit.Tracer, rng *rand.Rand, rounds, n int) {
	var sink atomic.Int64
	for r := 0; r < rounds; r++ {
		cache, err := NewCache(time.Hour)
		if err != nil {
			rep.Put(kit.Verdict{Case: r, Infra: true, Msg: err.Error()})
			return
		}
		spread := 1 + rng.Intn(2000)
		work := rng.Intn(200)
		delays := make([]int, n)
		for p := range delays {
			delays[p] = rng.Intn(spread)
		}
		var seq, vals atomic.Int64
		evs := make([][]c17ev, n)
		var wg sync.WaitGroup
		start := make(chan struct{})
		for p := 0; p < n; p++ {
			wg.Add(1)
			go func(p int) {
				defer wg.Done()
				log := func(m kit.M) { evs[p] = append(evs[p], c17ev{seq.Add(1), m}) }
				evs[p] = make([]c17ev, 0, 4)
				<-start
				x := int64(0)
				for i := 0; i < delays[p]; i++ {
					x += int64(i)
				}
				sink.Add(x)
				log(kit.M{"e": "inv", "p": p, "c": 1, "k": "a"})
				val, err := cache.Take("a", func() (any, error) {
					log(kit.M{"e": "fb", "p": p, "c": 1, "k": "a"})
					y := int64(0)
					for i := 0; i < work; i++ {
						y += int64(i)
					}
					sink.Add(y)
					v := int(vals.Add(1))
					log(kit.M{"e": "fe", "p": p, "c": 1, "k": "a", "ok": true, "v": v})
					return v, nil
				})
				if err != nil {
					log(kit.M{"e": "ret", "p": p, "c": 1, "k": "a", "err": true, "v": 0, "own": err == c17ErrFetch})
				} else {
					iv, _ := val.(int)
					log(kit.M{"e": "ret", "p": p, "c": 1, "k": "a", "err": false, "v": iv})
				}
			}(p)
		}
		close(start)
		wg.Wait()
		cache.timingWheel.Stop()
		var all []c17ev
		for _, e := range evs {
			all = append(all, e...)
		}
		sort.Slice(all, func(i, j int) bool { return all[i].seq < all[j].seq })
		tr.Emit(kit.M{"e": "reset", "kind": "stagger", "n": n})
		for _, e := range all {
			tr.Emit(e.m)
		}
		if vals.Load() > 1 {
			rep.Count("rounds_with_several_fetches", 1)
		}
		rep.Put(kit.Verdict{Case: r, OK: true, Steps: n})
	}
}
