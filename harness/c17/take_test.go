package collection

// Recording driver for the concurrent part of property C17: several goroutines call Take on a
// real Cache (built by NewCache, long expiry, real wheel untouched) with fetch functions that
// log their first and last statement; the recorded histories are validated by TLC against
// spec/MemCacheTake.tla.  Nothing is judged here; scheduling is left to the Go runtime, a gate
// only makes it likely that callers overlap (any outcome is a legal input of the validation).

import (
	"math/rand"
	"sync"
	"sync/atomic"
	"testing"
	"time"

	kit "github.com/gotid/god/internal/verifkit"
	"github.com/gotid/god/lib/logx"
)

func TestVerifC17Take(t *testing.T) {
	logx.Disable()
	rep, err := kit.NewReporter(kit.Env("VERIF_OUT", ""))
	if err != nil {
		t.Fatal(err)
	}
	defer rep.Close()
	tr, err := kit.NewTracer(kit.Env("VERIF_TRACE", ""))
	if err != nil {
		t.Fatal(err)
	}
	defer tr.Close()
	rounds := kit.EnvInt("VERIF_ROUNDS", 40)
	maxProcs := kit.EnvInt("VERIF_PROCS", 5)
	rng := rand.New(rand.NewSource(kit.Seed()*7919 + int64(kit.EnvInt("GOMAXPROCS", 0))))
	keys := []string{"a", "b"}
	for r := 0; r < rounds; r++ {
		cache, err := NewCache(time.Hour)
		if err != nil {
			rep.Put(kit.Verdict{Case: r, Infra: true, Msg: err.Error()})
			return
		}
		n := 2 + rng.Intn(maxProcs-1)
		calls := 1 + rng.Intn(3)
		failPct := []int{0, 30, 100}[rng.Intn(3)]
		tr.Emit(kit.M{"e": "reset", "kind": "take", "n": n})
		var invs atomic.Int64
		var vals atomic.Int64
		var wg sync.WaitGroup
		// per-goroutine plans are drawn before the goroutines start (the rng is not shared)
		type plan struct {
			key  string
			fail bool
		}
		plans := make([][]plan, n)
		for p := 0; p < n; p++ {
			for c := 0; c < calls; c++ {
				plans[p] = append(plans[p], plan{key: keys[rng.Intn(len(keys))], fail: rng.Intn(100) < failPct})
			}
		}
		want := int64(n)
		for p := 0; p < n; p++ {
			wg.Add(1)
			go func(p int) {
				defer wg.Done()
				for _, pl := range plans[p] {
					k := pl.key
					tr.Emit(kit.M{"e": "inv", "p": p, "k": k})
					invs.Add(1)
					val, err := cache.Take(k, func() (any, error) {
						tr.Emit(kit.M{"e": "fb", "p": p, "k": k})
						// hold the fetch until every goroutine has invoked its first call (or 2 ms)
						deadline := time.Now().Add(2 * time.Millisecond)
						for invs.Load() < want && time.Now().Before(deadline) {
							time.Sleep(20 * time.Microsecond)
						}
						time.Sleep(50 * time.Microsecond)
						if pl.fail {
							tr.Emit(kit.M{"e": "fe", "p": p, "k": k, "ok": false, "v": 0})
							return nil, c17ErrFetch
						}
						v := int(vals.Add(1))
						tr.Emit(kit.M{"e": "fe", "p": p, "k": k, "ok": true, "v": v})
						return v, nil
					})
					if err != nil {
						tr.Emit(kit.M{"e": "ret", "p": p, "k": k, "err": true, "v": 0, "own": err == c17ErrFetch})
					} else {
						iv, _ := val.(int)
						tr.Emit(kit.M{"e": "ret", "p": p, "k": k, "err": false, "v": iv})
					}
				}
			}(p)
		}
		wg.Wait()
		cache.timingWheel.Stop()
		rep.Put(kit.Verdict{Case: r, OK: true, Steps: n * calls})
	}
}
