package rpc

// Replay driver for property C02, unary RPC part (overlaid into /repo/rpc by /verif/bin/check).
//
// The servers run in a CHILD process (this test binary re-executed with VERIF_C02_RPC_CHILD=1),
// because "a panicking handler never takes the server down" can only be judged from outside:
//
//	pub-long / pub-short   rpc.NewServer(ServerConfig{Timeout: 10 min / 150 ms}) - the public
//	                       constructor, interceptors exactly as server.Start and setupInterceptors order them
//	pub-none               rpc.NewServer(ServerConfig{Timeout: 0}): the chain without time-out interceptor
//	obs-long / obs-short   internal.NewServer + an observer interceptor + the real setupInterceptors,
//	                       so that the status returned by the time-out interceptor is seen server-side
//	                       (needed for client cancel, where the client never sees the server's answer)
//
// The specification's `chain` dimension: "server" = the long/short servers, "server0" = pub-none; the
// in-process chains ("crash": serverinterceptors.UnaryCrashInterceptor alone, "crash+setup" / "crash+setup0":
// the crash interceptor around what the real setupInterceptors adds for Timeout > 0 / = 0) are composed in
// the parent process and called directly, where the pair (resp, err) itself is observed.  The `pv`
// dimension is the value a panicking handler throws (c02RpcPanic).
//
// The handler is gated: "late" scenarios block on <-ctx.Done() (the 150 ms time-out is always
// reached because the handler waits for it; a cancel comes from the client once the handler was
// entered, under the 10 min time-out) and only then return / fail / panic.  The parent sends the
// TLC-generated scenarios with a plain grpc client and compares gRPC codes with the specification.
//
// WHEN the answer arrives is an observation too: for scenarios the specification answers "at the
// deadline" (late handlers) the handler may also ignore its context and end only 1.5 s later
// ("sleep") or not at all ("never"); the client must hold DeadlineExceeded (time-out 150 ms), and
// the observer must have seen the time-out interceptor return Canceled after the client's cancel,
// within 1 s - at least 500 ms away from the deadline on one side and from the handler's end on the
// other.  A late answer counts only if it reproduces 3 times with a prompt handler entry (a stalled
// machine is an infrastructure error, not a violation).

import (
	"bufio"
	"context"
	"encoding/json"
	"errors"
	"fmt"
	"io"
	"net"
	"os"
	"os/exec"
	"strconv"
	"sync"
	"sync/atomic"
	"testing"
	"time"

	kit "github.com/gotid/god/internal/verifkit"
	"github.com/gotid/god/lib/logx"
	"github.com/gotid/god/lib/mathx"
	"github.com/gotid/god/lib/stat"
	"github.com/gotid/god/rpc/internal"
	"github.com/gotid/god/rpc/internal/mock"
	"github.com/gotid/god/rpc/internal/serverinterceptors"
	"google.golang.org/grpc"
	"google.golang.org/grpc/codes"
	"google.golang.org/grpc/credentials/insecure"
	"google.golang.org/grpc/metadata"
	"google.golang.org/grpc/status"
)

const (
	c02RpcLongMs  = 600000
	c02RpcShortMs = 150
	c02RpcBarrier = 30 * time.Second
	c02RpcSleep   = 1500 * time.Millisecond // a handler that ignores its context ends this long after entry
	c02RpcPrompt  = 1 * time.Second         // "at the deadline": answered within this
	c02RpcStall   = 400 * time.Millisecond  // handler entry slower than this: the machine is stalled, timing says nothing
)

// ---------------------------------------------------------------- child: the servers

type c02Out struct {
	mu sync.Mutex
	w  *bufio.Writer
}

func (o *c02Out) emit(m kit.M) {
	b, _ := json.Marshal(m)
	o.mu.Lock()
	o.w.Write(b)
	o.w.WriteByte('\n')
	o.w.Flush()
	o.mu.Unlock()
}

type c02Dep struct {
	out *c02Out
}

func c02MD(ctx context.Context, k string) string {
	md, _ := metadata.FromIncomingContext(ctx)
	if v := md.Get(k); len(v) > 0 {
		return v[0]
	}
	return ""
}

func (d *c02Dep) Deposit(ctx context.Context, _ *mock.DepositRequest) (*mock.DepositResponse, error) {
	id, beh, late := c02MD(ctx, "x-verif-id"), c02MD(ctx, "x-verif-beh"), c02MD(ctx, "x-verif-late") == "1"
	d.out.emit(kit.M{"ev": "entered", "id": id})
	if late {
		switch c02MD(ctx, "x-verif-wait") {
		case "sleep": // ignores its context
			time.Sleep(c02RpcSleep)
		case "never": // ends only when the server process is torn down
			select {}
		default:
			<-ctx.Done()
		}
	}
	switch beh {
	case "err":
		return nil, status.Error(codes.InvalidArgument, "verif C02: scripted handler error")
	case "panic":
		c02RpcPanic(c02MD(ctx, "x-verif-pv"))
	}
	return &mock.DepositResponse{Ok: true}, nil
}

type c02RpcCustom struct{ n int }

// c02RpcStatusErr is an error that answers the GRPCStatus() interface status.Code / status.FromError look for.
type c02RpcStatusErr struct{ code codes.Code }

func (e c02RpcStatusErr) Error() string {
	return "verif C02: scripted handler panic (custom error with GRPCStatus)"
}
func (e c02RpcStatusErr) GRPCStatus() *status.Status {
	return status.New(e.code, "verif C02: status carried by a panic value")
}

// c02RpcPanic panics with the kind of value the scenario names; no prediction depends on it.
func c02RpcPanic(pv string) {
	switch pv {
	case "", "string":
		panic("verif C02: scripted handler panic")
	case "error":
		panic(errors.New("verif C02: scripted handler panic (error value)"))
	case "wrapped":
		panic(fmt.Errorf("verif C02: scripted handler panic: %w", io.ErrUnexpectedEOF))
	case "nilmap":
		var m map[string]int
		m["x"] = 1 // runtime error: assignment to entry in nil map
	case "nilptr":
		var p *c02RpcCustom
		p.n++ // runtime error: invalid memory address or nil pointer dereference
	case "index":
		var s []int
		i := len(s) + 3
		_ = s[i] // runtime error: index out of range
	case "custom":
		panic(c02RpcCustom{n: 2})
	case "status_notfound":
		panic(status.Error(codes.NotFound, "verif C02: scripted handler panic (status error)"))
	case "status_deadline":
		panic(status.Error(codes.DeadlineExceeded, "verif C02: scripted handler panic (status error)"))
	case "status_wrapped":
		panic(fmt.Errorf("verif C02: scripted handler panic: %w", status.Error(codes.PermissionDenied, "wrapped status")))
	case "grpcstatus_exists":
		panic(c02RpcStatusErr{code: codes.AlreadyExists})
	case "grpcstatus_ok":
		panic(c02RpcStatusErr{code: codes.OK})
	}
	panic("verif C02: unknown panic value kind " + pv)
}

func c02RpcFreeAddr() (string, error) {
	l, err := net.Listen("tcp", "127.0.0.1:0")
	if err != nil {
		return "", err
	}
	a := l.Addr().String()
	l.Close()
	return a, nil
}

func c02WaitUp(addr string, errCh chan error) error {
	deadline := time.Now().Add(c02RpcBarrier)
	for time.Now().Before(deadline) {
		select {
		case err := <-errCh:
			return err
		default:
		}
		if c, err := net.DialTimeout("tcp", addr, time.Second); err == nil {
			c.Close()
			return nil
		}
		time.Sleep(5 * time.Millisecond)
	}
	return fmt.Errorf("%s not up", addr)
}

// c02StartServer starts one server; observer=false: the public constructor; observer=true: the same
// composition with an observer placed directly outside the interceptors setupInterceptors adds.
func c02StartServer(dep *c02Dep, timeoutMs int64, observer bool) (string, error) {
	var last error
	for attempt := 0; attempt < 6; attempt++ {
		addr, err := c02RpcFreeAddr()
		if err != nil {
			return "", err
		}
		c := ServerConfig{ListenOn: addr, Timeout: timeoutMs, CpuThreshold: 0, Health: false}
		c.Name = "verif-c02"
		register := func(g *grpc.Server) { mock.RegisterDepositServiceServer(g, dep) }
		errCh := make(chan error, 1)
		guard := func(f func() error) {
			go func() {
				defer func() {
					if p := recover(); p != nil {
						errCh <- fmt.Errorf("start: %v", p)
					}
				}()
				errCh <- f()
			}()
		}
		if !observer {
			s, err := NewServer(c, register)
			if err != nil {
				return "", err
			}
			guard(func() error { s.Start(); return fmt.Errorf("Start returned") })
		} else {
			metrics := stat.NewMetrics(addr)
			is := internal.NewServer(addr, internal.WithMetrics(metrics), internal.WithHealth(false))
			is.SetName(c.Name)
			is.AddUnaryInterceptors(func(ctx context.Context, req interface{}, _ *grpc.UnaryServerInfo, h grpc.UnaryHandler) (resp interface{}, err error) {
				id := c02MD(ctx, "x-verif-id")
				defer func() {
					if p := recover(); p != nil {
						dep.out.emit(kit.M{"ev": "obs", "id": id, "code": "panic-propagated"})
						panic(p)
					}
					dep.out.emit(kit.M{"ev": "obs", "id": id, "code": status.Code(err).String()})
				}()
				return h(ctx, req)
			})
			if err := setupInterceptors(is, c, metrics); err != nil {
				return "", err
			}
			guard(func() error { return is.Start(register) })
		}
		if last = c02WaitUp(addr, errCh); last == nil {
			return addr, nil
		}
	}
	return "", last
}

// TestVerifC02RpcServer is the child process: it serves until its stdin is closed.
func TestVerifC02RpcServer(t *testing.T) {
	if os.Getenv("VERIF_C02_RPC_CHILD") != "1" {
		t.Skip("child mode only")
	}
	mathx.SetVerifCoin(func(float64) (bool, bool) { return false, true }) // the breaker interceptor never sheds
	logx.Disable()
	out := &c02Out{w: bufio.NewWriter(os.Stdout)}
	dep := &c02Dep{out: out}
	ports := kit.M{}
	for _, s := range []struct {
		name string
		ms   int64
		obs  bool
	}{{"pub-long", c02RpcLongMs, false}, {"pub-short", c02RpcShortMs, false}, {"obs-long", c02RpcLongMs, true}, {"obs-short", c02RpcShortMs, true},
		{"pub-none", 0, false}} {
		addr, err := c02StartServer(dep, s.ms, s.obs)
		if err != nil {
			out.emit(kit.M{"ev": "fatal", "msg": err.Error()})
			return
		}
		ports[s.name] = addr
	}
	out.emit(kit.M{"ev": "ready", "addrs": ports})
	io.Copy(io.Discard, os.Stdin)
}

// ---------------------------------------------------------------- parent: the client

type c02Child struct {
	cmd    *exec.Cmd
	stdin  io.WriteCloser
	addrs  map[string]string
	conns  map[string]*grpc.ClientConn
	mu     sync.Mutex
	wait   map[string]chan string // "entered:<id>" / "obs:<id>" -> value
	at     sync.Map               // same keys -> time the event was received
	exited chan struct{}
}

func (c *c02Child) ch(key string) chan string {
	c.mu.Lock()
	defer c.mu.Unlock()
	x, ok := c.wait[key]
	if !ok {
		x = make(chan string, 4)
		c.wait[key] = x
	}
	return x
}

func c02Spawn() (*c02Child, error) {
	cmd := exec.Command(os.Args[0], "-test.run", "^TestVerifC02RpcServer$", "-test.count=1", "-test.timeout=30m")
	cmd.Env = append(os.Environ(), "VERIF_C02_RPC_CHILD=1")
	cmd.Stderr = io.Discard
	stdin, err := cmd.StdinPipe()
	if err != nil {
		return nil, err
	}
	stdout, err := cmd.StdoutPipe()
	if err != nil {
		return nil, err
	}
	if err := cmd.Start(); err != nil {
		return nil, err
	}
	c := &c02Child{cmd: cmd, stdin: stdin, wait: map[string]chan string{}, exited: make(chan struct{}), conns: map[string]*grpc.ClientConn{}}
	ready := make(chan map[string]string, 1)
	fatal := make(chan string, 1)
	go func() {
		sc := bufio.NewScanner(stdout)
		sc.Buffer(make([]byte, 1<<16), 1<<22)
		for sc.Scan() {
			line := sc.Bytes()
			if len(line) == 0 || line[0] != '{' {
				continue
			}
			var m map[string]any
			if json.Unmarshal(line, &m) != nil {
				continue
			}
			switch kit.Str(m["ev"]) {
			case "ready":
				a := map[string]string{}
				for k, v := range m["addrs"].(map[string]any) {
					a[k] = kit.Str(v)
				}
				ready <- a
			case "fatal":
				fatal <- kit.Str(m["msg"])
			case "entered":
				c.at.Store("entered:"+kit.Str(m["id"]), time.Now())
				c.ch("entered:" + kit.Str(m["id"])) <- "1"
			case "obs":
				c.at.Store("obs:"+kit.Str(m["id"]), time.Now())
				c.ch("obs:" + kit.Str(m["id"])) <- kit.Str(m["code"])
			}
		}
		cmd.Wait()
		close(c.exited)
	}()
	select {
	case c.addrs = <-ready:
	case msg := <-fatal:
		return nil, fmt.Errorf("child: %s", msg)
	case <-c.exited:
		return nil, fmt.Errorf("child exited before it was ready")
	case <-time.After(2 * c02RpcBarrier):
		cmd.Process.Kill()
		return nil, fmt.Errorf("child not ready")
	}
	for name, addr := range c.addrs {
		cc, err := grpc.Dial(addr, grpc.WithTransportCredentials(insecure.NewCredentials()))
		if err != nil {
			return nil, err
		}
		c.conns[name] = cc
	}
	return c, nil
}

func (c *c02Child) alive() bool {
	select {
	case <-c.exited:
		return false
	default:
		return true
	}
}

func (c *c02Child) stop() {
	for _, cc := range c.conns {
		cc.Close()
	}
	c.stdin.Close()
	select {
	case <-c.exited:
	case <-time.After(5 * time.Second):
		c.cmd.Process.Kill()
	}
}

var c02RpcSeq atomic.Int64

type c02RpcRes struct {
	client   string        // gRPC code the client saw
	srv      string        // code returned by the time-out interceptor (observer servers), "" otherwise
	elapsed  time.Duration // call start -> client has its answer
	obsDelay time.Duration // client cancel -> the time-out interceptor returned (observer servers, cancel scenarios); -1 unknown
	enterLat time.Duration // call start -> handler entered; -1 unknown
}

// call runs one scenario against one server. bound: how long the client waits at most.
func (c *c02Child) call(server string, beh string, late bool, cause, wait string, bound time.Duration) (r c02RpcRes) {
	return c.callPV(server, beh, "", late, cause, wait, bound)
}

// callPV: pv = the kind of value a panicking handler throws
func (c *c02Child) callPV(server string, beh, pv string, late bool, cause, wait string, bound time.Duration) (r c02RpcRes) {
	id := strconv.FormatInt(c02RpcSeq.Add(1), 10)
	l := "0"
	if late {
		l = "1"
	}
	r.obsDelay, r.enterLat = -1, -1
	ctx, cancel := context.WithTimeout(context.Background(), bound)
	defer cancel()
	ctx = metadata.AppendToOutgoingContext(ctx, "x-verif-id", id, "x-verif-beh", beh, "x-verif-late", l, "x-verif-wait", wait, "x-verif-pv", pv)
	var cancelledAt atomic.Int64
	if late && cause == "cancel" {
		go func() {
			select {
			case <-c.ch("entered:" + id):
				cancelledAt.Store(time.Now().UnixNano())
				cancel() // the client goes away while the handler is inside
			case <-time.After(bound):
			case <-c.exited:
			}
		}()
	}
	t0 := time.Now()
	_, err := mock.NewDepositServiceClient(c.conns[server]).Deposit(ctx, &mock.DepositRequest{Amount: 1})
	r.elapsed = time.Since(t0)
	r.client = status.Code(err).String()
	if ctx.Err() == context.DeadlineExceeded {
		// the specification's chain cannot block past its own deadline (150 ms, or the client's cancel):
		// no answer within the bound is a hung request, reported as such
		r.client = "(no answer within " + bound.String() + ")"
	}
	if server == "obs-long" || server == "obs-short" {
		select {
		case r.srv = <-c.ch("obs:" + id):
			if ca := cancelledAt.Load(); ca != 0 {
				if t, ok := c.at.Load("obs:" + id); ok {
					r.obsDelay = t.(time.Time).Sub(time.Unix(0, ca))
				}
			}
		case <-c.exited:
			r.srv = "server-exited"
		case <-time.After(bound):
			r.srv = "(time-out interceptor did not return within " + bound.String() + ")"
			r.obsDelay = bound
		}
	}
	if t, ok := c.at.Load("entered:" + id); ok {
		r.enterLat = t.(time.Time).Sub(t0)
	}
	return r
}

// ---------------------------------------------------------------- stress: the panic clause under load

// c02Capture is an internal.Server that only records what setupInterceptors adds.
type c02Capture struct {
	unary []grpc.UnaryServerInterceptor
}

func (c *c02Capture) AddOptions(...grpc.ServerOption)                       {}
func (c *c02Capture) AddStreamInterceptors(...grpc.StreamServerInterceptor) {}
func (c *c02Capture) AddUnaryInterceptors(is ...grpc.UnaryServerInterceptor) {
	c.unary = append(c.unary, is...)
}
func (c *c02Capture) SetName(string)                  {}
func (c *c02Capture) Start(internal.RegisterFn) error { return nil }

// c02RpcStress issues many concurrent calls of one in-time scenario (the panicking handler):
//   - in-process through UnaryCrashInterceptor around the interceptors the real setupInterceptors
//     adds (the time-out interceptor), the order server.Start gives them; every call must come back
//     with a status of the allowed code - an (interface{}(nil), nil) result means the panic was
//     swallowed (over the wire grpc would turn the nil message into Internal and hide it);
//   - against the real server in the child process: every client must see the allowed code.
func c02RpcStress(c kit.Case, m kit.M, child *c02Child, rep *kit.Reporter) kit.Verdict {
	v := kit.Verdict{Case: c.Index, OK: true}
	exp := kit.List(m["exp"])
	beh := kit.Str(m["beh"])
	nLocal, nWire := kit.Num(m["n_local"]), kit.Num(m["n_wire"])
	logx.Disable()
	capt := &c02Capture{}
	conf := ServerConfig{ListenOn: "127.0.0.1:1", Timeout: c02RpcLongMs, CpuThreshold: 0}
	if err := setupInterceptors(capt, conf, stat.NewMetrics("verif-c02-stress")); err != nil {
		return kit.Verdict{Case: c.Index, Infra: true, Msg: err.Error()}
	}
	if len(capt.unary) == 0 {
		return kit.Verdict{Case: c.Index, Infra: true, Msg: "setupInterceptors added no unary interceptor"}
	}
	info := &grpc.UnaryServerInfo{FullMethod: "/mock.DepositService/Deposit"}
	var inner grpc.UnaryHandler = func(ctx context.Context, req interface{}) (interface{}, error) {
		switch beh {
		case "panic":
			panic("verif C02: scripted handler panic")
		case "err":
			return nil, status.Error(codes.InvalidArgument, "verif C02: scripted handler error")
		}
		return &mock.DepositResponse{Ok: true}, nil
	}
	for i := len(capt.unary) - 1; i >= 0; i-- {
		ic, next := capt.unary[i], inner
		inner = func(ctx context.Context, req interface{}) (interface{}, error) { return ic(ctx, req, info, next) }
	}
	one := func() (code string, swallowed bool) {
		defer func() {
			if p := recover(); p != nil {
				code = "panic-escaped-the-chain"
			}
		}()
		resp, err := serverinterceptors.UnaryCrashInterceptor(context.Background(), &mock.DepositRequest{Amount: 1}, info, inner)
		if err == nil && (resp == nil || beh == "panic") {
			return "OK", true
		}
		return status.Code(err).String(), false
	}
	var next, bad atomic.Int64
	var mu sync.Mutex
	fail := func(key, msg string) {
		bad.Add(1)
		mu.Lock()
		if v.OK {
			v.OK, v.Key, v.Msg = false, key, msg
		}
		mu.Unlock()
	}
	var wg sync.WaitGroup
	for w := 0; w < 64; w++ {
		wg.Add(1)
		go func() {
			defer wg.Done()
			for bad.Load() == 0 {
				i := next.Add(1)
				if i > int64(nLocal) {
					return
				}
				code, swallowed := one()
				switch {
				case swallowed:
					fail("C02:rpc:panic-swallowed", fmt.Sprintf("stress (in-process, crash interceptor around the interceptors of setupInterceptors): call #%d of %d concurrent %s calls returned (nil, nil) - the handler's panic was swallowed; specification allows %v", i, nLocal, beh, exp))
				case !c02In(exp, code):
					fail("C02:rpc:stress-code:"+beh, fmt.Sprintf("stress (in-process): call #%d of %d concurrent %s calls returned code %s, specification allows %v", i, nLocal, beh, code, exp))
				}
			}
		}()
	}
	wg.Wait()
	local := int(next.Load())
	if local > nLocal {
		local = nLocal
	}
	v.Steps += local
	rep.Count("stress.local."+beh, local)
	if !v.OK {
		return v
	}
	// over the wire
	next.Store(0)
	for w := 0; w < 64; w++ {
		wg.Add(1)
		go func() {
			defer wg.Done()
			for bad.Load() == 0 && child.alive() {
				i := next.Add(1)
				if i > int64(nWire) {
					return
				}
				r := child.call("pub-long", beh, false, "deadline", "none", c02RpcBarrier)
				if !c02In(exp, r.client) && child.alive() {
					fail("C02:rpc:stress-code:"+beh, fmt.Sprintf("stress (real server): call #%d of %d concurrent %s calls: client saw %s, specification allows %v", i, nWire, beh, r.client, exp))
				}
			}
		}()
	}
	wg.Wait()
	if !child.alive() {
		v.OK, v.Key, v.Msg = false, "C02:rpc:server-down:stress-"+beh, fmt.Sprintf("server process died under %d concurrent %s calls", nWire, beh)
		return v
	}
	wire := int(next.Load())
	if wire > nWire {
		wire = nWire
	}
	v.Steps += wire
	rep.Count("stress.wire."+beh, wire)
	return v
}

// ---------------------------------------------------------------- the in-process chains

// c02RpcInterceptors: what stands between UnaryCrashInterceptor and the handler in an in-process chain -
// whatever the real setupInterceptors adds for the configuration the chain names.
func c02RpcInterceptors(chain string) ([]grpc.UnaryServerInterceptor, error) {
	if ics, ok := c02RpcChainCache[chain]; ok {
		return ics, nil
	}
	ics, err := c02RpcCompose(chain)
	if err == nil {
		c02RpcChainCache[chain] = ics
	}
	return ics, err
}

var c02RpcChainCache = map[string][]grpc.UnaryServerInterceptor{}

func c02RpcCompose(chain string) ([]grpc.UnaryServerInterceptor, error) {
	conf := ServerConfig{ListenOn: "127.0.0.1:1", Timeout: c02RpcLongMs, CpuThreshold: 0}
	switch chain {
	case "crash":
		return nil, nil
	case "crash+setup":
	case "crash+setup0":
		conf.Timeout = 0
	default:
		return nil, fmt.Errorf("unknown in-process chain %q", chain)
	}
	capt := &c02Capture{}
	if err := setupInterceptors(capt, conf, stat.NewMetrics("verif-c02-"+chain)); err != nil {
		return nil, err
	}
	return capt.unary, nil
}

// c02RpcDirect serves one in-time scenario through an in-process chain and returns what the caller of
// UnaryCrashInterceptor gets: the gRPC code of err; swallowed = a panicking handler came back as success
// (or an ok/err handler as (nil, nil)); "panic-escaped-the-chain" if the panic was not recovered at all.
func c02RpcDirect(ics []grpc.UnaryServerInterceptor, beh, pv string) (code string, swallowed bool) {
	info := &grpc.UnaryServerInfo{FullMethod: "/mock.DepositService/Deposit"}
	var inner grpc.UnaryHandler = func(ctx context.Context, req interface{}) (interface{}, error) {
		switch beh {
		case "panic":
			c02RpcPanic(pv)
		case "err":
			return nil, status.Error(codes.InvalidArgument, "verif C02: scripted handler error")
		}
		return &mock.DepositResponse{Ok: true}, nil
	}
	for i := len(ics) - 1; i >= 0; i-- {
		ic, next := ics[i], inner
		inner = func(ctx context.Context, req interface{}) (interface{}, error) { return ic(ctx, req, info, next) }
	}
	defer func() {
		if p := recover(); p != nil {
			code, swallowed = "panic-escaped-the-chain", false
		}
	}()
	resp, err := serverinterceptors.UnaryCrashInterceptor(context.Background(), &mock.DepositRequest{Amount: 1}, info, inner)
	if err == nil && (resp == nil || beh != "ok") {
		return "OK", true
	}
	return status.Code(err).String(), false
}

func c02In(set []any, s string) bool {
	for _, e := range set {
		if kit.Str(e) == s {
			return true
		}
	}
	return false
}

func TestVerifC02Rpc(t *testing.T) {
	if os.Getenv("VERIF_C02_RPC_CHILD") == "1" {
		t.Skip("parent mode only")
	}
	cases, err := kit.LoadCases(os.Getenv("VERIF_CASES"))
	if err != nil {
		t.Fatal(err)
	}
	rep, err := kit.NewReporter(os.Getenv("VERIF_OUT"))
	if err != nil {
		t.Fatal(err)
	}
	defer rep.Close()
	shard, shards := kit.EnvInt("VERIF_SHARD", 0), kit.EnvInt("VERIF_SHARDS", 1)
	repeat := kit.EnvInt("VERIF_C02_REPEAT", 3)
	logx.Disable()
	child, err := c02Spawn()
	if err != nil {
		rep.Put(kit.Verdict{Case: -1, Infra: true, Msg: err.Error()})
		return
	}
	defer func() { child.stop() }()

	for _, c := range cases {
		if c.Index%shards != shard {
			continue
		}
		m := c.Steps[0]
		if kit.Str(m["mode"]) == "rpc-stress" {
			rep.Put(c02RpcStress(c, m, child, rep))
			if !child.alive() {
				child.stop()
				if child, err = c02Spawn(); err != nil {
					rep.Put(kit.Verdict{Case: -1, Infra: true, Msg: "respawn: " + err.Error()})
					return
				}
			}
			continue
		}
		beh, late, cause, wait := kit.Str(m["beh"]), kit.Bool(m["late"]), kit.Str(m["cause"]), kit.Str(m["wait"])
		pv, chain := kit.Str(m["pv"]), kit.Str(m["chain"])
		if pv == "none" {
			pv = ""
		}
		if chain == "" {
			chain = "server"
		}
		exp := kit.List(m["exp"])
		atDeadline := kit.Str(m["at"]) == "deadline" // the answer must arrive at the deadline/cancel, not at the handler's end
		v := kit.Verdict{Case: c.Index, OK: true}
		scen := beh
		if late {
			scen += "-late-" + cause
			if wait != "ctx" {
				scen += "-" + wait
			}
		}
		what := scen
		if pv != "" {
			what += " (panic value: " + pv + ")"
		}
		count := func() {
			rep.Count("chain."+chain+"."+beh, 1)
			if pv != "" {
				rep.Count("pv."+pv, 1)
			}
		}
		if chain != "server" && chain != "server0" {
			// in-process chain: the crash interceptor called directly
			if late {
				rep.Put(kit.Verdict{Case: c.Index, Infra: true, Msg: "late scenario on an in-process chain: " + chain})
				continue
			}
			ics, err := c02RpcInterceptors(chain)
			if err != nil {
				rep.Put(kit.Verdict{Case: c.Index, Infra: true, Msg: err.Error()})
				continue
			}
			for rnd := 0; rnd < repeat && v.OK; rnd++ {
				code, swallowed := c02RpcDirect(ics, beh, pv)
				v.Steps++
				switch {
				case code == "panic-escaped-the-chain":
					v.OK, v.Key = false, "C02:rpc:panic-escaped:"+chain
					v.Msg = fmt.Sprintf("scenario %s, in-process chain %s (%d interceptors inside UnaryCrashInterceptor): the handler's panic came out of UnaryCrashInterceptor; specification allows %v", what, chain, len(ics), exp)
				case swallowed && beh == "panic":
					v.OK, v.Key = false, "C02:rpc:panic-swallowed"
					v.Msg = fmt.Sprintf("scenario %s, in-process chain %s: UnaryCrashInterceptor returned a nil error - the handler's panic was turned into success; specification allows %v", what, chain, exp)
				case swallowed:
					v.OK, v.Key = false, "C02:rpc:direct-code:"+scen+":"+chain
					v.Msg = fmt.Sprintf("scenario %s, in-process chain %s: UnaryCrashInterceptor returned (nil, nil); specification: the handler's own result", what, chain)
				case !c02In(exp, code):
					v.OK, v.Key = false, "C02:rpc:direct-code:"+scen+":"+chain
					v.Msg = fmt.Sprintf("scenario %s, in-process chain %s (%d interceptors inside UnaryCrashInterceptor): the caller got gRPC code %s, specification allows %v", what, chain, len(ics), code, exp)
				}
			}
			if v.OK {
				count()
			}
			rep.Put(v)
			continue
		}
		servers, ksuffix := []string{"pub-long", "obs-long"}, ""
		if late && cause == "deadline" {
			servers = []string{"pub-short", "obs-short"}
		}
		kindMs := map[string]int{"pub-long": c02RpcLongMs, "obs-long": c02RpcLongMs, "pub-short": c02RpcShortMs, "obs-short": c02RpcShortMs, "pub-none": 0}
		if chain == "server0" {
			servers, ksuffix = []string{"pub-none"}, ":no-timeout"
			if late {
				rep.Put(kit.Verdict{Case: c.Index, Infra: true, Msg: "late scenario on a server without time-out"})
				continue
			}
		}
		rounds, bound := repeat, c02RpcBarrier
		if wait == "sleep" || wait == "never" {
			bound = 5 * time.Second // such a handler is not waited for; "late" is decided at 1 s
			if rounds > 3 {
				rounds = 3
			}
		}
		if late && pv != "" && pv != "string" {
			// every other panic value is itself a repetition of the late panic scenario
			if rounds = repeat / 3; rounds > 3 {
				rounds = 3
			}
		}
	loop:
		for rnd := 0; rnd < rounds; rnd++ {
			for _, server := range servers {
				var r c02RpcRes
				lateN, stalled := 0, 0
				const attempts = 3
				for a := 0; a < attempts; a++ {
					r = child.callPV(server, beh, pv, late, cause, wait, bound)
					v.Steps++
					if !child.alive() || !atDeadline {
						break
					}
					// timing: the client's answer (deadline) / the interceptor's return (cancel, observer) is prompt
					tooLate := (cause == "deadline" && r.elapsed >= c02RpcPrompt) || (cause == "cancel" && r.obsDelay >= c02RpcPrompt)
					if !tooLate {
						lateN = 0
						break
					}
					lateN++
					if r.enterLat < 0 || r.enterLat > c02RpcStall {
						stalled++
					}
				}
				if !child.alive() {
					v.OK, v.Key = false, "C02:rpc:server-down:"+scen
					v.Msg = fmt.Sprintf("server process died while serving scenario %s on %s (client saw %s); specification: the server survives and answers %v", what, server, r.client, exp)
					break loop
				}
				if lateN == attempts {
					if stalled == attempts {
						v = kit.Verdict{Case: c.Index, Infra: true, Msg: fmt.Sprintf("%s %s: machine too slow for a conclusive timing run (handler entry took %v)", server, scen, r.enterLat)}
						break loop
					}
					v.OK, v.Key = false, "C02:rpc:late-deadline:"+scen
					how := fmt.Sprintf("the client had its answer (%s) only after %v", r.client, r.elapsed.Round(time.Millisecond))
					if cause == "cancel" {
						how = fmt.Sprintf("the time-out interceptor returned (%s) only %v after the client's cancel", r.srv, r.obsDelay.Round(time.Millisecond))
					}
					v.Msg = fmt.Sprintf("scenario %s on %s (time-out %d ms, handler ends %v after entry or never): %s in each of %d attempts; specification answers at the %s, i.e. within %v",
						what, server, kindMs[server], c02RpcSleep, how, attempts, cause, c02RpcPrompt)
					break loop
				}
				if !c02In(exp, r.client) {
					v.OK, v.Key = false, "C02:rpc:client-code:"+scen+ksuffix
					v.Msg = fmt.Sprintf("scenario %s on %s (ServerConfig.Timeout = %d ms): client saw gRPC code %s, specification allows %v", what, server, kindMs[server], r.client, exp)
					break loop
				}
				// server side: only where the chain's own answer is the time-out interceptor's (late scenarios)
				if r.srv != "" && late && !c02In(exp, r.srv) {
					v.OK, v.Key = false, "C02:rpc:server-code:"+scen
					v.Msg = fmt.Sprintf("scenario %s on %s: the time-out interceptor returned %s, specification allows %v", what, server, r.srv, exp)
					break loop
				}
				rep.Count(server+"."+scen, 1)
			}
		}
		if v.OK {
			count()
		}
		rep.Put(v)
		if !child.alive() {
			child.stop()
			if child, err = c02Spawn(); err != nil {
				rep.Put(kit.Verdict{Case: -1, Infra: true, Msg: "respawn: " + err.Error()})
				return
			}
		}
	}
	// nobody took the servers down: a plain call still succeeds on each of them
	for _, server := range []string{"pub-long", "pub-short", "obs-long", "obs-short", "pub-none"} {
		r := child.call(server, "ok", false, "deadline", "none", c02RpcBarrier)
		if r.client != "OK" {
			if !child.alive() || r.client == "Unavailable" {
				rep.Put(kit.Verdict{Case: len(cases), Key: "C02:rpc:server-down:final", Msg: fmt.Sprintf("%s no longer serves after the scenarios: %s", server, r.client)})
			} else {
				rep.Put(kit.Verdict{Case: len(cases), Infra: true, Msg: fmt.Sprintf("final call on %s: %s", server, r.client)})
			}
			return
		}
	}
}
