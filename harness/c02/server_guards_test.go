package api

// Replay driver for property C02, REST part (overlaid into /repo/api by /verif/bin/check).
//
// It serves TLC-generated scenarios of spec/ServerGuardsGen.tla through the chain that the
// engine itself composes (api.NewServer + AddRoutes + engine.bindRoutes / Server.Start) on
// three transports:
//
//	rec   httptest.ResponseRecorder fed to the bound router
//	http  httptest.Server around the same bound router (real net/http server, no server time-outs)
//	api   Server.Start() on a free loopback port (includes engine.withTimeout's http.Server settings)
//
// Scenarios whose configuration has no time-out guard are served by a second engine built with
// Config.Timeout = 0 on routes without a time-out option (rec + http).  Scenarios for which the
// specification names an isolated guard (field "sub") are, in addition, served through that guard
// alone - transport "recover": handler.RecoverHandler directly around the scripted handler, on a recorder.
//
// and compares what the client sees (status, handler headers, handler chunks) with the set of
// responses the specification allows.  Every expected value comes from the case file.
//
// Header steps carry values (Set / Add / a raw non-canonical map entry): the client-visible header MULTIMAP of
// a handler response (every value of every handler header, in order, names compared case-insensitively) is
// compared with the values the specification gives (field "hv").
//
// Route time-out VALUES (cfg.routeUs / cfg.cfgMs / cfg.effUs of a scenario): the scenario is served on a route
// registered with api.WithTimeout(routeUs microseconds) (none for 0) of the engine whose Config.Timeout is
// cfgMs.  A handler that misses such a deadline waits for ctx.Done like every other one - or, failing that,
// for a release the driver gives 3 s + 2 x the time-out after the request was sent (a handler that outlives
// its route time-out by three orders of magnitude and then ends): its late output must not reach the client.
// A disagreement seen after such a release must reproduce 3 times.  The deadline the handler finds in its
// context must not lie before (request sent + route time-out).
//
// Handlers are gated, never raced against a timer: the "pre" part of a script runs at once;
// if the script has a "post" part the handler then blocks on <-r.Context().Done() and runs
// the rest.  "Finishes in time" scenarios run under a time-out that is never reached (10 min;
// on the api transport: 2 s for a handler that does not wait at all), "misses the deadline"
// scenarios under one that is always reached because the handler waits for it.

import (
	"bytes"
	"context"
	"fmt"
	"io"
	"math/rand"
	"net"
	"net/http"
	"net/http/httptest"
	"net/textproto"
	"os"
	"sort"
	"strconv"
	"strings"
	"sync"
	"sync/atomic"
	"testing"
	"time"

	"github.com/gotid/god/api/handler"
	kit "github.com/gotid/god/internal/verifkit"
	"github.com/gotid/god/lib/logx"
	"github.com/gotid/god/lib/mathx"
)

const (
	c02Long    = 10 * time.Minute       // never reached
	c02Short   = 100 * time.Millisecond // always reached: the handler waits for it
	c02Tiny    = 20 * time.Millisecond  // boundary mode: either side is accepted
	c02ApiMs   = 2000                   // Config.Timeout of the started server (ms)
	c02Barrier = 30 * time.Second       // harness barrier: exceeding it is an infrastructure error
	c02Hang    = 20 * time.Second       // a request without any response for this long is a hung client (a violation:
	//                                      the specification's chain always answers - EventuallyAnswered / Returns)
	c02BigChunk = 70000
)

type c02Step struct {
	op string
	h  string
	c  int
	k  string
}

// c02Scenario is one request as the handler sees it.
type c02Scenario struct {
	id        string
	env       *c02Env
	steps     []c02Step
	term      string
	npre      int           // script elements (terminal = len+1) that run before the handler waits for ctx.Done
	gate      chan struct{} // conns mode: the handler first waits for this
	delay     time.Duration // real-time probe: sleep before the script
	stepSleep time.Duration // boundary mode: random sleeps between steps up to this
	rng       *rand.Rand
	entered   chan struct{}
	preDone   chan struct{}
	finished  chan struct{}
	ran       atomic.Int32
	tookNs    atomic.Int64
	ctxDoneNs atomic.Int64  // when the gated handler saw ctx.Done, since its start
	release   chan struct{} // route time-out values: closed by the driver long after the route time-out
	overran   atomic.Bool   // the handler was ended by `release`, not by ctx.Done
	dl        atomic.Value  // time.Time: the deadline the handler found in its context (if any)
	answered  chan struct{} // closed by do() once the chain's answer is known to the client
	ansOnce   sync.Once
}

type c02Env struct {
	name    string
	bound   *Server // routes bound, not listening (rec + http transports)
	hs      *httptest.Server
	apiURL  string
	cur     atomic.Int32
	max     atomic.Int32
	mu      sync.Mutex
	timeout int64 // Config.Timeout in ms
}

type c02Drv struct {
	reg    sync.Map // id -> *c02Scenario
	seq    atomic.Int64
	client *http.Client
	rep    *kit.Reporter
	mbs    []int64
	rts    []int // route time-out values (microseconds) named by the scenarios
	main   *c02Env
	nt     *c02Env      // engine built with Config.Timeout = 0: the chain without time-out guard
	alone  http.Handler // handler.RecoverHandler around the scripted handler, nothing else
	conns  map[string]*c02Env
	cmu    sync.Mutex
	slowMu sync.Mutex // serializes repeated real-time attempts after a stalled machine spoilt the concurrent ones
	useAPI bool
}

type c02Obs struct {
	err     string // transport error / escaped panic ("" = a complete response was received)
	status  int
	hdrs    []string
	body    []string
	hv      map[string][]string // handler header name -> all its values, in order
	foreign bool                // the body holds bytes that are not handler chunks
	elapsed time.Duration
	t0      time.Time // taken before the request was built
}

func (o c02Obs) String() string {
	if o.err != "" {
		return fmt.Sprintf("{no response: %s after %v}", o.err, o.elapsed.Round(time.Millisecond))
	}
	return fmt.Sprintf("{status %d handler-headers %v values %v handler-chunks %v other-bytes %v}", o.status, o.hdrs, o.hv, o.body, o.foreign)
}

func c02Chunk(k string) string {
	if k == "big" {
		return "<big:" + strings.Repeat("x", c02BigChunk) + ">"
	}
	return "<" + k + ">"
}

// c02Tokens splits a body into the handler chunks it contains; anything else is "foreign".
func c02Tokens(body string, ids []string) (toks []string, foreign bool) {
	lits := make([]string, len(ids))
	for i, k := range ids {
		lits[i] = c02Chunk(k)
	}
	for i := 0; i < len(body); {
		hit := false
		if body[i] == '<' {
			for j, l := range lits {
				if strings.HasPrefix(body[i:], l) {
					toks = append(toks, ids[j])
					i += len(l)
					hit = true
					break
				}
			}
		}
		if !hit {
			foreign = true
			i++
		}
	}
	return
}

var c02ChunkIDs = []string{"a", "b", "c", "big"}

func c02Project(status int, h http.Header, body []byte) c02Obs {
	o := c02Obs{status: status, hv: map[string][]string{}}
	// header names are case-insensitive: a recorder keeps the spelling the chain used, a client canonicalises
	var keys []string
	for k := range h {
		keys = append(keys, k)
	}
	sort.Strings(keys)
	for _, k := range keys {
		if ck := textproto.CanonicalMIMEHeaderKey(k); strings.HasPrefix(ck, "X-Verif-H-") {
			name := strings.ToLower(strings.TrimPrefix(ck, "X-Verif-H-"))
			o.hv[name] = append(o.hv[name], h[k]...)
		}
	}
	for name := range o.hv {
		o.hdrs = append(o.hdrs, name)
	}
	sort.Strings(o.hdrs)
	o.body, o.foreign = c02Tokens(string(body), c02ChunkIDs)
	return o
}

// ---------------------------------------------------------------- the handler under the chain

func (d *c02Drv) handle(w http.ResponseWriter, r *http.Request) {
	v, ok := d.reg.Load(r.Header.Get("X-Verif-Id"))
	if !ok {
		w.WriteHeader(598)
		return
	}
	sc := v.(*c02Scenario)
	sc.ran.Add(1)
	n := sc.env.cur.Add(1)
	for {
		m := sc.env.max.Load()
		if n <= m || sc.env.max.CompareAndSwap(m, n) {
			break
		}
	}
	start := time.Now()
	if dl, ok := r.Context().Deadline(); ok {
		sc.dl.Store(dl)
	}
	close(sc.entered)
	defer func() {
		sc.tookNs.Store(int64(time.Since(start)))
		sc.env.cur.Add(-1)
		close(sc.finished)
	}()
	if sc.gate != nil {
		<-sc.gate
	}
	if sc.delay > 0 {
		time.Sleep(sc.delay)
	}
	run := func(i int) {
		if sc.stepSleep > 0 {
			time.Sleep(time.Duration(sc.rng.Int63n(int64(sc.stepSleep))))
		}
		if i == len(sc.steps) {
			switch {
			case sc.term == "panic":
				panic("verif C02: scripted handler panic")
			case strings.HasPrefix(sc.term, "panic_"):
				c02PanicWith(strings.TrimPrefix(sc.term, "panic_"))
			case strings.HasPrefix(sc.term, "bad"):
				// WriteHeader with a status code outside 100..599: panics inside WriteHeader
				code, _ := strconv.Atoi(strings.TrimPrefix(sc.term, "bad"))
				w.WriteHeader(code)
			}
			return
		}
		st := sc.steps[i]
		switch st.op {
		case "hdr":
			w.Header().Set("X-Verif-H-"+st.h, "v")
		case "hset":
			w.Header().Set("X-Verif-H-"+st.h, st.k)
		case "hadd":
			w.Header().Add("X-Verif-H-"+st.h, st.k)
		case "hraw":
			w.Header()["x-verif-h-"+st.h] = []string{st.k, "z"}
		case "status":
			w.WriteHeader(st.c)
		case "write":
			io.WriteString(w, c02Chunk(st.k))
		}
	}
	for i := 0; i < sc.npre; i++ {
		run(i)
	}
	if sc.npre <= len(sc.steps) {
		close(sc.preDone)
		if sc.release == nil {
			<-r.Context().Done()
		} else {
			select {
			case <-r.Context().Done():
			default:
				select {
				case <-r.Context().Done():
				case <-sc.release:
					sc.overran.Store(true)
				}
			}
		}
		sc.ctxDoneNs.Store(int64(time.Since(start)))
		if r.Context().Err() != nil {
			// "after the deadline" is meant, not "at the same instant as the deadline": the chain decides
			// between a finished handler and an ended context with a select, and on a stalled machine a
			// handler that ends right after the context did can still be seen first.  Both outcomes are
			// allowed at that coincidence (DESIGN 5, C02), so the post steps wait until the client has its
			// answer (bounded, in case a chain answers only once the handler has ended).
			select {
			case <-sc.answered:
			case <-time.After(2 * time.Second):
			}
		}
		for i := sc.npre; i <= len(sc.steps); i++ {
			run(i)
		}
	}
}

type c02Custom struct{ n int }

type c02ErrType struct{ n int }

func (e c02ErrType) Error() string { return "verif C02: scripted handler panic (custom error type)" }

// c02PanicWith panics with the kind of value the script names; no prediction depends on it.
func c02PanicWith(kind string) {
	switch kind {
	case "error":
		panic(fmt.Errorf("verif C02: scripted handler panic (error value)"))
	case "nilmap":
		var m map[string]int
		m["x"] = 1 // runtime error: assignment to entry in nil map
	case "index":
		var s []int
		i := len(s) + 3
		_ = s[i] // runtime error: index out of range
	case "nilptr":
		var p *c02Custom
		p.n++ // runtime error: invalid memory address or nil pointer dereference
	case "abort":
		panic(http.ErrAbortHandler)
	case "wrapped":
		panic(fmt.Errorf("verif C02: scripted handler panic: %w", http.ErrAbortHandler))
	case "custom":
		panic(c02Custom{n: 2})
	case "errtype":
		panic(c02ErrType{n: 2})
	}
	panic("verif C02: unknown panic kind " + kind)
}

// ---------------------------------------------------------------- servers

func c02FreePort() (int, error) {
	l, err := net.Listen("tcp", "127.0.0.1:0")
	if err != nil {
		return 0, err
	}
	p := l.Addr().(*net.TCPAddr).Port
	l.Close()
	return p, nil
}

func c02RtClass(us int) string {
	if us <= 0 {
		return "cfg"
	}
	return "rt" + strconv.Itoa(us) + "us"
}

func c02Path(class string, mb int64) string {
	return "/" + class + "/" + strconv.FormatInt(mb, 10) + "/s"
}

// addRoutes registers the scripted handler once per (time-out class, MaxBytes) through the public
// route options; class "cfg" and the first MaxBytes value use the Config-level settings.
func (d *c02Drv) addRoutes(s *Server, mbs []int64) {
	classes := map[string]time.Duration{"long": c02Long, "short": c02Short, "tiny": c02Tiny, "cfg": 0}
	for _, us := range d.rts { // route time-out values named by the scenarios (microseconds)
		classes[c02RtClass(us)] = time.Duration(us) * time.Microsecond
	}
	for class, to := range classes {
		for i, mb := range mbs {
			var opts []RouteOption
			if to > 0 {
				opts = append(opts, WithTimeout(to))
			}
			if !(class == "cfg" && i == 0) {
				opts = append(opts, WithMaxBytes(mb))
			}
			s.AddRoutes([]Route{{Method: http.MethodPost, Path: c02Path(class, mb), Handler: d.handle}}, opts...)
		}
	}
}

func (d *c02Drv) newEnv(name string, timeoutMs int64, maxConns int, mbs []int64, withAPI bool) (*c02Env, error) {
	env := &c02Env{name: name, timeout: timeoutMs}
	conf := Config{Host: "127.0.0.1", Port: 1, Timeout: timeoutMs, MaxConns: maxConns, MaxBytes: mbs[0]}
	s, err := NewServer(conf)
	if err != nil {
		return nil, err
	}
	logx.Disable()
	d.addRoutes(s, mbs)
	// the chain exactly as engine.bindRoute composes it, without listening
	if err := s.ng.bindRoutes(s.router); err != nil {
		return nil, err
	}
	env.bound = s
	env.hs = httptest.NewServer(s.router)
	if !withAPI {
		return env, nil
	}
	var lastErr error
	for attempt := 0; attempt < 6; attempt++ {
		port, err := c02FreePort()
		if err != nil {
			return nil, err
		}
		conf.Port = port
		as, err := NewServer(conf)
		if err != nil {
			return nil, err
		}
		d.addRoutes(as, mbs)
		errCh := make(chan error, 1)
		go func() {
			defer func() {
				if p := recover(); p != nil {
					errCh <- fmt.Errorf("Start: %v", p)
				}
			}()
			as.Start() // blocks: http.Server.ListenAndServe with engine.withTimeout applied
			errCh <- fmt.Errorf("Start returned")
		}()
		addr := fmt.Sprintf("127.0.0.1:%d", port)
		up := false
		deadline := time.Now().Add(c02Barrier)
		for time.Now().Before(deadline) && !up {
			select {
			case lastErr = <-errCh:
				deadline = time.Now()
			default:
				if c, err := net.DialTimeout("tcp", addr, time.Second); err == nil {
					c.Close()
					up = true
				} else {
					time.Sleep(5 * time.Millisecond)
				}
			}
		}
		if up {
			env.apiURL = "http://" + addr
			return env, nil
		}
	}
	return nil, fmt.Errorf("could not start api.Server on loopback: %v", lastErr)
}

func (d *c02Drv) connsEnv(n int, mb int64) (*c02Env, error) {
	d.cmu.Lock()
	defer d.cmu.Unlock()
	key := fmt.Sprintf("conns-%d-%d", n, mb)
	if e, ok := d.conns[key]; ok {
		return e, nil
	}
	e, err := d.newEnv(key, int64(c02Long/time.Millisecond), n, []int64{mb}, d.useAPI)
	if err != nil {
		return nil, err
	}
	d.conns[key] = e
	return e, nil
}

// ---------------------------------------------------------------- one request on one transport

func (d *c02Drv) newScenario(env *c02Env) *c02Scenario {
	sc := &c02Scenario{id: strconv.FormatInt(d.seq.Add(1), 10), env: env, term: "finish", npre: 1,
		entered: make(chan struct{}), preDone: make(chan struct{}), finished: make(chan struct{}), answered: make(chan struct{})}
	d.reg.Store(sc.id, sc)
	return sc
}

// c02Dump returns the stacks of the goroutines stuck inside the chain (for a hung request).
func c02Dump() string {
	var keep []string
	for _, g := range strings.Split(kit.Stacks(), "\n\n") {
		if strings.Contains(g, "api/handler.") && !strings.Contains(g, "c02Dump") {
			keep = append(keep, g)
			if len(keep) == 4 {
				break
			}
		}
	}
	return "\n--- goroutines inside the chain ---\n" + strings.Join(keep, "\n\n")
}

// settle waits until the handler of an answered request has ended. If the specification says the
// handler runs, a handler goroutine that was not scheduled before the answer is waited for.
func (sc *c02Scenario) settle(wantRuns bool) string {
	if wantRuns && sc.ran.Load() == 0 {
		select {
		case <-sc.entered:
		case <-time.After(5 * time.Second):
			return "" // never invoked: reported by the caller as handler-ran
		}
	}
	if sc.ran.Load() > 0 {
		select {
		case <-sc.finished:
		case <-time.After(c02Barrier):
			return "INFRA handler did not end"
		}
	}
	return ""
}

// do sends the request of sc and returns what the client saw. cancelAfterPre: the client goes away
// once the handler has run its pre steps (recorder transport only).
func (d *c02Drv) do(transport string, env *c02Env, path string, sc *c02Scenario, cl int, cancelAfterPre, wantRuns bool) (o c02Obs) {
	body := bytes.Repeat([]byte("b"), cl)
	t0 := time.Now()
	defer func() { o.elapsed, o.t0 = time.Since(t0), t0 }()
	switch transport {
	case "rec", "recover":
		var chain http.Handler = env.bound.router
		if transport == "recover" {
			chain = d.alone
		}
		ctx, cancel := context.WithCancel(context.Background())
		defer cancel()
		req := httptest.NewRequest(http.MethodPost, path, bytes.NewReader(body)).WithContext(ctx)
		req.Header.Set("X-Verif-Id", sc.id)
		rec := httptest.NewRecorder()
		if cancelAfterPre {
			go func() {
				select {
				case <-sc.preDone:
					cancel()
				case <-time.After(c02Barrier):
				}
			}()
		}
		served := make(chan any, 1)
		go func() {
			defer func() { served <- recover() }()
			chain.ServeHTTP(rec, req)
		}()
		hang := time.NewTimer(c02Hang)
		select {
		case escaped := <-served:
			hang.Stop()
			sc.ansOnce.Do(func() { close(sc.answered) })
			if escaped != nil {
				return c02Obs{err: fmt.Sprintf("ESCAPED a panic escaped ServeHTTP of %s: %v", map[bool]string{false: "the whole chain", true: "handler.RecoverHandler"}[transport == "recover"], escaped)}
			}
		case <-hang.C:
			sc.ansOnce.Do(func() { close(sc.answered) })
			return c02Obs{err: "HUNG no response within " + c02Hang.String() + c02Dump()}
		}
		// the handler goroutine may still be running its post steps (or, on a stalled machine, may not
		// even have been scheduled yet): let it end before looking
		if msg := sc.settle(wantRuns); msg != "" {
			return c02Obs{err: msg}
		}
		res := rec.Result()
		b, _ := io.ReadAll(res.Body)
		return c02Project(res.StatusCode, res.Header, b)
	default:
		base := env.hs.URL
		if transport == "api" {
			base = env.apiURL
		}
		req, err := http.NewRequest(http.MethodPost, base+path, bytes.NewReader(body))
		if err != nil {
			return c02Obs{err: "INFRA " + err.Error()}
		}
		req.Header.Set("X-Verif-Id", sc.id)
		res, err := d.client.Do(req)
		sc.ansOnce.Do(func() { close(sc.answered) })
		if err != nil {
			if time.Since(t0) >= c02Hang {
				return c02Obs{err: "HUNG no response within " + c02Hang.String() + " (" + err.Error() + ")" + c02Dump()}
			}
			return c02Obs{err: err.Error()}
		}
		b, err := io.ReadAll(res.Body)
		res.Body.Close()
		if err != nil {
			return c02Obs{err: "reading body: " + err.Error()}
		}
		if msg := sc.settle(wantRuns); msg != "" {
			return c02Obs{err: msg}
		}
		return c02Project(res.StatusCode, res.Header, b)
	}
}

// ---------------------------------------------------------------- comparison

func c02StrList(v any) []string {
	var out []string
	for _, e := range kit.List(v) {
		out = append(out, kit.Str(e))
	}
	sort.Strings(out)
	return out
}

func c02SeqList(v any) []string {
	var out []string
	for _, e := range kit.List(v) {
		out = append(out, kit.Str(e))
	}
	return out
}

func c02Eq(a, b []string) bool {
	if len(a) != len(b) {
		return false
	}
	for i := range a {
		if a[i] != b[i] {
			return false
		}
	}
	return true
}

// c02Match decides whether the observation is one of the allowed responses; why names the first
// thing that is off (used in the stable key).
func c02Match(exp kit.M, o c02Obs) (ok bool, why string) {
	ok, why, _ = c02MatchEl(exp, o)
	return
}

// c02HdrValues compares the values of the handler headers of a HANDLER response (el.srv = false) with the
// specification's: per name the list as it stood at the first commit or at the end of the handler.
func c02HdrValues(m kit.M, el map[string]any, o c02Obs) (ok bool, multi bool, msg string) {
	hv, has := m["hv"].(map[string]any)
	if !has || el == nil || kit.Bool(el["srv"]) {
		return true, false, ""
	}
	lo, _ := hv["lo"].(map[string]any)
	hi, _ := hv["hi"].(map[string]any)
	for _, name := range o.hdrs {
		got := o.hv[name]
		wantHi, wantLo := c02SeqList(hi[name]), c02SeqList(lo[name])
		if !(c02Eq(got, wantHi) || (len(wantLo) > 0 && c02Eq(got, wantLo))) {
			return false, false, fmt.Sprintf("header %q reached the client with values %q, the handler gave it %q (at its first commit: %q)", name, got, wantHi, wantLo)
		}
		if len(got) > 1 {
			multi = true
		}
	}
	return true, multi, ""
}

// c02MatchEl: as c02Match; el is the member of the allowed set that was matched (nil for "any").
func c02MatchEl(exp kit.M, o c02Obs) (ok bool, why string, el map[string]any) {
	if strings.HasPrefix(o.err, "HUNG") {
		return false, "hung", nil
	}
	if strings.HasPrefix(o.err, "ESCAPED") {
		return false, "panic-escaped", nil
	}
	if o.err != "" {
		return false, "no-response", nil
	}
	if kit.Bool(exp["any"]) {
		return true, "", nil
	}
	statusOK, wantsBody, wantsHdrs := false, false, false
	for _, e := range kit.List(exp["set"]) {
		m := e.(map[string]any)
		if len(kit.List(m["body"])) > 0 {
			wantsBody = true
		}
		if len(kit.List(m["hdrs"])) > 0 {
			wantsHdrs = true
		}
		if kit.Num(m["status"]) != o.status {
			continue
		}
		statusOK = true
		if c02Eq(c02StrList(m["hdrs"]), o.hdrs) && c02Eq(c02SeqList(m["body"]), o.body) && (!o.foreign || kit.Bool(m["srv"])) {
			return true, "", m
		}
	}
	switch {
	case len(o.body) > 0 && !wantsBody:
		return false, "handler-bytes-leaked", nil
	case len(o.hdrs) > 0 && !wantsHdrs:
		return false, "handler-headers-leaked", nil
	case !statusOK:
		return false, "status", nil
	default:
		return false, "headers-or-body", nil
	}
}

func c02Want(exp kit.M) string {
	if kit.Bool(exp["any"]) {
		return "any complete response"
	}
	return "one of " + kit.Canon(exp["set"])
}

// ---------------------------------------------------------------- script / boundary cases

func c02Steps(v any) []c02Step {
	var out []c02Step
	for _, e := range kit.List(v) {
		m := e.(map[string]any)
		out = append(out, c02Step{op: kit.Str(m["op"]), h: kit.Str(m["h"]), c: kit.Num(m["c"]), k: kit.Str(m["k"])})
	}
	return out
}

func c02Class(m kit.M) string {
	n := len(kit.List(m["steps"]))
	exp := m["exp"].(map[string]any)
	set := kit.List(exp["set"])
	if len(set) > 0 && !kit.Bool(m["runs"]) {
		return "rejected"
	}
	switch {
	case kit.Str(m["mode"]) == "boundary":
		return "boundary"
	case kit.Num(m["npre"]) == n+1 && kit.Str(m["term"]) != "finish":
		return "panic"
	case kit.Num(m["npre"]) == n+1:
		return "intime"
	case kit.Str(m["cause"]) == "cancel":
		return "cancel"
	default:
		return "deadline"
	}
}

func c02HasTimeout(m kit.M) bool {
	cfg, _ := m["cfg"].(map[string]any)
	t, ok := cfg["timeout"]
	return !ok || kit.Bool(t)
}

// c02Rt: the route time-out dimension of a scenario (cfg.routeUs, cfg.cfgMs, cfg.effUs), if it has one.
func c02Rt(m kit.M) (has bool, routeUs, cfgMs, effUs int) {
	cfg, _ := m["cfg"].(map[string]any)
	if _, has = cfg["routeUs"]; !has {
		return
	}
	return true, kit.Num(cfg["routeUs"]), kit.Num(cfg["cfgMs"]), kit.Num(cfg["effUs"])
}

// c02OnNT: the scenario is served by the engine built with Config.Timeout = 0.
func c02OnNT(m kit.M) bool {
	if has, _, cfgMs, _ := c02Rt(m); has {
		return cfgMs == 0
	}
	return !c02HasTimeout(m)
}

func (d *c02Drv) transportsOf(m kit.M) []string {
	base := []string{"rec", "http", "api"}
	if l := kit.List(m["transports"]); l != nil {
		base = base[:0]
		for _, t := range l {
			base = append(base, kit.Str(t))
		}
	}
	var out []string
	for _, t := range base {
		// the started server exists for the engine with a time-out only
		if t == "api" && (!d.useAPI || !c02HasTimeout(m)) {
			continue
		}
		out = append(out, t)
	}
	// guards in isolation, as the specification names them for this scenario
	if kit.Str(m["mode"]) == "script" && kit.Num(m["delay_ms"]) == 0 {
		for _, t := range kit.List(m["sub"]) {
			out = append(out, kit.Str(t))
		}
	}
	return out
}

// runScript serves one scenario on every transport.
func (d *c02Drv) runScript(c kit.Case, m kit.M) kit.Verdict {
	v := kit.Verdict{Case: c.Index, OK: true}
	steps := c02Steps(m["steps"])
	n := len(steps)
	npre := kit.Num(m["npre"])
	class := c02Class(m)
	exp := m["exp"].(map[string]any)
	cfg := m["cfg"].(map[string]any)
	mb := int64(kit.Num(cfg["maxBytes"]))
	cl := kit.Num(m["cl"])
	delay := time.Duration(kit.Num(m["delay_ms"])) * time.Millisecond
	cancel := class == "cancel"
	env, cprefix := d.main, ""
	if c02OnNT(m) {
		env, cprefix = d.nt, "nt-"
	}
	isRt, routeUs, cfgMs, effUs := c02Rt(m)
	if isRt {
		cprefix = "rt-"
		if cfgMs != 0 && cfgMs != c02ApiMs {
			return kit.Verdict{Case: c.Index, Infra: true, Msg: fmt.Sprintf("no engine with Config.Timeout = %d ms", cfgMs)}
		}
		if want := routeUs; want <= 0 && effUs != cfgMs*1000 {
			return kit.Verdict{Case: c.Index, Infra: true, Msg: "scenario without route time-out whose effective time-out is not the configuration's"}
		}
	}
	eff := time.Duration(effUs) * time.Microsecond
	for _, tr := range d.transportsOf(m) {
		if cancel && tr != "rec" {
			d.rep.Count("skipped_cancel_on_"+tr, 1)
			continue
		}
		if delay > 0 && tr != "api" {
			continue
		}
		var o c02Obs
		var ok bool
		var why string
		var sc *c02Scenario
		var el map[string]any
		hvMsg, hvMulti := "", false
		run := func(a int) {
			sc = d.newScenario(env)
			sc.steps, sc.term, sc.npre = steps, kit.Str(m["term"]), npre
			tclass := "long"
			switch {
			case isRt && kit.Bool(m["runs"]):
				// the route registered with exactly this time-out value (none: the configuration's)
				tclass = c02RtClass(routeUs)
				if npre <= n && !cancel {
					sc.release = make(chan struct{})
					rel := sc.release
					tm := time.AfterFunc(3*time.Second+2*eff, func() { close(rel) })
					defer tm.Stop()
				}
			case env == d.nt:
				tclass = "cfg" // no route time-out, Config.Timeout = 0: bindRoute composes the chain without the time-out guard
			case !kit.Bool(m["runs"]):
				tclass = "long" // answered by a guard before the handler: no timer may interfere
			case tr == "api" && (npre <= n || delay > 0):
				tclass = "cfg" // Config.Timeout = 2 s of the started server
			case tr == "api":
				tclass = "long"
			case class == "boundary":
				tclass = "tiny"
				sc.stepSleep = 2 * c02Tiny / time.Duration(n+2)
				sc.rng = rand.New(rand.NewSource(kit.Seed()*1000003 + int64(c.Index)*31 + int64(a)))
			case cancel:
				tclass = "long" // the client goes away first: the timer must never win
			case npre <= n:
				tclass = "short"
			}
			if tr == "api" {
				sc.delay = delay
			}
			o = d.do(tr, env, c02Path(tclass, mb), sc, cl, cancel, kit.Bool(m["runs"]))
			d.reg.Delete(sc.id)
			ok, why, el = c02MatchEl(exp, o)
			if ok && (sc.ran.Load() > 0) != kit.Bool(m["runs"]) {
				ok, why = false, "handler-ran"
			}
			if ok {
				if vok, multi, msg := c02HdrValues(m, el, o); !vok {
					ok, why = false, "header-values"
					o.err = "" // (a complete response was received)
					hvMsg = msg
				} else if multi {
					hvMulti = true
				}
			}
			// the deadline the chain hands to the handler must leave it the whole route time-out
			if dl, has := sc.dl.Load().(time.Time); has && isRt && effUs > 0 && o.err == "" && dl.Sub(o.t0) < eff {
				ok, why = false, "deadline-early"
				hvMsg = fmt.Sprintf("the handler's context expires %v after the request was sent, the route time-out is %v", dl.Sub(o.t0), eff)
			}
			v.Steps++
		}
		inconclusive := 0
		overrunRetries := 0
		serialized := false
		infra := ""
		for a := 0; a < 6; a++ {
			if a == 3 {
				if inconclusive < 3 {
					break // reproduced 3 times, at least once conclusively
				}
				// every concurrent attempt was spoilt by a stalled machine: try again one at a time
				d.slowMu.Lock()
				serialized = true
				inconclusive = 0
			}
			run(a)
			if strings.HasPrefix(o.err, "INFRA") {
				infra = tr + ": " + o.err
				break
			}
			if ok {
				break
			}
			if why == "hung" {
				// 20 s of silence. Confirm it alone, next to a control request that needs nothing from the
				// machine but to be scheduled: a hang that reproduces while the control is answered
				// promptly is the chain's, anything else is the machine's.
				if !serialized {
					d.slowMu.Lock()
					serialized = true
				}
				ctl := d.control(tr, mb)
				run(a + 100)
				switch {
				case ok:
					d.rep.Count("hung_not_reproduced", 1)
				case why == "hung" && ctl >= 0 && ctl < 2*time.Second:
					// confirmed
				case why == "hung":
					infra = fmt.Sprintf("%s: no response within %v, but the machine is stalled (control request: %v)", tr, c02Hang, ctl)
				}
				break
			}
			if sc.release != nil && sc.overran.Load() && a < 2 {
				// the handler was not told of any deadline for 3 s + 2 x the route time-out and was let go by the
				// driver: only a stalled machine could do that to a conforming chain - it must reproduce
				overrunRetries++
				continue
			}
			if tr != "api" {
				break
			}
			// real time-outs involved: only outcomes that cannot be blamed on a stalled machine count. The
			// handler must have ended well inside the time-out (in-time cases) / must have seen the
			// deadline close to the time-out (deadline cases).
			T := time.Duration(c02ApiMs) * time.Millisecond
			took, sawDone := time.Duration(sc.tookNs.Load()), time.Duration(sc.ctxDoneNs.Load())
			switch {
			case npre == n+1 && took > T-60*time.Millisecond:
				inconclusive++
			case npre <= n && kit.Bool(m["runs"]) && (sawDone == 0 || sawDone > T+100*time.Millisecond):
				inconclusive++
			}
		}
		if serialized {
			d.slowMu.Unlock()
		}
		if infra != "" {
			return kit.Verdict{Case: c.Index, Infra: true, Msg: infra}
		}
		if ok && overrunRetries > 0 {
			d.rep.Count("rt_overrun_not_reproduced", 1)
		}
		if ok && hvMulti {
			d.rep.Count(tr+"."+map[bool]string{false: "", true: "nt-"}[env == d.nt]+"multi-header", 1)
		}
		if ok && isRt {
			d.rep.Count(fmt.Sprintf("rt.%dus.cfg%d.%s", routeUs, cfgMs, class), 1)
		}
		if ok {
			d.rep.Count(tr+"."+cprefix+class, 1)
			if class == "boundary" {
				if o.status == 503 {
					d.rep.Count("boundary.timeout", 1)
				} else {
					d.rep.Count("boundary.handler", 1)
				}
			}
		}
		if !ok {
			if serialized && inconclusive == 3 {
				return kit.Verdict{Case: c.Index, Infra: true, Msg: fmt.Sprintf("api transport: machine too slow for a conclusive real-time run (%s)", o)}
			}
			if delay > 0 {
				class = "intime-late"
			}
			v.OK = false
			v.Key = "C02:rest:" + tr + ":" + cprefix + class + ":" + why
			if why == "panic-escaped" {
				v.Key = "C02:rest:panic-escaped" // recorder path: nothing above the chain recovers
			}
			v.Msg = fmt.Sprintf("transport %s%s, %s scenario cl=%d script=%s term=%s npre=%d cause=%s delay=%v: client saw %s, specification allows %s",
				tr, map[string]string{"": "", "nt-": " (engine with Config.Timeout=0: no time-out guard)",
					"rt-": fmt.Sprintf(" (route with WithTimeout(%dus), Config.Timeout=%dms: route time-out %v)", routeUs, cfgMs, eff)}[cprefix], class, cl, kit.Canon(m["steps"]), kit.Str(m["term"]), npre, kit.Str(m["cause"]), delay, o, c02Want(exp))
			if hvMsg != "" {
				v.Msg += "; " + hvMsg
			}
			if sc.overran.Load() {
				v.Msg += fmt.Sprintf("; the handler saw no deadline and ended %v after the request was sent", 3*time.Second+2*eff)
			}
			return v
		}
	}
	return v
}

// control serves the simplest in-time request (empty script, never-reached time-out) on a transport and
// returns how long it took, -1 if it was not answered with its 200.
func (d *c02Drv) control(tr string, mb int64) time.Duration {
	sc := d.newScenario(d.main)
	defer d.reg.Delete(sc.id)
	o := d.do(tr, d.main, c02Path("long", mb), sc, 0, false, true)
	if o.err != "" || o.status != 200 {
		return -1
	}
	return o.elapsed
}

// ---------------------------------------------------------------- stress: one scenario, many concurrent requests

// runStress serves the same in-time scenario `n` times from 64 concurrent clients through the bound
// chain (recorder path); every single answer must be in the specification's set. Aimed at outcomes
// that depend on how the handler goroutine and the ServeHTTP select are scheduled (e.g. a panic
// that is lost when `done` and `panicChan` are both ready).
func (d *c02Drv) runStress(c kit.Case, m kit.M) kit.Verdict {
	v := kit.Verdict{Case: c.Index, OK: true}
	steps := c02Steps(m["steps"])
	exp := m["exp"].(map[string]any)
	mb := int64(kit.Num(m["cfg"].(map[string]any)["maxBytes"]))
	n := kit.Num(m["n"])
	class := c02Class(m)
	var next, bad atomic.Int64
	var mu sync.Mutex
	var wg sync.WaitGroup
	for w := 0; w < 64; w++ {
		wg.Add(1)
		go func() {
			defer wg.Done()
			for next.Add(1) <= int64(n) && bad.Load() == 0 {
				sc := d.newScenario(d.main)
				sc.steps, sc.term, sc.npre = steps, kit.Str(m["term"]), len(steps)+1
				o := d.do("rec", d.main, c02Path("long", mb), sc, 0, false, true)
				d.reg.Delete(sc.id)
				if ok, why := c02Match(exp, o); !ok && why == "hung" {
					bad.Add(1)
					mu.Lock()
					if v.OK {
						v = kit.Verdict{Case: c.Index, Infra: true, Msg: fmt.Sprintf("stress: %.80s", o.err)}
					}
					mu.Unlock()
				} else if !ok {
					bad.Add(1)
					mu.Lock()
					if v.OK {
						v.OK = false
						v.Key = "C02:rest:rec:stress-" + class + ":" + why
						v.Msg = fmt.Sprintf("stress: request #%d of %d concurrent in-time %s scenarios script=%s term=%s: client saw %s, specification allows %s",
							next.Load(), n, class, kit.Canon(m["steps"]), kit.Str(m["term"]), o, c02Want(exp))
					}
					mu.Unlock()
				}
			}
		}()
	}
	wg.Wait()
	done := int(next.Load())
	if done > n {
		done = n
	}
	v.Steps = done
	d.rep.Count("rec.stress-"+class, done)
	return v
}

// ---------------------------------------------------------------- MaxConns histories

type c02Pending struct {
	sc  *c02Scenario
	res chan c02Obs
}

func (d *c02Drv) runConns(c kit.Case, m kit.M) kit.Verdict {
	v := kit.Verdict{Case: c.Index, OK: true}
	cfg := m["cfg"].(map[string]any)
	n, mb := kit.Num(cfg["maxConns"]), int64(kit.Num(cfg["maxBytes"]))
	env, err := d.connsEnv(n, mb)
	if err != nil {
		return kit.Verdict{Case: c.Index, Infra: true, Msg: err.Error()}
	}
	env.mu.Lock()
	defer env.mu.Unlock()
	fail := func(step int, tr, what, msg string) kit.Verdict {
		v.OK, v.Step, v.Key, v.Msg = false, step, "C02:conns:"+tr+":"+what, fmt.Sprintf("MaxConns=%d MaxBytes=%d transport %s op #%d: %s", n, mb, tr, step, msg)
		return v
	}
	for _, tr := range d.transportsOf(m) {
		live := map[int]*c02Pending{}
		env.max.Store(0)
		var bad *kit.Verdict
		release := func(p *c02Pending) (c02Obs, bool) {
			close(p.sc.gate)
			select {
			case o := <-p.res:
				d.reg.Delete(p.sc.id)
				return o, true
			case <-time.After(c02Barrier):
				return c02Obs{}, false
			}
		}
		for i, opv := range kit.List(m["ops"]) {
			op := opv.(map[string]any)
			r := kit.Num(op["r"])
			exp := op["exp"].(map[string]any)
			switch kit.Str(op["op"]) {
			case "enter":
				sc := d.newScenario(env)
				sc.gate = make(chan struct{})
				p := &c02Pending{sc: sc, res: make(chan c02Obs, 1)}
				go func() { p.res <- d.do(tr, env, c02Path("long", mb), sc, kit.Num(op["cl"]), false, false) }()
				select {
				case <-sc.entered:
					live[r] = p
					if !kit.Bool(op["admitted"]) {
						x := fail(i, tr, "admitted-above-limit", fmt.Sprintf("request #%d reached the handler, specification answers it with %s; inside=%d", r, c02Want(exp), env.cur.Load()))
						bad = &x
					}
				case o := <-p.res:
					d.reg.Delete(sc.id)
					if strings.HasPrefix(o.err, "INFRA") || strings.HasPrefix(o.err, "HUNG") { // a silent MaxConns history is left to the script scenarios
						return kit.Verdict{Case: c.Index, Infra: true, Msg: o.err}
					}
					if kit.Bool(op["admitted"]) {
						x := fail(i, tr, "rejected-below-limit", fmt.Sprintf("request #%d was answered %s without reaching the handler, specification lets it inside", r, o))
						bad = &x
					} else if ok, why := c02Match(exp, o); !ok {
						x := fail(i, tr, "rejected:"+why, fmt.Sprintf("request #%d: client saw %s, specification allows %s", r, o, c02Want(exp)))
						bad = &x
					}
				case <-time.After(c02Barrier):
					return kit.Verdict{Case: c.Index, Infra: true, Msg: "enter: neither handler entry nor response"}
				}
			case "release":
				p := live[r]
				delete(live, r)
				o, done := release(p)
				if !done {
					return kit.Verdict{Case: c.Index, Infra: true, Msg: "release: no response"}
				}
				if strings.HasPrefix(o.err, "INFRA") || strings.HasPrefix(o.err, "HUNG") { // a silent MaxConns history is left to the script scenarios
					return kit.Verdict{Case: c.Index, Infra: true, Msg: o.err}
				}
				if ok, why := c02Match(exp, o); !ok {
					x := fail(i, tr, "released:"+why, fmt.Sprintf("request #%d: client saw %s, specification allows %s", r, o, c02Want(exp)))
					bad = &x
				}
			}
			v.Steps++
			if bad == nil {
				if got := int(env.cur.Load()); got != kit.Num(op["inside"]) {
					x := fail(i, tr, "inside-count", fmt.Sprintf("%d requests inside handlers, specification says %d", got, kit.Num(op["inside"])))
					bad = &x
				}
			}
			if bad != nil {
				break
			}
		}
		for _, p := range live {
			if _, done := release(p); !done {
				return kit.Verdict{Case: c.Index, Infra: true, Msg: "cleanup: no response"}
			}
		}
		if bad != nil {
			return *bad
		}
		if mx := int(env.max.Load()); mx > n {
			return fail(len(kit.List(m["ops"])), tr, "max-inside", fmt.Sprintf("at most %d requests were inside handlers at once, MaxConns=%d", mx, n))
		}
		d.rep.Count(tr+".conns", 1)
	}
	return v
}

// ---------------------------------------------------------------- entry point

func TestVerifC02(t *testing.T) {
	cases, err := kit.LoadCases(os.Getenv("VERIF_CASES"))
	if err != nil {
		t.Fatal(err)
	}
	rep, err := kit.NewReporter(os.Getenv("VERIF_OUT"))
	if err != nil {
		t.Fatal(err)
	}
	defer rep.Close()
	shard, shards := kit.EnvInt("VERIF_SHARD", 0), kit.EnvInt("VERIF_SHARDS", 1)

	// the breaker in the chain must not shed scripted 5xx traffic: its coin never says "drop"
	mathx.SetVerifCoin(func(float64) (bool, bool) { return false, true })
	logx.Disable()

	d := &c02Drv{rep: rep, conns: map[string]*c02Env{}, useAPI: kit.Env("VERIF_C02_API", "1") == "1"}
	d.client = &http.Client{Timeout: c02Hang, Transport: &http.Transport{DisableKeepAlives: true, DisableCompression: true}}

	d.alone = handler.RecoverHandler(http.HandlerFunc(d.handle))
	var mine []kit.Case
	mbSet, ntSet, rtSet := map[int64]bool{}, map[int64]bool{}, map[int]bool{}
	for _, c := range cases {
		if c.Index%shards != shard {
			continue
		}
		mine = append(mine, c)
		m := c.Steps[0]
		if kit.Str(m["mode"]) != "conns" {
			mb := int64(kit.Num(m["cfg"].(map[string]any)["maxBytes"]))
			if !c02OnNT(m) {
				mbSet[mb] = true
			} else {
				ntSet[mb] = true
			}
			if has, routeUs, _, _ := c02Rt(m); has && routeUs > 0 {
				rtSet[routeUs] = true
			}
		}
	}
	for us := range rtSet {
		d.rts = append(d.rts, us)
	}
	sort.Ints(d.rts)
	if len(ntSet) > 0 {
		var mbs []int64
		for mb := range ntSet {
			mbs = append(mbs, mb)
		}
		sort.Slice(mbs, func(i, j int) bool { return mbs[i] < mbs[j] })
		if d.nt, err = d.newEnv("no-timeout", 0, 10000, mbs, false); err != nil {
			rep.Put(kit.Verdict{Case: -1, Infra: true, Msg: err.Error()})
			return
		}
	}
	for mb := range mbSet {
		d.mbs = append(d.mbs, mb)
	}
	sort.Slice(d.mbs, func(i, j int) bool { return d.mbs[i] < d.mbs[j] })
	if len(d.mbs) > 0 {
		d.main, err = d.newEnv("main", c02ApiMs, 10000, d.mbs, d.useAPI)
		if err != nil {
			rep.Put(kit.Verdict{Case: -1, Infra: true, Msg: err.Error()})
			return
		}
	}

	workers := kit.EnvInt("VERIF_C02_WORKERS", 48)
	ch := make(chan kit.Case)
	var wg sync.WaitGroup
	for w := 0; w < workers; w++ {
		wg.Add(1)
		go func() {
			defer wg.Done()
			for c := range ch {
				m := c.Steps[0]
				switch kit.Str(m["mode"]) {
				case "script", "boundary":
					rep.Put(d.runScript(c, m))
				case "conns":
					rep.Put(d.runConns(c, m))
				case "stress":
					rep.Put(d.runStress(c, m))
				default:
					rep.Put(kit.Verdict{Case: c.Index, Infra: true, Msg: "unknown mode " + kit.Str(m["mode"])})
				}
			}
		}()
	}
	for _, c := range mine {
		ch <- c
	}
	close(ch)
	wg.Wait()
}
