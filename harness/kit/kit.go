// Package verifkit is overlaid into /repo as internal/verifkit by /verif/bin/check.
// It holds what every conformance driver needs: case I/O (TLC-generated behaviours in,
// per-case verdicts out), an ndjson trace emitter with a global sequence number, a
// virtual clock for lib/timex and small barrier helpers.
package verifkit

import (
	"bufio"
	"encoding/json"
	"fmt"
	"os"
	"runtime"
	"sort"
	"strconv"
	"sync"
	"sync/atomic"
	"time"
)

// ---------------------------------------------------------------- environment

// Env returns the value of an environment variable or a default.
func Env(name, def string) string {
	if v := os.Getenv(name); v != "" {
		return v
	}
	return def
}

// EnvInt returns an integer environment variable or a default.
func EnvInt(name string, def int) int {
	if v := os.Getenv(name); v != "" {
		if n, err := strconv.Atoi(v); err == nil {
			return n
		}
	}
	return def
}

// Seed is VERIF_SEED (default 1).
func Seed() int64 { return int64(EnvInt("VERIF_SEED", 1)) }

// ---------------------------------------------------------------- cases in

// M is a decoded JSON object.
type M = map[string]any

// Case is one TLC-generated behaviour: a sequence of steps, each a JSON object
// carrying the operation, its arguments and the specification's prediction.
type Case struct {
	Index int
	Steps []M
	Raw   json.RawMessage
}

// LoadCases reads an ndjson file with one JSON array (or object) per line.
func LoadCases(path string) ([]Case, error) {
	f, err := os.Open(path)
	if err != nil {
		return nil, err
	}
	defer f.Close()
	var out []Case
	sc := bufio.NewScanner(f)
	sc.Buffer(make([]byte, 1<<20), 1<<28)
	i := 0
	for sc.Scan() {
		line := sc.Bytes()
		if len(line) == 0 {
			continue
		}
		raw := append([]byte(nil), line...)
		var steps []M
		if line[0] == '[' {
			if err := json.Unmarshal(line, &steps); err != nil {
				return nil, fmt.Errorf("case %d: %v", i, err)
			}
		} else {
			var one M
			if err := json.Unmarshal(line, &one); err != nil {
				return nil, fmt.Errorf("case %d: %v", i, err)
			}
			steps = []M{one}
		}
		out = append(out, Case{Index: i, Steps: steps, Raw: raw})
		i++
	}
	return out, sc.Err()
}

// Num converts a decoded JSON number (or numeric string) to int.
func Num(v any) int {
	switch x := v.(type) {
	case float64:
		return int(x)
	case int:
		return x
	case int64:
		return int(x)
	case string:
		n, _ := strconv.Atoi(x)
		return n
	case bool:
		if x {
			return 1
		}
		return 0
	case nil:
		return 0
	}
	panic(fmt.Sprintf("verifkit.Num: %T", v))
}

// Str converts a decoded JSON value to string.
func Str(v any) string {
	switch x := v.(type) {
	case string:
		return x
	case nil:
		return ""
	case float64:
		return strconv.FormatFloat(x, 'f', -1, 64)
	case bool:
		return strconv.FormatBool(x)
	}
	b, _ := json.Marshal(v)
	return string(b)
}

// Bool converts a decoded JSON value to bool.
func Bool(v any) bool {
	switch x := v.(type) {
	case bool:
		return x
	case nil:
		return false
	case float64:
		return x != 0
	case string:
		return x == "true" || x == "TRUE"
	}
	return false
}

// List returns a decoded JSON array (nil for null).
func List(v any) []any {
	if v == nil {
		return nil
	}
	if l, ok := v.([]any); ok {
		return l
	}
	panic(fmt.Sprintf("verifkit.List: %T", v))
}

// Canon renders any JSON-able value canonically (sorted map keys).
func Canon(v any) string {
	b, _ := json.Marshal(v)
	return string(b)
}

// CanonSet renders a list as a sorted multiset of canonical elements.
func CanonSet(v []any) string {
	s := make([]string, 0, len(v))
	for _, e := range v {
		s = append(s, Canon(e))
	}
	sort.Strings(s)
	return Canon(s)
}

// ---------------------------------------------------------------- verdicts out

// Verdict is the outcome of replaying one case.
type Verdict struct {
	Case  int    `json:"case"`
	OK    bool   `json:"ok"`
	Step  int    `json:"step,omitempty"`  // index of the first disagreeing step
	Key   string `json:"key,omitempty"`   // canonical class of the disagreement (for known findings)
	Msg   string `json:"msg,omitempty"`   // got / want
	Infra bool   `json:"infra,omitempty"` // harness problem (barrier time-out …): never a violation
	Steps int    `json:"steps"`           // steps compared
}

// Reporter collects verdicts and counters and writes them to VERIF_OUT.
type Reporter struct {
	mu       sync.Mutex
	w        *bufio.Writer
	f        *os.File
	Counters map[string]int
	nBad     int
}

// NewReporter opens the verdict file.
func NewReporter(path string) (*Reporter, error) {
	f, err := os.Create(path)
	if err != nil {
		return nil, err
	}
	return &Reporter{f: f, w: bufio.NewWriterSize(f, 1<<20), Counters: map[string]int{}}, nil
}

// Put records one verdict. Only failing verdicts are written in full; passing ones are counted.
func (r *Reporter) Put(v Verdict) {
	r.mu.Lock()
	defer r.mu.Unlock()
	r.Counters["cases"]++
	r.Counters["steps"] += v.Steps
	if v.OK {
		return
	}
	r.nBad++
	if r.nBad > 2000 { // keep the file bounded; the count is still exact
		r.Counters["bad_not_written"]++
		return
	}
	b, _ := json.Marshal(v)
	r.w.Write(b)
	r.w.WriteByte('\n')
}

// Count bumps a named coverage counter.
func (r *Reporter) Count(name string, n int) {
	r.mu.Lock()
	r.Counters[name] += n
	r.mu.Unlock()
}

// Close writes the counters as the final line and closes the file.
func (r *Reporter) Close() error {
	r.mu.Lock()
	defer r.mu.Unlock()
	b, _ := json.Marshal(M{"counters": r.Counters, "bad": r.nBad})
	r.w.Write(b)
	r.w.WriteByte('\n')
	if err := r.w.Flush(); err != nil {
		return err
	}
	return r.f.Close()
}

// ---------------------------------------------------------------- traces out

// Tracer writes ndjson events with a global sequence number. Emit may be called
// from any goroutine; the sequence number is taken under the tracer's mutex, so
// when Emit is called while the caller holds the lock protecting the state that the
// event describes, file order is a linearization order.
type Tracer struct {
	mu  sync.Mutex
	w   *bufio.Writer
	f   *os.File
	seq int64
	N   int64
}

// NewTracer opens a trace file.
func NewTracer(path string) (*Tracer, error) {
	f, err := os.Create(path)
	if err != nil {
		return nil, err
	}
	return &Tracer{f: f, w: bufio.NewWriterSize(f, 1<<20)}, nil
}

// Emit appends one event.
func (t *Tracer) Emit(ev M) {
	t.mu.Lock()
	t.seq++
	t.N++
	b, _ := json.Marshal(ev)
	t.w.Write(b)
	t.w.WriteByte('\n')
	t.mu.Unlock()
}

// Close flushes and closes.
func (t *Tracer) Close() error {
	t.mu.Lock()
	defer t.mu.Unlock()
	if err := t.w.Flush(); err != nil {
		return err
	}
	return t.f.Close()
}

// ---------------------------------------------------------------- virtual clock

// Clock is a monotone virtual clock for timex.SetVerifClock.
type Clock struct{ ns atomic.Int64 }

// NewClock starts at a large positive offset, like timex's real initTime offset.
func NewClock() *Clock {
	c := &Clock{}
	c.ns.Store(int64(400 * 24 * time.Hour))
	return c
}

// Now is the function to install.
func (c *Clock) Now() time.Duration { return time.Duration(c.ns.Load()) }

// Advance moves the clock forward.
func (c *Clock) Advance(d time.Duration) { c.ns.Add(int64(d)) }

// Set sets the absolute value.
func (c *Clock) Set(d time.Duration) { c.ns.Store(int64(d)) }

// ---------------------------------------------------------------- barriers

// WaitGoroutines waits until runtime.NumGoroutine() <= base or the time-out passes.
func WaitGoroutines(base int, d time.Duration) bool {
	deadline := time.Now().Add(d)
	for i := 0; ; i++ {
		if runtime.NumGoroutine() <= base {
			return true
		}
		if time.Now().After(deadline) {
			return false
		}
		if i < 200 {
			runtime.Gosched()
		} else {
			time.Sleep(50 * time.Microsecond)
		}
	}
}

// WaitFor polls cond until true or time-out.
func WaitFor(d time.Duration, cond func() bool) bool {
	deadline := time.Now().Add(d)
	for i := 0; ; i++ {
		if cond() {
			return true
		}
		if time.Now().After(deadline) {
			return false
		}
		if i < 200 {
			runtime.Gosched()
		} else {
			time.Sleep(100 * time.Microsecond)
		}
	}
}

// Stacks returns all goroutine stacks (for diagnostics).
func Stacks() string {
	buf := make([]byte, 1<<20)
	return string(buf[:runtime.Stack(buf, true)])
}

// ---------------------------------------------------------------- streaming cases

// StreamCases reads an ndjson case file line by line and calls fn only for the cases of this
// process's shard (Index % VERIF_SHARDS == VERIF_SHARD), decoding one case at a time, so that
// big case files do not have to fit into memory once per shard.
func StreamCases(path string, fn func(c Case) error) error {
	f, err := os.Open(path)
	if err != nil {
		return err
	}
	defer f.Close()
	shard, shards := EnvInt("VERIF_SHARD", 0), EnvInt("VERIF_SHARDS", 1)
	sc := bufio.NewScanner(f)
	sc.Buffer(make([]byte, 1<<20), 1<<28)
	i := -1
	for sc.Scan() {
		line := sc.Bytes()
		if len(line) == 0 {
			continue
		}
		i++
		if i%shards != shard {
			continue
		}
		c := Case{Index: i, Raw: append([]byte(nil), line...)}
		if line[0] == '[' {
			if err := json.Unmarshal(line, &c.Steps); err != nil {
				return fmt.Errorf("case %d: %v", i, err)
			}
		} else {
			var one M
			if err := json.Unmarshal(line, &one); err != nil {
				return fmt.Errorf("case %d: %v", i, err)
			}
			c.Steps = []M{one}
		}
		if err := fn(c); err != nil {
			return err
		}
	}
	return sc.Err()
}
