package p2c

// Trace driver for property C14 (overlaid into rpc/internal/balancer/p2c by /verif/bin/check).
// It drives pickers obtained the way grpc obtains them: balancer.Get(Name) (the builder this
// package registers in init()) builds one balancer per fake ClientConn; the driver feeds it
// resolver addresses and SubConn state changes and uses the pickers the balancer publishes through
// ClientConn.UpdateState.  Every picker of the process therefore comes from the one registered
// picker-builder instance, as in a program with several rpc clients.  Seeded random Pick/Done
// sequences run under the virtual clock (timex.SetVerifClock); after every operation the
// projection [infl, succ, lag] of the picker's connections is logged.  The log (ndjson) is
// validated step by step against spec/P2C.tla by spec/P2CTrace.tla; this file decides nothing.
//
// Every Pick and every completion callback runs under a watchdog (c14Guard / c14Await): a call that
// has not returned while every goroutine of the process has been blocked for seconds (or that made no
// progress for two minutes), or that panics, is logged as a "fault" event (with the stacks of the
// blocked goroutines) and ends its history; the trace spec rejects it (pick-never-returns,
// done-never-returns, pick-panics, done-panics).  It is never a harness error.
//
//   VERIF_C14_MODE=seq    sequential traces (every step validated)
//   VERIF_C14_MODE=conc   8 goroutines per picker; only the quiescent end state is logged
//   VERIF_C14_MODE=streak one backend fails every call, completions 1-5 ms apart (n = 1 and n = 3),
//                         long enough for the "unhealthy after a bounded number of completions" clause
//   VERIF_C14_MODE=reorder two completions of one connection applied out of the order of the times
//                         they read (the first is parked inside its timex.Now() call while the
//                         clock advances and the second runs to the end), n = 1, 2, 3
//   VERIF_C14_MODE=multi  several pickers alive at once (two or three clients brought up one after the
//                         other, connections going down and up again so that a client's picker is
//                         rebuilt while its previous picker still serves a few picks and the
//                         completions of its calls); picks and completions of all of them interleaved.
//                         Every event names its picker ("p"); a picker's ready connections are those
//                         of its own build
//   VERIF_C14_MODE=idle   idle periods: rounds of (picks, completions, a gap of 30 s / 1 min / 61 s / 5 min
//                         without any pick while 0, 1 or 2 calls stay in flight, completions after the
//                         gap), then picks again; the first round enumerated, the following ones seeded
//   VERIF_C14_MODE=stats  long 1 kHz runs with one dead backend; measured shares and pick gaps
//                         are written as JSON (the thresholds live in checks/c14.py)

import (
	"context"
	"encoding/json"
	"errors"
	"fmt"
	"math/rand"
	"os"
	"runtime"
	"sort"
	"strings"
	"sync"
	"sync/atomic"
	"testing"
	"time"

	kit "github.com/gotid/god/internal/verifkit"
	"github.com/gotid/god/lib/logx"
	"github.com/gotid/god/lib/timex"
	"google.golang.org/grpc/balancer"
	"google.golang.org/grpc/codes"
	"google.golang.org/grpc/connectivity"
	"google.golang.org/grpc/resolver"
	"google.golang.org/grpc/status"
)

type c14Conn struct{ id int }

func (c *c14Conn) UpdateAddresses([]resolver.Address) {}
func (c *c14Conn) Connect()                           {}

const c14Sat = 1000000000 // projection values are saturated here (TLC integers are 32 bit)

func c14SatU(v uint64) int64 {
	if v > c14Sat {
		return c14Sat
	}
	return int64(v)
}

func c14SatI(v int64) int64 {
	if v > c14Sat {
		return c14Sat
	}
	if v < -c14Sat {
		return -c14Sat
	}
	return v
}

// c14World: what all pickers of one history share - the virtual clock (with the gate of the
// reorder traces) and the numbering 1..univ of the history's connections.
type c14World struct {
	clock  *kit.Clock
	base   time.Duration
	univ   int                      // number of connections of the history
	next   int                      // connection ids handed out so far
	byConn map[balancer.SubConn]int // SubConn -> 1..univ
	byAddr map[string]int
	npick  int // pickers registered so far (their ids are 0..npick-1)
	// gate: when armed, the next reader of the clock is parked after it has taken its value
	armed   atomic.Bool
	parked  chan struct{}
	release chan struct{}
}

func newC14World(univ int) *c14World {
	w := &c14World{univ: univ, byConn: map[balancer.SubConn]int{}, byAddr: map[string]int{}, clock: kit.NewClock(),
		parked: make(chan struct{}), release: make(chan struct{})}
	timex.SetVerifClock(w.now)
	w.base = w.clock.Now()
	return w
}

func (w *c14World) now() time.Duration {
	v := w.clock.Now()
	if w.armed.CompareAndSwap(true, false) {
		w.parked <- struct{}{}
		<-w.release
	}
	return v
}

func (w *c14World) ms() int64 { return int64((w.clock.Now() - w.base) / time.Millisecond) }

// c14Client is the balancer.ClientConn of one fake rpc client: it hands out SubConns and keeps
// the picker the balancer published last.
type c14Client struct {
	balancer.ClientConn // methods a base balancer does not call stay unimplemented
	w                   *c14World
	id                  int
	bal                 balancer.Balancer
	conns               []*c14Conn
	state               map[*c14Conn]connectivity.State // the states the driver delivered
	addrs               []resolver.Address
	latest              balancer.Picker // published last
	seen                balancer.Picker // handled by the driver last
}

func (cl *c14Client) NewSubConn(addrs []resolver.Address, _ balancer.NewSubConnOptions) (balancer.SubConn, error) {
	id := cl.w.byAddr[addrs[0].Addr]
	sc := &c14Conn{id: id}
	cl.conns = append(cl.conns, sc)
	cl.w.byConn[sc] = id
	return sc, nil
}
func (cl *c14Client) RemoveSubConn(balancer.SubConn)                       {}
func (cl *c14Client) UpdateAddresses(balancer.SubConn, []resolver.Address) {}
func (cl *c14Client) UpdateState(s balancer.State)                         { cl.latest = s.Picker }
func (cl *c14Client) ResolveNow(resolver.ResolveNowOptions)                {}
func (cl *c14Client) Target() string                                       { return fmt.Sprintf("verif:///c14-%d", cl.id) }

// newC14Client: a client whose resolver reports k addresses; its balancer is built by the builder
// registered under Name.  All its connections are connecting afterwards.
func (w *c14World) newClient(id, k int) (*c14Client, error) {
	bb := balancer.Get(Name)
	if bb == nil {
		return nil, fmt.Errorf("no balancer is registered under %q", Name)
	}
	if w.next+k > w.univ {
		return nil, errors.New("c14: more connections than the history declared")
	}
	cl := &c14Client{w: w, id: id, state: map[*c14Conn]connectivity.State{}}
	for i := 0; i < k; i++ {
		w.next++
		a := fmt.Sprintf("10.0.%d.%d:80", id, w.next)
		w.byAddr[a] = w.next
		cl.addrs = append(cl.addrs, resolver.Address{Addr: a})
	}
	cl.bal = bb.Build(cl, balancer.BuildOptions{})
	if err := cl.bal.UpdateClientConnState(balancer.ClientConnState{ResolverState: resolver.State{Addresses: cl.addrs}}); err != nil {
		return nil, fmt.Errorf("UpdateClientConnState: %v", err)
	}
	if len(cl.conns) != k {
		return nil, fmt.Errorf("the balancer created %d SubConns for %d addresses", len(cl.conns), k)
	}
	for _, sc := range cl.conns {
		cl.set(sc, connectivity.Connecting)
	}
	return cl, nil
}

// set delivers a SubConn state change to the client's balancer.
func (cl *c14Client) set(sc *c14Conn, s connectivity.State) {
	cl.state[sc] = s
	st := balancer.SubConnState{ConnectivityState: s}
	if s == connectivity.TransientFailure {
		st.ConnectionError = errors.New("verif: connection lost")
	}
	cl.bal.UpdateSubConnState(sc, st)
}

// readyIDs: the connections the driver has reported ready, ascending.
func (cl *c14Client) readyIDs() []int {
	ids := []int{}
	for _, sc := range cl.conns {
		if cl.state[sc] == connectivity.Ready {
			ids = append(ids, sc.id)
		}
	}
	sort.Ints(ids)
	return ids
}

const c14MaxPickers = 16 // pickers per history (the driver's budget; the trace spec has no bound)

type c14Picker struct {
	*c14World
	pid    int // id of the picker within its history
	client int
	n      int
	picker balancer.Picker
	p      *p2cPicker
	ready  []int      // the ready connections of this picker's build (driver's record)
	held   []int      // ids of the connections found in the picker after its build (0 = unknown SubConn)
	note   string     // set when the published picker refuses to pick
	sub    []*subConn // connection id -> the picker's record at build time (nil: none)
	// the driver's own record: calls picked and not completed per connection, time of the last pick
	pending  []int
	lastPick int64
}

// ---------------------------------------------------------------- watchdog

// c14Fault: an operation that was invoked and did not return (kind "never-returns") or panicked
// (kind "panics")
type c14Fault struct{ kind, detail string }

var (
	c14Faults    atomic.Int32 // faults logged by this process
	c14MaxFaults = int32(kit.EnvInt("VERIF_C14_MAXFAULTS", 3))
	// how long a call may stay without return while goroutines of the process are still runnable
	c14Limit = time.Duration(kit.EnvInt("VERIF_C14_LIMIT_S", 120)) * time.Second
)

// c14Enough: so many histories of this process ended in a fault that the remaining ones are not
// recorded (every one of them costs seconds of real time)
func c14Enough() bool { return c14Faults.Load() >= c14MaxFaults }

// c14Goroutines splits a dump of all stacks into (state, text) per goroutine.
func c14Goroutines(dump string) (out [][2]string) {
	for _, blk := range strings.Split(dump, "\n\n") {
		blk = strings.TrimSpace(blk)
		if !strings.HasPrefix(blk, "goroutine ") {
			continue
		}
		head := blk
		if i := strings.IndexByte(blk, '\n'); i >= 0 {
			head = blk[:i]
		}
		st := ""
		if i, j := strings.IndexByte(head, '['), strings.LastIndexByte(head, ']'); i >= 0 && j > i {
			st = head[i+1 : j]
		}
		out = append(out, [2]string{st, blk})
	}
	return out
}

// c14AllBlocked: no goroutine other than the caller can run - all are waiting for a lock, a channel,
// a wait group ...  (a sleeping goroutine, one in a system call or in I/O may still wake up by
// itself and counts as active).  Second result: the stacks of the goroutines inside this package.
func c14AllBlocked() (bool, string) {
	all := true
	var mine []string
	for _, g := range c14Goroutines(kit.Stacks()) {
		st, blk := g[0], g[1]
		if strings.Contains(blk, "verifkit.Stacks(") {
			continue // the watchdog itself
		}
		active := strings.HasPrefix(st, "running") || strings.HasPrefix(st, "runnable") || strings.HasPrefix(st, "sleep") ||
			strings.HasPrefix(st, "IO wait") || (strings.HasPrefix(st, "syscall") && !strings.Contains(blk, "signal_recv"))
		if active {
			all = false
		}
		if strings.Contains(blk, "balancer/p2c.") && !strings.Contains(blk, "p2c.TestVerifC14(") {
			mine = append(mine, blk)
		}
	}
	txt := strings.Join(mine, "\n\n")
	if len(txt) > 6000 {
		txt = txt[:6000] + "\n..."
	}
	return all, txt
}

// c14Await waits for done.  nil: it came.  Otherwise the awaited call did not return: either every
// goroutine of the process was found blocked at three looks one second apart (nothing can ever
// release the call: no timer, no I/O is pending in this package), or nothing moved (progress, when
// given, unchanged) for c14Limit although goroutines were runnable.  No fixed real-time budget
// decides: on a loaded machine a runnable goroutine keeps the watchdog waiting.
func c14Await(done <-chan struct{}, progress func() int64) *c14Fault {
	t := time.NewTimer(2 * time.Second)
	select {
	case <-done:
		t.Stop()
		return nil
	case <-t.C:
	}
	began := time.Now().Add(-2 * time.Second)
	var last int64
	if progress != nil {
		last = progress()
	}
	moved, blocked := time.Now(), 0
	for {
		t.Reset(time.Second)
		select {
		case <-done:
			t.Stop()
			return nil
		case <-t.C:
		}
		if progress != nil {
			if p := progress(); p != last {
				last, moved, blocked = p, time.Now(), 0
				continue
			}
		}
		all, stacks := c14AllBlocked()
		if all {
			blocked++
		} else {
			blocked = 0
		}
		if blocked >= 3 {
			return &c14Fault{"never-returns", fmt.Sprintf("no return after %.0f s of real time and every goroutine of the process is blocked "+
				"(looked three times, one second apart); stacks:\n%s", time.Since(began).Seconds(), stacks)}
		}
		if time.Since(moved) > c14Limit {
			return &c14Fault{"never-returns", fmt.Sprintf("no return and no progress for %.0f s of real time (goroutines still runnable); stacks:\n%s",
				time.Since(moved).Seconds(), stacks)}
		}
	}
}

// c14Guard runs one operation of the code under test in its own goroutine under the watchdog.
func c14Guard(f func()) *c14Fault {
	done := make(chan struct{})
	var pv any
	var pstack string
	go func() {
		defer close(done)
		defer func() {
			if pv = recover(); pv != nil {
				buf := make([]byte, 4096)
				pstack = string(buf[:runtime.Stack(buf, false)])
			}
		}()
		f()
	}()
	if ft := c14Await(done, nil); ft != nil {
		return ft
	}
	if pv != nil {
		return &c14Fault{"panics", fmt.Sprintf("panic: %v\n%s", pv, pstack)}
	}
	return nil
}

var c14Info = balancer.PickInfo{FullMethodName: "/verif/C14", Ctx: context.Background()}

// fault logs an operation of this picker that did not return; the history ends with it.
func (cp *c14Picker) fault(tr *kit.Tracer, op string, c int, ft *c14Fault) {
	c14Faults.Add(1)
	pend, idle := 0, int64(-1)
	if c > 0 && c < len(cp.pending) {
		pend = cp.pending[c]
	}
	if cp.lastPick >= 0 {
		idle = cp.ms() - cp.lastPick
	}
	inflight := 0
	for _, k := range cp.pending {
		inflight += k
	}
	tr.Emit(cp.proj(kit.M{"ev": "fault", "op": op, "kind": ft.kind, "p": cp.pid, "c": c, "pending": pend, "t": cp.ms(),
		"since_last_pick_ms": idle, "calls_in_flight": inflight, "note": ft.detail}))
}

// pick: one Pick of this picker under the watchdog, logged as "pick" (or as a fault).  ok = false:
// the rest of the history cannot be attributed (it ends).
func (cp *c14Picker) pick(tr *kit.Tracer) (call c14Call, ok bool) {
	start := cp.clock.Now()
	var res balancer.PickResult
	var err error
	if ft := c14Guard(func() { res, err = cp.picker.Pick(c14Info) }); ft != nil {
		cp.fault(tr, "pick", 0, ft)
		return call, false
	}
	if err != nil {
		cp.pickFailed(tr, err)
		return call, false
	}
	c := cp.byConn[res.SubConn] // 0 = not a connection of this history
	tr.Emit(cp.proj(kit.M{"ev": "pick", "p": cp.pid, "c": c, "t": cp.ms()}))
	if c == 0 || cp.sub[c] == nil || res.Done == nil {
		return call, false
	}
	cp.pending[c]++
	cp.lastPick = cp.ms()
	return c14Call{cp: cp, c: c, start: start, done: res.Done}, true
}

// finish: the completion callback of one call under the watchdog, logged as "done" (or as a fault);
// false: the history ends.
func (call c14Call) finish(tr *kit.Tracer, code string) bool {
	cp := call.cp
	lat := int64((cp.clock.Now() - call.start) / time.Microsecond)
	if ft := c14Guard(func() { call.done(balancer.DoneInfo{Err: c14Err(code)}) }); ft != nil {
		cp.fault(tr, "done", call.c, ft)
		return false
	}
	cp.pending[call.c]--
	tr.Emit(cp.proj(kit.M{"ev": "done", "p": cp.pid, "c": call.c, "code": code, "lat": lat, "t": cp.ms()}))
	return true
}

// register wraps the picker the client's balancer published last.  nil, nil: nothing to drive (no
// connection is ready and the balancer published an error picker).
func (w *c14World) register(cl *c14Client, seed int64) (*c14Picker, error) {
	cl.seen = cl.latest
	ready := cl.readyIDs()
	p, ok := cl.latest.(*p2cPicker)
	if len(ready) == 0 && !ok {
		return nil, nil
	}
	if w.npick >= c14MaxPickers {
		return nil, errors.New("c14: more pickers than the budget of one history")
	}
	cp := &c14Picker{c14World: w, pid: w.npick, client: cl.id, n: w.univ, picker: cl.latest, p: p, ready: ready,
		held: []int{}, sub: make([]*subConn, w.univ+1), pending: make([]int, w.univ+1), lastPick: -1}
	w.npick++
	if !ok {
		// connections are ready and the balancer published something else: a picker that picks is
		// beyond this driver (harness limit); one that refuses is logged as a picker holding nothing
		_, err := cl.latest.Pick(c14Info)
		if err == nil {
			return nil, fmt.Errorf("builder returned %T, the driver knows *p2cPicker", cl.latest)
		}
		cp.note = fmt.Sprintf("with %d ready connections the published picker %T fails: %v", len(ready), cl.latest, err)
		return cp, nil
	}
	p.r = rand.New(rand.NewSource(seed ^ int64(cp.pid)<<20)) // the pair selection is seeded like every other random choice
	for _, c := range p.conns {
		i := w.byConn[c.conn]
		cp.held = append(cp.held, i)
		if i > 0 && cp.sub[i] == nil {
			cp.sub[i] = c
		}
	}
	sort.Ints(cp.held)
	return cp, nil
}

// emitBuild logs the picker's build: the ready set it was built over (driver's record) and the
// connections it holds.
func (cp *c14Picker) emitBuild(tr *kit.Tracer) {
	ev := kit.M{"ev": "build", "p": cp.pid, "client": cp.client, "ready": cp.ready, "held": cp.held, "t": cp.ms()}
	if cp.note != "" {
		ev["note"] = cp.note
	}
	tr.Emit(cp.proj(ev))
}

// usable: picks of this picker can be attributed
func (cp *c14Picker) usable() bool { return cp.p != nil && fmt.Sprint(cp.held) == fmt.Sprint(cp.ready) }

// newC14Picker: one client with n connections, all ready; the picker published last (picker 0 of
// the history).  The caller logs reset and then the build.
func newC14Picker(n int, seed int64) (*c14Picker, error) {
	w := newC14World(n)
	cl, err := w.newClient(0, n)
	if err != nil {
		return nil, err
	}
	for _, sc := range cl.conns {
		cl.set(sc, connectivity.Ready)
	}
	cp, err := w.register(cl, seed)
	if err != nil {
		return nil, err
	}
	if cp == nil {
		return nil, errors.New("c14: no picker although connections are ready")
	}
	return cp, nil
}

// start logs the head of a single-picker history; false: the picker cannot be driven (the build
// event tells why)
func (cp *c14Picker) start(tr *kit.Tracer, id int, profile any) bool {
	tr.Emit(kit.M{"ev": "reset", "n": cp.n, "id": id, "profile": profile})
	cp.emitBuild(tr)
	return cp.usable()
}

// pickFailed logs a pick that returned an error although connections are ready
func (cp *c14Picker) pickFailed(tr *kit.Tracer, err error) {
	tr.Emit(cp.proj(kit.M{"ev": "pick", "p": cp.pid, "c": 0, "t": cp.ms(), "note": "Pick failed: " + err.Error()}))
}

// proj reads [infl, succ, lag(us)] of every connection of the picker with atomics (-1: the
// picker has no record of that connection of the history).
func (cp *c14Picker) proj(ev kit.M) kit.M {
	infl, succ, lag := make([]int64, cp.n), make([]int64, cp.n), make([]int64, cp.n)
	for i := 1; i <= cp.n; i++ {
		c := cp.sub[i]
		if c == nil {
			infl[i-1], succ[i-1], lag[i-1] = -1, -1, -1
			continue
		}
		infl[i-1] = c14SatI(atomic.LoadInt64(&c.inflight))
		succ[i-1] = c14SatU(atomic.LoadUint64(&c.success))
		lag[i-1] = c14SatU(atomic.LoadUint64(&c.lag) / 1000)
	}
	ev["infl"], ev["succ"], ev["lag"] = infl, succ, lag
	return ev
}

var c14Codes = []string{"nil", "plain", "OK", "Canceled", "Unknown", "InvalidArgument", "DeadlineExceeded", "NotFound",
	"AlreadyExists", "PermissionDenied", "ResourceExhausted", "FailedPrecondition", "Aborted",
	"OutOfRange", "Unimplemented", "Internal", "Unavailable", "DataLoss", "Unauthenticated"}

func c14Err(code string) error {
	switch code {
	case "nil":
		return nil
	case "plain":
		return errors.New("plain error")
	}
	for c := codes.OK; c <= codes.Unauthenticated; c++ {
		if c.String() == code {
			if c == codes.OK {
				return status.Error(c, "ok") // status.Error(OK) is nil: same as "nil"
			}
			return status.Error(c, code)
		}
	}
	panic("c14: unknown code " + code)
}

type c14Call struct {
	cp    *c14Picker
	c     int
	start time.Duration
	done  func(balancer.DoneInfo)
}

// advances (ms) and their weights: mostly small gaps, sometimes around the force-pick second
// and the decay time
var c14Adv = []struct{ ms, w int }{{0, 30}, {1, 14}, {5, 8}, {37, 6}, {100, 8}, {250, 5}, {500, 5}, {999, 3}, {1000, 5},
	{1001, 4}, {1500, 3}, {2000, 3}, {5000, 2}, {10000, 2}, {30000, 1}, {120000, 1}}

func c14PickAdv(rng *rand.Rand) int {
	tot := 0
	for _, a := range c14Adv {
		tot += a.w
	}
	x := rng.Intn(tot)
	for _, a := range c14Adv {
		if x < a.w {
			return a.ms
		}
		x -= a.w
	}
	return 0
}

// one sequential trace: ops random operations on a fresh picker with n connections
func c14SeqTrace(tr *kit.Tracer, id, n, ops int, seed int64) error {
	rng := rand.New(rand.NewSource(seed))
	cp, err := newC14Picker(n, seed^0x5eed)
	if err != nil {
		return err
	}
	profile := rng.Intn(4) // 0 mixed codes, 1 connection 1 always fails, 2 all fine, 3 mostly failing
	if !cp.start(tr, id, profile) {
		return nil
	}
	var calls []c14Call
	for k := 0; k < ops; k++ {
		if adv := c14PickAdv(rng); adv > 0 && cp.ms() < 15*60*1000 {
			cp.clock.Advance(time.Duration(adv) * time.Millisecond)
		}
		doPick := len(calls) == 0 || (len(calls) < 6 && rng.Intn(100) < 55)
		if doPick {
			call, ok := cp.pick(tr)
			if !ok {
				return nil // the rest of the trace cannot be attributed
			}
			calls = append(calls, call)
			continue
		}
		i := rng.Intn(len(calls))
		call := calls[i]
		calls = append(calls[:i], calls[i+1:]...)
		code := c14Codes[rng.Intn(len(c14Codes))]
		switch {
		case profile == 1 && call.c == 1:
			code = "Unavailable"
		case profile == 1 || profile == 2:
			code = "nil"
		case profile == 3 && rng.Intn(4) > 0:
			code = []string{"DeadlineExceeded", "Internal", "Unavailable", "DataLoss", "Unimplemented"}[rng.Intn(5)]
		}
		if !call.finish(tr, code) {
			return nil
		}
	}
	return nil
}

// streak trace: connection 1 fails every call (after one acceptable completion), the others
// succeed; every call completes 1-5 ms after it was picked, which is also at least 1 ms after the
// previous completion.  Runs until connection 1 has completed `want` calls or `maxPicks` picks.
func c14StreakTrace(tr *kit.Tracer, id, n, want, maxPicks int, seed int64) error {
	rng := rand.New(rand.NewSource(seed))
	cp, err := newC14Picker(n, seed^0x5eed)
	if err != nil {
		return err
	}
	if !cp.start(tr, id, "streak") {
		return nil
	}
	done1 := 0
	for k := 0; k < maxPicks && done1 < want; k++ {
		call, ok := cp.pick(tr)
		if !ok {
			return nil
		}
		c := call.c
		cp.clock.Advance(time.Duration(1+rng.Intn(5)) * time.Millisecond)
		code := "nil"
		if c == 1 {
			if done1 > 0 {
				code = []string{"DeadlineExceeded", "Internal", "Unavailable", "DataLoss", "Unimplemented"}[rng.Intn(5)]
			}
			done1++
		}
		if !call.finish(tr, code) {
			return nil
		}
	}
	return nil
}

// reorder trace: a few random operations, then two outstanding calls of one connection complete
// "crosswise": A decrements in-flight and reads the clock (tA), is parked; the clock advances by
// 1-30 s; B completes entirely (reads tB > tA, swaps the connection's last-completion time);
// A continues with its older time.  Logged as dbegin(A, tA), done(B, tB), dend(A, tA).
func c14ReorderTrace(tr *kit.Tracer, id, n int, seed int64) error {
	rng := rand.New(rand.NewSource(seed))
	cp, err := newC14Picker(n, seed^0x5eed)
	if err != nil {
		return err
	}
	if !cp.start(tr, id, "reorder") {
		return nil
	}
	var calls []c14Call
	pick := func() (bool, error) {
		call, ok := cp.pick(tr)
		if ok {
			calls = append(calls, call)
		}
		return ok, nil
	}
	code := func() string {
		if rng.Intn(2) == 0 {
			return []string{"DeadlineExceeded", "Internal", "Unavailable", "DataLoss", "Unimplemented"}[rng.Intn(5)]
		}
		return []string{"nil", "plain", "OK", "Canceled", "NotFound", "Aborted"}[rng.Intn(6)]
	}
	finish := func(i int) bool {
		call := calls[i]
		calls = append(calls[:i], calls[i+1:]...)
		return call.finish(tr, code())
	}
	for round := 0; round < 3; round++ {
		// warm-up: vary scores and estimates
		for k, m := 0, 2+rng.Intn(8); k < m; k++ {
			if adv := c14PickAdv(rng); adv > 0 && cp.ms() < 10*60*1000 {
				cp.clock.Advance(time.Duration(adv) * time.Millisecond)
			}
			if len(calls) == 0 || (len(calls) < 5 && rng.Intn(2) == 0) {
				if ok, err := pick(); err != nil || !ok {
					return err
				}
			} else if !finish(rng.Intn(len(calls))) {
				return nil
			}
		}
		// two outstanding calls on one connection
		a, b := -1, -1
		for tries := 0; a < 0 && tries < 40; tries++ {
			for i := range calls {
				for j := i + 1; j < len(calls); j++ {
					if calls[i].c == calls[j].c && a < 0 {
						a, b = i, j
					}
				}
			}
			if a < 0 {
				cp.clock.Advance(time.Duration(1+rng.Intn(50)) * time.Millisecond)
				if ok, err := pick(); err != nil || !ok {
					return err
				}
			}
		}
		if a < 0 {
			return nil
		}
		if rng.Intn(2) == 0 {
			a, b = b, a
		}
		ca, cb := calls[a], calls[b]
		rest := calls[:0:0]
		for i, c := range calls {
			if i != a && i != b {
				rest = append(rest, c)
			}
		}
		calls = rest
		cp.clock.Advance(time.Duration(1+rng.Intn(2000)) * time.Millisecond)
		codeA, codeB := code(), code()
		tA := cp.clock.Now()
		fin := make(chan struct{})
		cp.armed.Store(true)
		go func() {
			ca.done(balancer.DoneInfo{Err: c14Err(codeA)})
			close(fin)
		}()
		if ft := c14Await(cp.parked, nil); ft != nil { // A neither read the clock nor returned
			cp.armed.Store(false)
			cp.fault(tr, "done", ca.c, ft)
			return nil
		}
		tr.Emit(cp.proj(kit.M{"ev": "dbegin", "p": cp.pid, "c": ca.c, "t": cp.ms()}))
		delay := []int{1000, 1500, 2000, 3000, 5000, 10000, 30000, 61000}[rng.Intn(8)]
		cp.clock.Advance(time.Duration(delay) * time.Millisecond)
		cp.pending[ca.c]-- // A has begun (in-flight decremented)
		if !cb.finish(tr, codeB) {
			return nil
		}
		cp.release <- struct{}{}
		if ft := c14Await(fin, nil); ft != nil {
			cp.pending[ca.c]++ // A is still on its way
			cp.fault(tr, "done", ca.c, ft)
			return nil
		}
		tr.Emit(cp.proj(kit.M{"ev": "dend", "p": cp.pid, "c": ca.c, "code": codeA, "lat": int64((tA - ca.start) / time.Microsecond),
			"t": int64((tA - cp.base) / time.Millisecond)}))
	}
	for len(calls) > 0 {
		cp.clock.Advance(time.Duration(1+rng.Intn(300)) * time.Millisecond)
		if !finish(0) {
			return nil
		}
	}
	return nil
}

// one concurrent run: g goroutines pick and complete on one picker while the clock moves; only
// the quiescent end state is logged, with the driver's own counts and latency bounds
func c14ConcTrace(tr *kit.Tracer, id, n, g, iters int, seed int64) error {
	cp, err := newC14Picker(n, seed^0x5eed)
	if err != nil {
		return err
	}
	if !cp.start(tr, id, "conc") {
		return nil
	}
	picks, dones := make([]atomic.Int64, n+1), make([]atomic.Int64, n+1)
	var mu sync.Mutex
	lmin, lmax, seen := make([]int64, n+1), make([]int64, n+1), make([]int64, n+1)
	var bad atomic.Value
	var wg sync.WaitGroup
	// what every worker is doing (0 nothing, -1 inside Pick, c > 0 inside the completion of a call of
	// connection c), the operations finished so far, and the panic of a worker, if any
	doing := make([]atomic.Int64, g)
	var progress atomic.Int64
	var panicked atomic.Value
	for w := 0; w < g; w++ {
		wg.Add(1)
		go func(w int) {
			defer wg.Done()
			defer func() {
				if pv := recover(); pv != nil {
					buf := make([]byte, 4096)
					panicked.CompareAndSwap(nil, [2]any{doing[w].Load(), fmt.Sprintf("panic: %v\n%s", pv, buf[:runtime.Stack(buf, false)])})
				}
			}()
			rng := rand.New(rand.NewSource(seed*131 + int64(w)))
			for k := 0; k < iters; k++ {
				if w == 0 && (k == iters/3 || k == 2*iters/3) {
					// an idle period: more than a minute passes between two operations
					cp.clock.Advance([]time.Duration{61 * time.Second, 5 * time.Minute}[rng.Intn(2)])
				}
				t0 := cp.clock.Now()
				doing[w].Store(-1)
				res, err := cp.picker.Pick(c14Info)
				doing[w].Store(0)
				progress.Add(1)
				t1 := cp.clock.Now()
				if err != nil {
					bad.Store(fmt.Sprintf("Pick failed: %v", err))
					return
				}
				c := cp.byConn[res.SubConn]
				if c == 0 {
					bad.Store("pick returned a connection that is not ready")
					return
				}
				picks[c].Add(1)
				if rng.Intn(3) == 0 {
					cp.clock.Advance(time.Duration(rng.Intn(20)) * time.Millisecond)
				}
				code := c14Codes[rng.Intn(len(c14Codes))]
				t2 := cp.clock.Now()
				doing[w].Store(int64(c))
				res.Done(balancer.DoneInfo{Err: c14Err(code)})
				doing[w].Store(0)
				progress.Add(1)
				t3 := cp.clock.Now()
				dones[c].Add(1)
				lo, hi := int64((t2-t1)/time.Microsecond), int64((t3-t0)/time.Microsecond)
				mu.Lock()
				if seen[c] == 0 || lo < lmin[c] {
					lmin[c] = lo
				}
				if seen[c] == 0 || hi > lmax[c] {
					lmax[c] = hi
				}
				seen[c] = 1
				mu.Unlock()
			}
		}(w)
	}
	joined := make(chan struct{})
	go func() { wg.Wait(); close(joined) }()
	ft := c14Await(joined, progress.Load)
	op := int64(0)
	if ft != nil { // the callers never came back: name an operation one of them is inside of
		for w := range doing {
			if d := doing[w].Load(); d != 0 && (op == 0 || d < 0) {
				op = d
			}
		}
	} else if pv, ok := panicked.Load().([2]any); ok {
		ft, op = &c14Fault{"panics", pv[1].(string)}, pv[0].(int64)
	}
	if ft != nil {
		for i := 1; i <= n; i++ {
			cp.pending[i] = int(picks[i].Load() - dones[i].Load())
		}
		if op > 0 {
			cp.fault(tr, "done", int(op), ft)
		} else {
			cp.fault(tr, "pick", 0, ft)
		}
		return nil
	}
	if m, ok := bad.Load().(string); ok {
		tr.Emit(cp.proj(kit.M{"ev": "pick", "c": 0, "t": cp.ms(), "note": m}))
		return nil
	}
	ev := kit.M{"ev": "state", "t": cp.ms()}
	pk, dn := make([]int64, n), make([]int64, n)
	for i := 1; i <= n; i++ {
		pk[i-1], dn[i-1] = picks[i].Load(), dones[i].Load()
	}
	ev["picks"], ev["dones"], ev["lmin"], ev["lmax"], ev["seen"] = pk, dn, lmin[1:], lmax[1:], seen[1:]
	tr.Emit(cp.proj(ev))
	return nil
}

// client sizes of the multi histories (at most 8 connections per history); every connection that
// becomes ready or leaves the ready set makes the client's balancer publish a new picker
var c14Shapes = [][]int{{3, 2}, {2, 3}, {3, 3, 2}, {2, 2}, {1, 3}, {4, 2, 2}, {3, 1}, {2, 1, 2}, {5, 3}, {3, 3}, {1, 1, 1}, {2, 4}}

// one multi-picker history: clients are created one after the other by the registered builder,
// their connections become ready, go down (transient failure or idle) and come back; the pickers
// published last serve the picks, a superseded picker still serves a few ("grace") picks after
// its successor was published, and calls complete in any order, also long after their picker was
// superseded.  Every event carries the id of its picker.
func c14MultiTrace(tr *kit.Tracer, id, ops int, seed int64) error {
	rng := rand.New(rand.NewSource(seed))
	shape := c14Shapes[id%len(c14Shapes)]
	univ := 0
	for _, k := range shape {
		univ += k
	}
	w := newC14World(univ)
	tr.Emit(kit.M{"ev": "reset", "n": univ, "id": id, "profile": "multi", "shape": shape})
	var clients []*c14Client
	latest := map[*c14Client]*c14Picker{}
	var old []*c14Picker // superseded pickers with grace picks left
	grace := map[*c14Picker]int{}
	var calls []c14Call
	broken := false // a picker that cannot be driven was logged: the history ends
	// handle what the client's balancer published since the driver looked last
	publish := func(cl *c14Client) error {
		if cl.latest == cl.seen {
			return nil
		}
		if prev := latest[cl]; prev != nil {
			if g := rng.Intn(6); g > 0 {
				grace[prev] = g
				old = append(old, prev)
			}
		}
		cp, err := w.register(cl, seed^0x5eed)
		if err != nil {
			return err
		}
		latest[cl] = cp
		if cp != nil {
			cp.emitBuild(tr)
			if !cp.usable() {
				broken = true
			}
		}
		return nil
	}
	room := func(k int) bool { return w.npick+k <= c14MaxPickers }
	pickOn := func(cp *c14Picker) bool {
		call, ok := cp.pick(tr)
		if ok {
			calls = append(calls, call)
		}
		return ok // false: the rest of the history cannot be attributed
	}
	finish := func(i int) bool {
		call := calls[i]
		calls = append(calls[:i], calls[i+1:]...)
		code := c14Codes[rng.Intn(len(c14Codes))]
		if rng.Intn(3) == 0 {
			code = "nil"
		}
		return call.finish(tr, code)
	}
	for k := 0; k < ops && !broken; k++ {
		if adv := c14PickAdv(rng); adv > 0 && w.ms() < 15*60*1000 {
			w.clock.Advance(time.Duration(adv) * time.Millisecond)
		}
		var alive []*c14Picker
		var downs, ups []struct {
			cl *c14Client
			sc *c14Conn
		}
		starting := false // some client has no ready connection yet
		for _, cl := range clients {
			if cp := latest[cl]; cp != nil {
				alive = append(alive, cp)
			}
			nr := len(cl.readyIDs())
			starting = starting || nr == 0
			for _, sc := range cl.conns {
				if cl.state[sc] != connectivity.Ready {
					ups = append(ups, struct {
						cl *c14Client
						sc *c14Conn
					}{cl, sc})
				} else if nr >= 2 {
					downs = append(downs, struct {
						cl *c14Client
						sc *c14Conn
					}{cl, sc})
				}
			}
		}
		live := old[:0]
		for _, cp := range old {
			if grace[cp] > 0 {
				live = append(live, cp)
			}
		}
		old = live
		canAdd := len(clients) < len(shape) && room(shape[len(clients)])
		r := rng.Intn(100)
		switch {
		case len(clients) == 0 || (canAdd && !starting && r < 7):
			cl, err := w.newClient(len(clients), shape[len(clients)])
			if err != nil {
				return err
			}
			clients = append(clients, cl)
			if err := publish(cl); err != nil {
				return err
			}
		case len(ups) > 0 && room(1) && (len(alive) == 0 || (starting && r < 40) || r < 14):
			u := ups[rng.Intn(len(ups))]
			if u.cl.state[u.sc] == connectivity.Idle {
				u.cl.set(u.sc, connectivity.Connecting)
			}
			u.cl.set(u.sc, connectivity.Ready)
			if err := publish(u.cl); err != nil {
				return err
			}
		case len(alive) == 0:
			return nil // no room left for the picker that would be needed
		case len(downs) > 0 && room(2) && r >= 14 && r < 20:
			d := downs[rng.Intn(len(downs))]
			d.cl.set(d.sc, []connectivity.State{connectivity.TransientFailure, connectivity.Idle}[rng.Intn(2)])
			if err := publish(d.cl); err != nil {
				return err
			}
		case len(old) > 0 && r >= 20 && r < 55:
			cp := old[rng.Intn(len(old))]
			grace[cp]--
			if !pickOn(cp) {
				return nil
			}
		case len(calls) > 0 && (len(calls) >= 10 || r >= 55 && r < 78):
			if !finish(rng.Intn(len(calls))) {
				return nil
			}
		default:
			if !pickOn(alive[rng.Intn(len(alive))]) {
				return nil
			}
		}
	}
	for len(calls) > 0 && !broken {
		w.clock.Advance(time.Duration(1+rng.Intn(300)) * time.Millisecond)
		if !finish(rng.Intn(len(calls))) {
			return nil
		}
	}
	return nil
}

// idle periods.  One round: picks until pre + k calls are in flight (none when enough are left over
// from the round before), all but k of them complete a few milliseconds apart, then `gap` ms pass
// without any pick while the k calls stay in flight, then `post` of them complete.
type c14Round struct{ pre, k, gap, post int }

// all rounds over the given gaps: pre 0..2 completions shortly before the gap, k 0..2 calls in flight
// across it, 0..k completions after it
func c14Rounds(gaps []int) (out []c14Round) {
	for pre := 0; pre <= 2; pre++ {
		for k := 0; k <= 2; k++ {
			for _, g := range gaps {
				for post := 0; post <= k; post++ {
					out = append(out, c14Round{pre, k, g, post})
				}
			}
		}
	}
	return out
}

var (
	c14GapsQuick = []int{30000, 60000, 61000, 300000}
	c14GapsFull  = []int{30000, 59999, 60000, 61000, 300000}
)

// one idle-period history on a fresh picker with n connections: the given rounds, then picks again
// (two picks, a completion between them), then everything completes.
func c14IdleTrace(tr *kit.Tracer, id, n int, rounds []c14Round, seed int64) error {
	rng := rand.New(rand.NewSource(seed))
	cp, err := newC14Picker(n, seed^0x5eed)
	if err != nil {
		return err
	}
	plan := make([][4]int, len(rounds))
	for i, r := range rounds {
		plan[i] = [4]int{r.pre, r.k, r.gap, r.post}
	}
	if !cp.start(tr, id, kit.M{"idle": plan}) {
		return nil
	}
	var calls []c14Call
	small := func() { cp.clock.Advance(time.Duration([]int{0, 1, 3, 20, 150}[rng.Intn(5)]) * time.Millisecond) }
	code := func() string {
		if rng.Intn(3) == 0 {
			return "nil"
		}
		return c14Codes[rng.Intn(len(c14Codes))]
	}
	pick := func() bool {
		call, ok := cp.pick(tr)
		if ok {
			calls = append(calls, call)
		}
		return ok
	}
	finish := func() bool {
		i := rng.Intn(len(calls))
		call := calls[i]
		calls = append(calls[:i], calls[i+1:]...)
		return call.finish(tr, code())
	}
	for _, r := range rounds {
		for len(calls) < r.pre+r.k {
			small()
			if !pick() {
				return nil
			}
		}
		for len(calls) > r.k {
			small()
			if !finish() {
				return nil
			}
		}
		cp.clock.Advance(time.Duration(r.gap) * time.Millisecond)
		for j := 0; j < r.post && len(calls) > 0; j++ {
			if !finish() {
				return nil
			}
			small()
		}
	}
	// picks again
	small()
	if !pick() {
		return nil
	}
	small()
	if !finish() {
		return nil
	}
	small()
	if !pick() {
		return nil
	}
	for len(calls) > 0 {
		small()
		if !finish() {
			return nil
		}
	}
	return nil
}

// the rounds of idle history `id`: the first round runs through all round types, the second one too
// when `pairs` (all pairs of round types), otherwise it and the third are drawn from the seed
func c14IdlePlan(id int, pairs bool, seed int64) (n int, rounds []c14Round) {
	rng := rand.New(rand.NewSource(seed ^ 0x1d1e))
	sizes := []int{1, 2, 3, 8}
	if pairs {
		all := c14Rounds(c14GapsFull)
		k := len(all)
		n = sizes[(id/(k*k)+id)%len(sizes)]
		return n, []c14Round{all[id%k], all[(id/k)%k], all[rng.Intn(k)]}
	}
	all := c14Rounds(c14GapsQuick)
	k := len(all)
	n = sizes[(id/k)%len(sizes)]
	return n, []c14Round{all[id%k], all[rng.Intn(k)], all[rng.Intn(k)]}
}

// stats: 1 kHz picks, every call completes 5 ms later; connection 1 fails every call in phase 1
// and recovers in phase 2
func c14Stats(n, total int, seed int64, deadLat int64) (kit.M, error) {
	cp, err := newC14Picker(n, seed^0x5eed)
	if err != nil {
		return nil, err
	}
	type pend struct {
		c   int
		at  int64
		don func(balancer.DoneInfo)
	}
	var q []pend
	lastPick := make([]int64, n+1)
	for i := range lastPick {
		lastPick[i] = -1
	}
	run := func(phase int, fail bool) kit.M {
		cnt, gap := make([]int64, n), make([]int64, n)
		warm := total / 10
		warmAt := cp.ms()
		for k := 0; k < total; k++ {
			cp.clock.Advance(time.Millisecond)
			now := cp.ms()
			rest := q[:0]
			for _, p := range q {
				if p.at > now {
					rest = append(rest, p)
					continue
				}
				var e error
				if fail && p.c == 1 {
					e = status.Error(codes.Unavailable, "down")
				}
				if ft := c14Guard(func() { p.don(balancer.DoneInfo{Err: e}) }); ft != nil {
					return kit.M{"error": "the completion callback of a call of connection " + fmt.Sprint(p.c) + ": " + ft.detail, "key": "done-" + ft.kind}
				}
			}
			q = rest
			var res balancer.PickResult
			var err error
			if ft := c14Guard(func() { res, err = cp.picker.Pick(c14Info) }); ft != nil {
				return kit.M{"error": "Pick: " + ft.detail, "key": "pick-" + ft.kind}
			}
			if err != nil {
				return kit.M{"error": err.Error()}
			}
			c := cp.byConn[res.SubConn]
			if c == 0 {
				return kit.M{"error": "pick returned a connection that is not ready"}
			}
			lat := int64(5)
			if fail && c == 1 {
				lat = deadLat // the failing backend answers after deadLat ms (fails fast when < 5)
			}
			q = append(q, pend{c: c, at: now + lat, don: res.Done})
			if k >= warm {
				cnt[c-1]++
				ref := lastPick[c]
				if ref < warmAt {
					ref = warmAt
				}
				if g := now - ref; g > gap[c-1] {
					gap[c-1] = g
				}
			} else {
				warmAt = now
			}
			lastPick[c] = now
		}
		for i := 1; i <= n; i++ { // time since the last pick at the end of the run
			ref := lastPick[i]
			if ref < warmAt {
				ref = warmAt
			}
			if g := cp.ms() - ref; g > gap[i-1] {
				gap[i-1] = g
			}
		}
		return cp.proj(kit.M{"phase": phase, "picks": cnt, "max_gap_ms": gap, "counted": total - warm})
	}
	p1 := run(1, true)
	p2 := kit.M{"error": "not run: phase 1 ended early"}
	if _, bad := p1["error"]; !bad {
		p2 = run(2, false)
	}
	return kit.M{"n": n, "dead_lat_ms": deadLat, "total": total, "phase1": p1, "phase2": p2}, nil
}

func TestVerifC14(t *testing.T) {
	logx.Disable()
	defer timex.SetVerifClock(nil)
	build := kit.Env("VERIF_BUILD", os.TempDir())
	mode := kit.Env("VERIF_C14_MODE", "seq")
	seed := kit.Seed()
	out := kit.Env("VERIF_C14_OUT", build+"/c14trace.ndjson")
	only := kit.EnvInt("VERIF_C14_ONLY", -1)
	sizes := []int{1, 2, 3, 8, 2, 3}
	switch mode {
	case "seq":
		tr, err := kit.NewTracer(out)
		if err != nil {
			t.Fatal(err)
		}
		defer tr.Close()
		traces, ops := kit.EnvInt("VERIF_C14_TRACES", 200), kit.EnvInt("VERIF_C14_OPS", 60)
		for id := 0; id < traces; id++ {
			if (only >= 0 && id != only) || c14Enough() {
				continue
			}
			if err := c14SeqTrace(tr, id, sizes[id%len(sizes)], ops, seed*1000003+int64(id)); err != nil {
				t.Fatalf("trace %d: %v", id, err)
			}
		}
	case "conc":
		tr, err := kit.NewTracer(out)
		if err != nil {
			t.Fatal(err)
		}
		defer tr.Close()
		traces, iters := kit.EnvInt("VERIF_C14_TRACES", 20), kit.EnvInt("VERIF_C14_OPS", 500)
		for id := 0; id < traces; id++ {
			if (only >= 0 && id != only) || c14Enough() {
				continue
			}
			if err := c14ConcTrace(tr, id, sizes[id%len(sizes)], 8, iters, seed*1000003+int64(id)); err != nil {
				t.Fatalf("concurrent run %d: %v", id, err)
			}
		}
	case "multi":
		tr, err := kit.NewTracer(out)
		if err != nil {
			t.Fatal(err)
		}
		defer tr.Close()
		traces, ops := kit.EnvInt("VERIF_C14_TRACES", 200), kit.EnvInt("VERIF_C14_OPS", 120)
		for id := 0; id < traces; id++ {
			if (only >= 0 && id != only) || c14Enough() {
				continue
			}
			if err := c14MultiTrace(tr, id, ops, seed*1000003+int64(id)); err != nil {
				t.Fatalf("multi history %d: %v", id, err)
			}
		}
	case "streak":
		tr, err := kit.NewTracer(out)
		if err != nil {
			t.Fatal(err)
		}
		defer tr.Close()
		want := kit.EnvInt("VERIF_C14_STREAK", 22000)
		for id, n := range []int{1, 3} {
			if (only >= 0 && id != only) || c14Enough() {
				continue
			}
			if err := c14StreakTrace(tr, id, n, want, want*7/2, seed*1000003+int64(id)); err != nil {
				t.Fatalf("streak trace %d: %v", id, err)
			}
		}
	case "reorder":
		tr, err := kit.NewTracer(out)
		if err != nil {
			t.Fatal(err)
		}
		defer tr.Close()
		traces := kit.EnvInt("VERIF_C14_TRACES", 150)
		for id := 0; id < traces; id++ {
			if (only >= 0 && id != only) || c14Enough() {
				continue
			}
			if err := c14ReorderTrace(tr, id, []int{1, 2, 3}[id%3], seed*1000003+int64(id)); err != nil {
				t.Fatalf("reorder trace %d: %v", id, err)
			}
		}
	case "idle":
		tr, err := kit.NewTracer(out)
		if err != nil {
			t.Fatal(err)
		}
		defer tr.Close()
		pairs := kit.EnvInt("VERIF_C14_PAIRS", 0) != 0
		k := len(c14Rounds(c14GapsQuick))
		traces := kit.EnvInt("VERIF_C14_TRACES", 4*k)
		if pairs {
			k = len(c14Rounds(c14GapsFull))
			traces = kit.EnvInt("VERIF_C14_TRACES", k*k)
		}
		for id := 0; id < traces; id++ {
			if (only >= 0 && id != only) || c14Enough() {
				continue
			}
			n, rounds := c14IdlePlan(id, pairs, seed*1000003+int64(id))
			if err := c14IdleTrace(tr, id, n, rounds, seed*1000003+int64(id)); err != nil {
				t.Fatalf("idle history %d: %v", id, err)
			}
		}
	case "stats":
		var all []kit.M
		for _, n := range []int{3, 5, 8} {
			for _, deadLat := range []int64{5, 1} {
				m, err := c14Stats(n, kit.EnvInt("VERIF_C14_OPS", 20000), seed*1000003+int64(n), deadLat)
				if err != nil {
					t.Fatal(err)
				}
				all = append(all, m)
			}
		}
		b, _ := json.Marshal(all)
		if err := os.WriteFile(out, b, 0o644); err != nil {
			t.Fatal(err)
		}
	default:
		t.Fatalf("unknown VERIF_C14_MODE %q", mode)
	}
}
