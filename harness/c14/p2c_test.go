package p2c

// Trace driver for property C14 (overlaid into rpc/internal/balancer/p2c by /verif/bin/check).
// It drives pickers built by p2cPickerBuilder (the builder registered as "p2c_ewma") over fake
// ready SubConns with seeded random Pick/Done sequences under the virtual clock
// (timex.SetVerifClock) and logs, after every operation, the projection [infl, succ, lag] of
// every connection.  The log (ndjson) is validated step by step against spec/P2C.tla by
// spec/P2CTrace.tla; this file decides nothing.
//
//   VERIF_C14_MODE=seq    sequential traces (every step validated)
//   VERIF_C14_MODE=conc   8 goroutines per picker; only the quiescent end state is logged
//   VERIF_C14_MODE=streak one backend fails every call, completions 1-5 ms apart (n = 1 and n = 3),
//                         long enough for the "unhealthy after a bounded number of completions" clause
//   VERIF_C14_MODE=reorder two completions of one connection applied out of the order of the times
//                         they read (the first is parked inside its timex.Now() call while the
//                         clock advances and the second runs to the end), n = 1, 2, 3
//   VERIF_C14_MODE=stats  long 1 kHz runs with one dead backend; measured shares and pick gaps
//                         are written as JSON (the thresholds live in checks/c14.py)

import (
	"context"
	"encoding/json"
	"errors"
	"fmt"
	"math/rand"
	"os"
	"sync"
	"sync/atomic"
	"testing"
	"time"

	kit "github.com/gotid/god/internal/verifkit"
	"github.com/gotid/god/lib/logx"
	"github.com/gotid/god/lib/timex"
	"google.golang.org/grpc/balancer"
	"google.golang.org/grpc/balancer/base"
	"google.golang.org/grpc/codes"
	"google.golang.org/grpc/resolver"
	"google.golang.org/grpc/status"
)

type c14Conn struct{ id int }

func (c *c14Conn) UpdateAddresses([]resolver.Address) {}
func (c *c14Conn) Connect()                           {}

const c14Sat = 1000000000 // projection values are saturated here (TLC integers are 32 bit)

func c14SatU(v uint64) int64 {
	if v > c14Sat {
		return c14Sat
	}
	return int64(v)
}

func c14SatI(v int64) int64 {
	if v > c14Sat {
		return c14Sat
	}
	if v < -c14Sat {
		return -c14Sat
	}
	return v
}

type c14Picker struct {
	n      int
	picker balancer.Picker
	p      *p2cPicker
	scs    []*c14Conn
	byConn map[balancer.SubConn]int // SubConn -> 1..n
	sub    []*subConn               // index 1..n -> the picker's record
	clock  *kit.Clock
	base   time.Duration
	// gate: when armed, the next reader of the clock is parked after it has taken its value
	armed   atomic.Bool
	parked  chan struct{}
	release chan struct{}
}

func (cp *c14Picker) now() time.Duration {
	v := cp.clock.Now()
	if cp.armed.CompareAndSwap(true, false) {
		cp.parked <- struct{}{}
		<-cp.release
	}
	return v
}

func newC14Picker(n int, seed int64) (*c14Picker, error) {
	cp := &c14Picker{n: n, byConn: map[balancer.SubConn]int{}, clock: kit.NewClock(),
		parked: make(chan struct{}), release: make(chan struct{})}
	timex.SetVerifClock(cp.now)
	cp.base = cp.clock.Now()
	ready := map[balancer.SubConn]base.SubConnInfo{}
	for i := 1; i <= n; i++ {
		sc := &c14Conn{id: i}
		cp.scs = append(cp.scs, sc)
		cp.byConn[sc] = i
		ready[sc] = base.SubConnInfo{Address: resolver.Address{Addr: fmt.Sprintf("10.0.0.%d:80", i)}}
	}
	cp.picker = new(p2cPickerBuilder).Build(base.PickerBuildInfo{ReadySCs: ready})
	p, ok := cp.picker.(*p2cPicker)
	if !ok {
		return nil, fmt.Errorf("builder returned %T, the driver knows *p2cPicker", cp.picker)
	}
	cp.p = p
	p.r = rand.New(rand.NewSource(seed)) // the pair selection is seeded like every other random choice
	cp.sub = make([]*subConn, n+1)
	for _, c := range p.conns {
		i, ok := cp.byConn[c.conn]
		if !ok {
			return nil, errors.New("picker holds a connection that was not in ReadySCs")
		}
		cp.sub[i] = c
	}
	for i := 1; i <= n; i++ {
		if cp.sub[i] == nil {
			return nil, fmt.Errorf("ready connection %d is not in the picker", i)
		}
	}
	return cp, nil
}

func (cp *c14Picker) ms() int64 { return int64((cp.clock.Now() - cp.base) / time.Millisecond) }

// proj reads [infl, succ, lag(us)] of every connection with atomics.
func (cp *c14Picker) proj(ev kit.M) kit.M {
	infl, succ, lag := make([]int64, cp.n), make([]int64, cp.n), make([]int64, cp.n)
	for i := 1; i <= cp.n; i++ {
		c := cp.sub[i]
		infl[i-1] = c14SatI(atomic.LoadInt64(&c.inflight))
		succ[i-1] = c14SatU(atomic.LoadUint64(&c.success))
		lag[i-1] = c14SatU(atomic.LoadUint64(&c.lag) / 1000)
	}
	ev["infl"], ev["succ"], ev["lag"] = infl, succ, lag
	return ev
}

var c14Codes = []string{"nil", "plain", "OK", "Canceled", "Unknown", "InvalidArgument", "DeadlineExceeded", "NotFound",
	"AlreadyExists", "PermissionDenied", "ResourceExhausted", "FailedPrecondition", "Aborted",
	"OutOfRange", "Unimplemented", "Internal", "Unavailable", "DataLoss", "Unauthenticated"}

func c14Err(code string) error {
	switch code {
	case "nil":
		return nil
	case "plain":
		return errors.New("plain error")
	}
	for c := codes.OK; c <= codes.Unauthenticated; c++ {
		if c.String() == code {
			if c == codes.OK {
				return status.Error(c, "ok") // status.Error(OK) is nil: same as "nil"
			}
			return status.Error(c, code)
		}
	}
	panic("c14: unknown code " + code)
}

type c14Call struct {
	c     int
	start time.Duration
	done  func(balancer.DoneInfo)
}

// advances (ms) and their weights: mostly small gaps, sometimes around the force-pick second
// and the decay time
var c14Adv = []struct{ ms, w int }{{0, 30}, {1, 14}, {5, 8}, {37, 6}, {100, 8}, {250, 5}, {500, 5}, {999, 3}, {1000, 5},
	{1001, 4}, {1500, 3}, {2000, 3}, {5000, 2}, {10000, 2}, {30000, 1}, {120000, 1}}

func c14PickAdv(rng *rand.Rand) int {
	tot := 0
	for _, a := range c14Adv {
		tot += a.w
	}
	x := rng.Intn(tot)
	for _, a := range c14Adv {
		if x < a.w {
			return a.ms
		}
		x -= a.w
	}
	return 0
}

// one sequential trace: ops random operations on a fresh picker with n connections
func c14SeqTrace(tr *kit.Tracer, id, n, ops int, seed int64) error {
	rng := rand.New(rand.NewSource(seed))
	cp, err := newC14Picker(n, seed^0x5eed)
	if err != nil {
		return err
	}
	profile := rng.Intn(4) // 0 mixed codes, 1 connection 1 always fails, 2 all fine, 3 mostly failing
	tr.Emit(kit.M{"ev": "reset", "n": n, "id": id, "profile": profile})
	var calls []c14Call
	for k := 0; k < ops; k++ {
		if adv := c14PickAdv(rng); adv > 0 && cp.ms() < 15*60*1000 {
			cp.clock.Advance(time.Duration(adv) * time.Millisecond)
		}
		doPick := len(calls) == 0 || (len(calls) < 6 && rng.Intn(100) < 55)
		if doPick {
			start := cp.clock.Now()
			res, err := cp.picker.Pick(balancer.PickInfo{FullMethodName: "/verif/C14", Ctx: context.Background()})
			if err != nil {
				return fmt.Errorf("Pick with %d ready connections failed: %v", n, err)
			}
			c := cp.byConn[res.SubConn] // 0 = not one of the ready connections
			tr.Emit(cp.proj(kit.M{"ev": "pick", "c": c, "t": cp.ms()}))
			if c == 0 || res.Done == nil {
				return nil // the rest of the trace cannot be attributed
			}
			calls = append(calls, c14Call{c: c, start: start, done: res.Done})
			continue
		}
		i := rng.Intn(len(calls))
		call := calls[i]
		calls = append(calls[:i], calls[i+1:]...)
		code := c14Codes[rng.Intn(len(c14Codes))]
		switch {
		case profile == 1 && call.c == 1:
			code = "Unavailable"
		case profile == 1 || profile == 2:
			code = "nil"
		case profile == 3 && rng.Intn(4) > 0:
			code = []string{"DeadlineExceeded", "Internal", "Unavailable", "DataLoss", "Unimplemented"}[rng.Intn(5)]
		}
		lat := int64((cp.clock.Now() - call.start) / time.Microsecond)
		call.done(balancer.DoneInfo{Err: c14Err(code)})
		tr.Emit(cp.proj(kit.M{"ev": "done", "c": call.c, "code": code, "lat": lat, "t": cp.ms()}))
	}
	return nil
}

// streak trace: connection 1 fails every call (after one acceptable completion), the others
// succeed; every call completes 1-5 ms after it was picked, which is also at least 1 ms after the
// previous completion.  Runs until connection 1 has completed `want` calls or `maxPicks` picks.
func c14StreakTrace(tr *kit.Tracer, id, n, want, maxPicks int, seed int64) error {
	rng := rand.New(rand.NewSource(seed))
	cp, err := newC14Picker(n, seed^0x5eed)
	if err != nil {
		return err
	}
	tr.Emit(kit.M{"ev": "reset", "n": n, "id": id, "profile": "streak"})
	done1 := 0
	for k := 0; k < maxPicks && done1 < want; k++ {
		start := cp.clock.Now()
		res, err := cp.picker.Pick(balancer.PickInfo{FullMethodName: "/verif/C14", Ctx: context.Background()})
		if err != nil {
			return fmt.Errorf("Pick with %d ready connections failed: %v", n, err)
		}
		c := cp.byConn[res.SubConn]
		tr.Emit(cp.proj(kit.M{"ev": "pick", "c": c, "t": cp.ms()}))
		if c == 0 || res.Done == nil {
			return nil
		}
		cp.clock.Advance(time.Duration(1+rng.Intn(5)) * time.Millisecond)
		code := "nil"
		if c == 1 {
			if done1 > 0 {
				code = []string{"DeadlineExceeded", "Internal", "Unavailable", "DataLoss", "Unimplemented"}[rng.Intn(5)]
			}
			done1++
		}
		lat := int64((cp.clock.Now() - start) / time.Microsecond)
		res.Done(balancer.DoneInfo{Err: c14Err(code)})
		tr.Emit(cp.proj(kit.M{"ev": "done", "c": c, "code": code, "lat": lat, "t": cp.ms()}))
	}
	return nil
}

// reorder trace: a few random operations, then two outstanding calls of one connection complete
// "crosswise": A decrements in-flight and reads the clock (tA), is parked; the clock advances by
// 1-30 s; B completes entirely (reads tB > tA, swaps the connection's last-completion time);
// A continues with its older time.  Logged as dbegin(A, tA), done(B, tB), dend(A, tA).
func c14ReorderTrace(tr *kit.Tracer, id, n int, seed int64) error {
	rng := rand.New(rand.NewSource(seed))
	cp, err := newC14Picker(n, seed^0x5eed)
	if err != nil {
		return err
	}
	tr.Emit(kit.M{"ev": "reset", "n": n, "id": id, "profile": "reorder"})
	var calls []c14Call
	pick := func() (bool, error) {
		start := cp.clock.Now()
		res, err := cp.picker.Pick(balancer.PickInfo{FullMethodName: "/verif/C14", Ctx: context.Background()})
		if err != nil {
			return false, fmt.Errorf("Pick with %d ready connections failed: %v", n, err)
		}
		c := cp.byConn[res.SubConn]
		tr.Emit(cp.proj(kit.M{"ev": "pick", "c": c, "t": cp.ms()}))
		if c == 0 || res.Done == nil {
			return false, nil
		}
		calls = append(calls, c14Call{c: c, start: start, done: res.Done})
		return true, nil
	}
	code := func() string {
		if rng.Intn(2) == 0 {
			return []string{"DeadlineExceeded", "Internal", "Unavailable", "DataLoss", "Unimplemented"}[rng.Intn(5)]
		}
		return []string{"nil", "plain", "OK", "Canceled", "NotFound", "Aborted"}[rng.Intn(6)]
	}
	finish := func(i int) {
		call := calls[i]
		calls = append(calls[:i], calls[i+1:]...)
		cd := code()
		lat := int64((cp.clock.Now() - call.start) / time.Microsecond)
		call.done(balancer.DoneInfo{Err: c14Err(cd)})
		tr.Emit(cp.proj(kit.M{"ev": "done", "c": call.c, "code": cd, "lat": lat, "t": cp.ms()}))
	}
	for round := 0; round < 3; round++ {
		// warm-up: vary scores and estimates
		for k, m := 0, 2+rng.Intn(8); k < m; k++ {
			if adv := c14PickAdv(rng); adv > 0 && cp.ms() < 10*60*1000 {
				cp.clock.Advance(time.Duration(adv) * time.Millisecond)
			}
			if len(calls) == 0 || (len(calls) < 5 && rng.Intn(2) == 0) {
				if ok, err := pick(); err != nil || !ok {
					return err
				}
			} else {
				finish(rng.Intn(len(calls)))
			}
		}
		// two outstanding calls on one connection
		a, b := -1, -1
		for tries := 0; a < 0 && tries < 40; tries++ {
			for i := range calls {
				for j := i + 1; j < len(calls); j++ {
					if calls[i].c == calls[j].c && a < 0 {
						a, b = i, j
					}
				}
			}
			if a < 0 {
				cp.clock.Advance(time.Duration(1+rng.Intn(50)) * time.Millisecond)
				if ok, err := pick(); err != nil || !ok {
					return err
				}
			}
		}
		if a < 0 {
			return nil
		}
		if rng.Intn(2) == 0 {
			a, b = b, a
		}
		ca, cb := calls[a], calls[b]
		rest := calls[:0:0]
		for i, c := range calls {
			if i != a && i != b {
				rest = append(rest, c)
			}
		}
		calls = rest
		cp.clock.Advance(time.Duration(1+rng.Intn(2000)) * time.Millisecond)
		codeA, codeB := code(), code()
		tA := cp.clock.Now()
		fin := make(chan struct{})
		cp.armed.Store(true)
		go func() {
			ca.done(balancer.DoneInfo{Err: c14Err(codeA)})
			close(fin)
		}()
		select {
		case <-cp.parked:
		case <-time.After(10 * time.Second):
			return errors.New("completion A did not read the clock (gate not reached)")
		}
		tr.Emit(cp.proj(kit.M{"ev": "dbegin", "c": ca.c, "t": cp.ms()}))
		delay := []int{1000, 1500, 2000, 3000, 5000, 10000, 30000}[rng.Intn(7)]
		cp.clock.Advance(time.Duration(delay) * time.Millisecond)
		latB := int64((cp.clock.Now() - cb.start) / time.Microsecond)
		cb.done(balancer.DoneInfo{Err: c14Err(codeB)})
		tr.Emit(cp.proj(kit.M{"ev": "done", "c": cb.c, "code": codeB, "lat": latB, "t": cp.ms()}))
		cp.release <- struct{}{}
		select {
		case <-fin:
		case <-time.After(10 * time.Second):
			return errors.New("completion A did not finish after its release")
		}
		tr.Emit(cp.proj(kit.M{"ev": "dend", "c": ca.c, "code": codeA, "lat": int64((tA - ca.start) / time.Microsecond),
			"t": int64((tA - cp.base) / time.Millisecond)}))
	}
	for len(calls) > 0 {
		cp.clock.Advance(time.Duration(1+rng.Intn(300)) * time.Millisecond)
		finish(0)
	}
	return nil
}

// one concurrent run: g goroutines pick and complete on one picker while the clock moves; only
// the quiescent end state is logged, with the driver's own counts and latency bounds
func c14ConcTrace(tr *kit.Tracer, id, n, g, iters int, seed int64) error {
	cp, err := newC14Picker(n, seed^0x5eed)
	if err != nil {
		return err
	}
	tr.Emit(kit.M{"ev": "reset", "n": n, "id": id, "profile": "conc"})
	picks, dones := make([]atomic.Int64, n+1), make([]atomic.Int64, n+1)
	var mu sync.Mutex
	lmin, lmax, seen := make([]int64, n+1), make([]int64, n+1), make([]int64, n+1)
	var bad atomic.Value
	var wg sync.WaitGroup
	for w := 0; w < g; w++ {
		wg.Add(1)
		go func(w int) {
			defer wg.Done()
			rng := rand.New(rand.NewSource(seed*131 + int64(w)))
			for k := 0; k < iters; k++ {
				t0 := cp.clock.Now()
				res, err := cp.picker.Pick(balancer.PickInfo{FullMethodName: "/verif/C14", Ctx: context.Background()})
				t1 := cp.clock.Now()
				if err != nil {
					bad.Store(fmt.Sprintf("Pick failed: %v", err))
					return
				}
				c := cp.byConn[res.SubConn]
				if c == 0 {
					bad.Store("pick returned a connection that is not ready")
					return
				}
				picks[c].Add(1)
				if rng.Intn(3) == 0 {
					cp.clock.Advance(time.Duration(rng.Intn(20)) * time.Millisecond)
				}
				code := c14Codes[rng.Intn(len(c14Codes))]
				t2 := cp.clock.Now()
				res.Done(balancer.DoneInfo{Err: c14Err(code)})
				t3 := cp.clock.Now()
				dones[c].Add(1)
				lo, hi := int64((t2-t1)/time.Microsecond), int64((t3-t0)/time.Microsecond)
				mu.Lock()
				if seen[c] == 0 || lo < lmin[c] {
					lmin[c] = lo
				}
				if seen[c] == 0 || hi > lmax[c] {
					lmax[c] = hi
				}
				seen[c] = 1
				mu.Unlock()
			}
		}(w)
	}
	wg.Wait()
	if m, ok := bad.Load().(string); ok {
		tr.Emit(cp.proj(kit.M{"ev": "pick", "c": 0, "t": cp.ms(), "note": m}))
		return nil
	}
	ev := kit.M{"ev": "state", "t": cp.ms()}
	pk, dn := make([]int64, n), make([]int64, n)
	for i := 1; i <= n; i++ {
		pk[i-1], dn[i-1] = picks[i].Load(), dones[i].Load()
	}
	ev["picks"], ev["dones"], ev["lmin"], ev["lmax"], ev["seen"] = pk, dn, lmin[1:], lmax[1:], seen[1:]
	tr.Emit(cp.proj(ev))
	return nil
}

// stats: 1 kHz picks, every call completes 5 ms later; connection 1 fails every call in phase 1
// and recovers in phase 2
func c14Stats(n, total int, seed int64, deadLat int64) (kit.M, error) {
	cp, err := newC14Picker(n, seed^0x5eed)
	if err != nil {
		return nil, err
	}
	type pend struct {
		c   int
		at  int64
		don func(balancer.DoneInfo)
	}
	var q []pend
	lastPick := make([]int64, n+1)
	for i := range lastPick {
		lastPick[i] = -1
	}
	run := func(phase int, fail bool) kit.M {
		cnt, gap := make([]int64, n), make([]int64, n)
		warm := total / 10
		warmAt := cp.ms()
		for k := 0; k < total; k++ {
			cp.clock.Advance(time.Millisecond)
			now := cp.ms()
			rest := q[:0]
			for _, p := range q {
				if p.at > now {
					rest = append(rest, p)
					continue
				}
				var e error
				if fail && p.c == 1 {
					e = status.Error(codes.Unavailable, "down")
				}
				p.don(balancer.DoneInfo{Err: e})
			}
			q = rest
			res, err := cp.picker.Pick(balancer.PickInfo{FullMethodName: "/verif/C14", Ctx: context.Background()})
			if err != nil {
				return kit.M{"error": err.Error()}
			}
			c := cp.byConn[res.SubConn]
			if c == 0 {
				return kit.M{"error": "pick returned a connection that is not ready"}
			}
			lat := int64(5)
			if fail && c == 1 {
				lat = deadLat // the failing backend answers after deadLat ms (fails fast when < 5)
			}
			q = append(q, pend{c: c, at: now + lat, don: res.Done})
			if k >= warm {
				cnt[c-1]++
				ref := lastPick[c]
				if ref < warmAt {
					ref = warmAt
				}
				if g := now - ref; g > gap[c-1] {
					gap[c-1] = g
				}
			} else {
				warmAt = now
			}
			lastPick[c] = now
		}
		for i := 1; i <= n; i++ { // time since the last pick at the end of the run
			ref := lastPick[i]
			if ref < warmAt {
				ref = warmAt
			}
			if g := cp.ms() - ref; g > gap[i-1] {
				gap[i-1] = g
			}
		}
		return cp.proj(kit.M{"phase": phase, "picks": cnt, "max_gap_ms": gap, "counted": total - warm})
	}
	p1 := run(1, true)
	p2 := run(2, false)
	return kit.M{"n": n, "dead_lat_ms": deadLat, "total": total, "phase1": p1, "phase2": p2}, nil
}

func TestVerifC14(t *testing.T) {
	logx.Disable()
	defer timex.SetVerifClock(nil)
	build := kit.Env("VERIF_BUILD", os.TempDir())
	mode := kit.Env("VERIF_C14_MODE", "seq")
	seed := kit.Seed()
	out := kit.Env("VERIF_C14_OUT", build+"/c14trace.ndjson")
	only := kit.EnvInt("VERIF_C14_ONLY", -1)
	sizes := []int{1, 2, 3, 8, 2, 3}
	switch mode {
	case "seq":
		tr, err := kit.NewTracer(out)
		if err != nil {
			t.Fatal(err)
		}
		defer tr.Close()
		traces, ops := kit.EnvInt("VERIF_C14_TRACES", 200), kit.EnvInt("VERIF_C14_OPS", 60)
		for id := 0; id < traces; id++ {
			if only >= 0 && id != only {
				continue
			}
			if err := c14SeqTrace(tr, id, sizes[id%len(sizes)], ops, seed*1000003+int64(id)); err != nil {
				t.Fatalf("trace %d: %v", id, err)
			}
		}
	case "conc":
		tr, err := kit.NewTracer(out)
		if err != nil {
			t.Fatal(err)
		}
		defer tr.Close()
		traces, iters := kit.EnvInt("VERIF_C14_TRACES", 20), kit.EnvInt("VERIF_C14_OPS", 500)
		for id := 0; id < traces; id++ {
			if only >= 0 && id != only {
				continue
			}
			if err := c14ConcTrace(tr, id, sizes[id%len(sizes)], 8, iters, seed*1000003+int64(id)); err != nil {
				t.Fatalf("concurrent run %d: %v", id, err)
			}
		}
	case "streak":
		tr, err := kit.NewTracer(out)
		if err != nil {
			t.Fatal(err)
		}
		defer tr.Close()
		want := kit.EnvInt("VERIF_C14_STREAK", 22000)
		for id, n := range []int{1, 3} {
			if only >= 0 && id != only {
				continue
			}
			if err := c14StreakTrace(tr, id, n, want, want*7/2, seed*1000003+int64(id)); err != nil {
				t.Fatalf("streak trace %d: %v", id, err)
			}
		}
	case "reorder":
		tr, err := kit.NewTracer(out)
		if err != nil {
			t.Fatal(err)
		}
		defer tr.Close()
		traces := kit.EnvInt("VERIF_C14_TRACES", 150)
		for id := 0; id < traces; id++ {
			if only >= 0 && id != only {
				continue
			}
			if err := c14ReorderTrace(tr, id, []int{1, 2, 3}[id%3], seed*1000003+int64(id)); err != nil {
				t.Fatalf("reorder trace %d: %v", id, err)
			}
		}
	case "stats":
		var all []kit.M
		for _, n := range []int{3, 5, 8} {
			for _, deadLat := range []int64{5, 1} {
				m, err := c14Stats(n, kit.EnvInt("VERIF_C14_OPS", 20000), seed*1000003+int64(n), deadLat)
				if err != nil {
					t.Fatal(err)
				}
				all = append(all, m)
			}
		}
		b, _ := json.Marshal(all)
		if err := os.WriteFile(out, b, 0o644); err != nil {
			t.Fatal(err)
		}
	default:
		t.Fatalf("unknown VERIF_C14_MODE %q", mode)
	}
}
