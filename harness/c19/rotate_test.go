package logx

// Trace recorder for property C19 (overlaid into lib/logx by /verif/bin/check).
//
// It executes TLC-generated write histories (spec/RotateLogGen.tla) on the real RotateLogger
// (NewLogger / Write / Close) in a scratch directory and, after every Write and after Close,
// reads the directory back (gunzipping compressed backups) and records which record ids are in
// which file.  The driver judges nothing: spec/RotateLogTrace.tla decides.
//
// Family "config" (cfg.via = "config"): the writers are built the way the logging configuration
// builds them - newFileWriter(Config{Path, Rotation, MaxSize (MB), MaxBackups, KeepDays,
// Compress}), i.e. handleOptions + createOutput, as Setup(Mode "file") does - and the access-log
// RotateLogger it returns is driven; the relation is evaluated against the CONFIGURED values.
//
// In-package only for: a SizeLimitRotateRule with a maximum in bytes (the public constructor
// takes megabytes) and DailyRotateRule.rotatedTime (simulated day change).  The logger is given
// a driver-supplied RotateRule that delegates ShallRotate / MarkRotated / OutdatedFiles to the
// real rule; it (a) recognises the driver's empty barrier record (the n-th ShallRotate call is
// the n-th record: once the writer goroutine asks about the barrier record, every earlier
// record is completely processed) and (b) in "counter" mode produces backup names in the real
// rule's format but with a synthetic, strictly increasing time, so that rotations need not be a
// real second (size rule) or a real day (daily rule) apart.  In "real" mode BackupFilename is
// the real rule's and the driver keeps file starts 1.1 s apart.

import (
	"bytes"
	"compress/gzip"
	"fmt"
	"io"
	"os"
	"path/filepath"
	"regexp"
	"runtime"
	"sort"
	"strconv"
	"strings"
	"sync/atomic"
	"testing"
	"time"

	kit "github.com/gotid/god/internal/verifkit"
)

type c19Cfg struct {
	Rule       string
	MaxSize    int // bytes
	MaxBackups int
	Days       int
	Gzip       bool
	Delim      string
	Names      string // "counter" | "real"
	Pre        []int  // ages of the pre-existing backups, hours
	PreCur     int    // bytes already in the current file
	Via        string // "" = NewLogger with a rule built directly | "config" = newFileWriter(Config): the logging configuration path
}

func c19ParseCfg(m kit.M) c19Cfg {
	c := c19Cfg{Rule: kit.Str(m["rule"]), MaxSize: kit.Num(m["maxSize"]), MaxBackups: kit.Num(m["maxBackups"]),
		Days: kit.Num(m["days"]), Gzip: kit.Bool(m["gzip"]), Delim: kit.Str(m["delim"]), Names: kit.Str(m["names"]),
		PreCur: kit.Num(m["precur"]), Via: kit.Str(m["via"])}
	for _, a := range kit.List(m["pre"]) {
		c.Pre = append(c.Pre, kit.Num(a))
	}
	if c.Delim == "" {
		c.Delim = backupFileDelimiter
	}
	return c
}

// c19Rule is the RotateRule handed to NewLogger.
type c19Rule struct {
	inner    RotateRule
	daily    *DailyRotateRule
	w        *c19World
	calls    atomic.Int64
	markerAt atomic.Int64
	sig      chan struct{}
	k        int
}

func (r *c19Rule) BackupFilename() string {
	if r.w.cfg.Names != "counter" {
		return r.inner.BackupFilename()
	}
	r.k++
	w := r.w
	if w.cfg.Rule == "size" {
		t := w.now0.Add(-1800 * time.Second).Add(time.Duration(r.k) * time.Second)
		return filepath.Join(w.dir, fmt.Sprintf("%s%s%s%s", w.prefix, w.cfg.Delim, t.Format(fileTimeFormat), w.ext))
	}
	return fmt.Sprintf("%s%s%s.%03d", w.filename, w.cfg.Delim, w.now0.Format(dateFormat), r.k)
}
func (r *c19Rule) MarkRotated()            { r.inner.MarkRotated() }
func (r *c19Rule) OutdatedFiles() []string { return r.inner.OutdatedFiles() }
func (r *c19Rule) ShallRotate(size int64) bool {
	if n := r.calls.Add(1); n == r.markerAt.Load() {
		select {
		case r.sig <- struct{}{}:
		default:
		}
		return false
	}
	return r.inner.ShallRotate(size)
}

type c19World struct {
	cfg      c19Cfg
	dir      string
	filename string
	prefix   string // size rule: base name without extension
	ext      string
	now0     time.Time
	day0     time.Time
	sizes    map[int]int // issued record sizes by id
	rule     *c19Rule
	lg       *RotateLogger
	base     int
	sent     int64
	ignore   map[string]bool // other log files of the configuration (never written by the driver)
}

var c19Line = regexp.MustCompile(`^#(\d+) x*$`)

func c19Record(id, size int) ([]byte, error) {
	head := fmt.Sprintf("#%d ", id)
	if size < len(head)+1 {
		return nil, fmt.Errorf("record size %d too small for id %d", size, id)
	}
	b := make([]byte, 0, size)
	b = append(b, head...)
	for len(b) < size-1 {
		b = append(b, 'x')
	}
	return append(b, '\n'), nil
}

// parse file content into record ids; a record whose length is not the issued one is -id
func (w *c19World) parse(data []byte) (recs []int, junk int) {
	recs = []int{}
	for len(data) > 0 {
		i := bytes.IndexByte(data, '\n')
		if i < 0 {
			junk += len(data)
			break
		}
		line := data[:i]
		data = data[i+1:]
		m := c19Line.FindSubmatch(line)
		if m == nil {
			junk += i + 1
			continue
		}
		id, _ := strconv.Atoi(string(m[1]))
		if w.sizes[id] != i+1 {
			id = -id
		}
		recs = append(recs, id)
	}
	return
}

func c19ReadFile(path string, gz bool) ([]byte, error) {
	data, err := os.ReadFile(path)
	if err != nil || !gz {
		return data, err
	}
	zr, err := gzip.NewReader(bytes.NewReader(data))
	if err != nil {
		return nil, err
	}
	return io.ReadAll(zr)
}

// backupName of a pre-existing backup whose name carries time t, in the real rules' formats
func (w *c19World) backupName(t time.Time) string {
	var name string
	if w.cfg.Rule == "size" {
		name = filepath.Join(w.dir, fmt.Sprintf("%s%s%s%s", w.prefix, w.cfg.Delim, t.Format(fileTimeFormat), w.ext))
	} else {
		name = fmt.Sprintf("%s%s%s", w.filename, w.cfg.Delim, t.Format(dateFormat))
	}
	if w.cfg.Gzip {
		name += gzipExt
	}
	return name
}

// parseName maps a backup file name to (ts, ageh): ts orders the backups as their names do,
// ageh is the age in hours, at the start of the case, of the time the name carries.
func (w *c19World) parseName(base string) (ts, ageh int, gz, ok bool) {
	rest := base
	if strings.HasSuffix(rest, gzipExt) {
		gz = true
		rest = strings.TrimSuffix(rest, gzipExt)
	}
	var t time.Time
	var err error
	if w.cfg.Rule == "size" {
		head := w.prefix + w.cfg.Delim
		if !strings.HasPrefix(rest, head) || !strings.HasSuffix(rest, w.ext) {
			return
		}
		rest = strings.TrimSuffix(strings.TrimPrefix(rest, head), w.ext)
		if t, err = time.Parse(fileTimeFormat, rest); err != nil {
			return
		}
		ts = int(t.Unix() - w.now0.Unix())
	} else {
		head := filepath.Base(w.filename) + w.cfg.Delim
		if !strings.HasPrefix(rest, head) {
			return
		}
		rest = strings.TrimPrefix(rest, head)
		k := 0
		if len(rest) > len(dateFormat) {
			if rest[len(dateFormat)] != '.' {
				return
			}
			if k, err = strconv.Atoi(rest[len(dateFormat)+1:]); err != nil {
				return
			}
			rest = rest[:len(dateFormat)]
		}
		if t, err = time.ParseInLocation(dateFormat, rest, time.Local); err != nil {
			return
		}
		days := int((w.day0.Sub(t) + 12*time.Hour) / (24 * time.Hour))
		ts = -days*86400 + k
	}
	if d := w.now0.Sub(t); d > 0 {
		ageh = int(d / time.Hour)
	}
	return ts, ageh, gz, true
}

// observe reads the directory back.
func (w *c19World) observe() (kit.M, error) {
	ents, err := os.ReadDir(w.dir)
	if err != nil {
		return nil, err
	}
	obs := kit.M{"cur": []int{}, "cb": -1}
	junk, alien := 0, 0
	files := []kit.M{}
	seen := map[int]bool{}
	for _, e := range ents {
		p := filepath.Join(w.dir, e.Name())
		if p == w.filename {
			data, err := os.ReadFile(p)
			if err != nil {
				return nil, err
			}
			recs, j := w.parse(data)
			junk += j
			obs["cur"], obs["cb"] = recs, len(data)
			continue
		}
		if w.ignore[e.Name()] {
			continue
		}
		ts, ageh, gz, ok := w.parseName(e.Name())
		if !ok || seen[ts] {
			alien++
			continue
		}
		seen[ts] = true
		data, err := c19ReadFile(p, gz)
		if err != nil {
			// an unreadable (e.g. half-written gzip) backup: its records are not present
			junk++
			data = nil
		}
		recs, j := w.parse(data)
		junk += j
		files = append(files, kit.M{"ts": ts, "ageh": ageh, "gz": gz, "recs": recs})
	}
	sort.Slice(files, func(i, j int) bool { return files[i]["ts"].(int) < files[j]["ts"].(int) })
	obs["files"], obs["junk"], obs["alien"] = files, junk, alien
	return obs, nil
}

func (w *c19World) barrier() error {
	w.sent++
	w.rule.markerAt.Store(w.sent)
	if _, err := w.lg.Write([]byte{}); err != nil {
		return fmt.Errorf("barrier record refused: %v", err)
	}
	select {
	case <-w.rule.sig:
	case <-time.After(30 * time.Second):
		return fmt.Errorf("writer goroutine did not reach the barrier record\n%s", kit.Stacks())
	}
	if !kit.WaitGoroutines(w.base, 30*time.Second) {
		return fmt.Errorf("goroutines did not settle: have %d want <= %d\n%s", runtime.NumGoroutine(), w.base, kit.Stacks())
	}
	return nil
}

func runC19Case(c kit.Case, root string, tr *kit.Tracer, rep *kit.Reporter) (v kit.Verdict) {
	v = kit.Verdict{Case: c.Index, OK: true}
	infra := func(err error) kit.Verdict {
		return kit.Verdict{Case: c.Index, Infra: true, Msg: fmt.Sprintf("case %d: %v", c.Index, err)}
	}
	if len(c.Steps) == 0 || kit.Str(c.Steps[0]["op"]) != "init" {
		return infra(fmt.Errorf("history does not start with init"))
	}
	cfgm, _ := c.Steps[0]["cfg"].(map[string]any)
	w := &c19World{cfg: c19ParseCfg(cfgm), sizes: map[int]int{}}
	w.dir = filepath.Join(root, fmt.Sprintf("case-%d", c.Index))
	os.RemoveAll(w.dir)
	if err := os.MkdirAll(w.dir, 0o755); err != nil {
		return infra(err)
	}
	defer os.RemoveAll(w.dir)
	w.filename = filepath.Join(w.dir, "app.log")
	if w.cfg.Via == "config" {
		w.filename = filepath.Join(w.dir, accessFilename)
		w.ignore = map[string]bool{errorFilename: true, severeFilename: true, slowFilename: true, statFilename: true}
		if w.cfg.Names != "real" || w.cfg.Delim != backupFileDelimiter {
			return infra(fmt.Errorf("the config family uses the real backup names and delimiter"))
		}
	}
	w.ext = filepath.Ext(w.filename)
	w.prefix = strings.TrimSuffix(filepath.Base(w.filename), w.ext)
	w.now0 = time.Now()
	y, m, d := w.now0.Date()
	w.day0 = time.Date(y, m, d, 0, 0, 0, 0, time.Local)

	// pre-existing backups and current file
	for i, age := range w.cfg.Pre {
		var content []byte
		for j := 1; j <= 2; j++ {
			id := 1000 + 10*(i+1) + j
			rec, _ := c19Record(id, 10)
			w.sizes[id] = 10
			content = append(content, rec...)
		}
		name := w.backupName(w.now0.Add(-time.Duration(age) * time.Hour))
		if w.cfg.Gzip {
			var buf bytes.Buffer
			zw := gzip.NewWriter(&buf)
			zw.Write(content)
			zw.Close()
			content = buf.Bytes()
		}
		if _, err := os.Stat(name); err == nil {
			return infra(fmt.Errorf("two pre-existing backups share the name %s", name))
		}
		if err := os.WriteFile(name, content, 0o600); err != nil {
			return infra(err)
		}
	}
	if w.cfg.PreCur > 0 {
		rec, err := c19Record(900, w.cfg.PreCur)
		if err != nil {
			return infra(err)
		}
		w.sizes[900] = w.cfg.PreCur
		if err := os.WriteFile(w.filename, rec, 0o600); err != nil {
			return infra(err)
		}
	}

	// the real rule, wrapped
	rule := &c19Rule{w: w, sig: make(chan struct{}, 1)}
	w.rule = rule
	var lg *RotateLogger
	closeAll := func() error { return lg.Close() }
	if w.cfg.Via == "config" {
		// the logging configuration path: options + createOutput for the five log files
		conf := Config{Path: w.dir, Rotation: w.cfg.Rule, KeepDays: w.cfg.Days, MaxBackups: w.cfg.MaxBackups,
			Compress: w.cfg.Gzip, StackCooldownMillis: 100}
		if w.cfg.MaxSize%megaBytes != 0 {
			return infra(fmt.Errorf("config family: maxSize must be whole megabytes"))
		}
		conf.MaxSize = w.cfg.MaxSize / megaBytes
		options = logOptions{} // the option set is package-global: start from the defaults
		w.base = runtime.NumGoroutine()
		wr, err := newFileWriter(conf)
		if err != nil {
			return infra(err)
		}
		cw, ok := wr.(*concreteWriter)
		if !ok {
			return infra(fmt.Errorf("newFileWriter returned %T", wr))
		}
		if lg, ok = cw.infoLog.(*RotateLogger); !ok {
			return infra(fmt.Errorf("access log is a %T", cw.infoLog))
		}
		if lg.filename != w.filename {
			return infra(fmt.Errorf("access log file is %s, expected %s", lg.filename, w.filename))
		}
		// keep the rule createOutput built; only put the barrier-recognising wrapper in front of it
		// (the writer goroutine is idle: nothing has been written yet)
		rule.inner = lg.rule
		rule.daily, _ = lg.rule.(*DailyRotateRule)
		lg.rule = rule
		closeAll = wr.Close
		w.base += 5
		rep.Count("config_path_"+w.cfg.Rule, 1)
	} else {
		switch w.cfg.Rule {
		case "size":
			if w.cfg.MaxSize > 0 && w.cfg.MaxSize%megaBytes == 0 {
				rule.inner = NewSizeLimitRotateRule(w.filename, w.cfg.Delim, w.cfg.Days, w.cfg.MaxSize/megaBytes, w.cfg.MaxBackups, w.cfg.Gzip)
				rep.Count("rule_size_public_ctor", 1)
			} else {
				r := NewSizeLimitRotateRule(w.filename, w.cfg.Delim, w.cfg.Days, 1, w.cfg.MaxBackups, w.cfg.Gzip).(*SizeLimitRotateRule)
				r.maxSize = int64(w.cfg.MaxSize)
				rule.inner = r
			}
		case "daily":
			r := DefaultRotateRule(w.filename, w.cfg.Delim, w.cfg.Days, w.cfg.Gzip).(*DailyRotateRule)
			rule.inner, rule.daily = r, r
		default:
			return infra(fmt.Errorf("unknown rule %q", w.cfg.Rule))
		}
		w.base = runtime.NumGoroutine()
		var err error
		if lg, err = NewLogger(w.filename, rule, w.cfg.Gzip); err != nil {
			return infra(err)
		}
		w.base++
	}
	w.lg = lg
	closed := false
	defer func() {
		if !closed {
			closeAll()
		}
	}()
	lastStart := time.Now()

	obs, err := w.observe()
	if err != nil {
		return infra(err)
	}
	nfiles := len(obs["files"].([]kit.M))
	obs["ev"], obs["h"] = "init", c.Index
	obs["cfg"] = kit.M{"rule": w.cfg.Rule, "maxSize": w.cfg.MaxSize, "maxBackups": w.cfg.MaxBackups, "days": w.cfg.Days,
		"gzip": w.cfg.Gzip, "slack": 0}
	seenTs := map[int]bool{}
	for _, f := range obs["files"].([]kit.M) {
		seenTs[f["ts"].(int)] = true
	}
	if nfiles != len(w.cfg.Pre) {
		return infra(fmt.Errorf("%d pre-existing backups created, %d seen", len(w.cfg.Pre), nfiles))
	}
	tr.Emit(obs)

	id := 0
	for _, st := range c.Steps[1:] {
		switch op := kit.Str(st["op"]); op {
		case "write":
			id++
			size := kit.Num(st["size"])
			rec, err := c19Record(id, size)
			if err != nil {
				return infra(err)
			}
			w.sizes[id] = size
			if w.cfg.Names == "real" && w.cfg.Rule == "size" {
				// backup names have one-second resolution: keep file starts 1.1 s apart
				if d := time.Until(lastStart.Add(1100 * time.Millisecond)); d > 0 {
					time.Sleep(d)
					rep.Count("real_name_waits", 1)
				}
			}
			w.sent++
			n, err := lg.Write(rec)
			if err != nil || n != len(rec) {
				return infra(fmt.Errorf("Write before Close returned (%d, %v)", n, err))
			}
			if err := w.barrier(); err != nil {
				return infra(err)
			}
			obs, err := w.observe()
			if err != nil {
				return infra(err)
			}
			for _, f := range obs["files"].([]kit.M) {
				if ts := f["ts"].(int); !seenTs[ts] {
					// a backup that was not there before: the logger rotated and started a new file
					seenTs[ts] = true
					lastStart = time.Now()
					rep.Count("rotations_seen", 1)
					if w.cfg.Via == "config" {
						rep.Count("config_path_rotations", 1)
					}
				}
			}
			obs["ev"], obs["id"], obs["size"] = "write", id, size
			tr.Emit(obs)
		case "daychange":
			if rule.daily == nil {
				return infra(fmt.Errorf("daychange under rule %s", w.cfg.Rule))
			}
			rule.daily.rotatedTime = "2000-01-01" // the writer goroutine is idle (barrier)
			tr.Emit(kit.M{"ev": "daychange"})
			rep.Count("daychanges", 1)
		case "close":
			cerr := closeAll()
			closed = true
			if w.cfg.Via == "config" {
				w.base -= 5
			} else {
				w.base--
			}
			if !kit.WaitGoroutines(w.base, 30*time.Second) {
				return infra(fmt.Errorf("goroutines did not settle after Close\n%s", kit.Stacks()))
			}
			obs, err := w.observe()
			if err != nil {
				return infra(err)
			}
			obs["ev"], obs["err"] = "close", ""
			if cerr != nil {
				obs["err"] = cerr.Error()
				rep.Count("close_errors", 1)
			}
			tr.Emit(obs)
		default:
			return infra(fmt.Errorf("unknown op %q", op))
		}
		v.Steps++
	}
	return v
}

func TestVerifC19(t *testing.T) {
	Disable() // the logger's own diagnostics (compress / delete messages) are not under test
	cases, err := kit.LoadCases(kit.Env("VERIF_CASES", ""))
	if err != nil {
		t.Fatal(err)
	}
	rep, err := kit.NewReporter(kit.Env("VERIF_OUT", ""))
	if err != nil {
		t.Fatal(err)
	}
	defer rep.Close()
	shard, shards := kit.EnvInt("VERIF_SHARD", 0), kit.EnvInt("VERIF_SHARDS", 1)
	tr, err := kit.NewTracer(fmt.Sprintf("%s-%d.ndjson", kit.Env("VERIF_TRACE", "c19trace"), shard))
	if err != nil {
		t.Fatal(err)
	}
	defer tr.Close()
	root := filepath.Join(kit.Env("VERIF_BUILD", os.TempDir()), "c19dirs", fmt.Sprintf("%s-%d", kit.Env("VERIF_LABEL", "x"), shard))
	os.MkdirAll(root, 0o755)
	defer os.RemoveAll(root)
	for _, c := range cases {
		if c.Index%shards != shard {
			continue
		}
		rep.Put(runC19Case(c, root, tr, rep))
	}
	rep.Count("events", int(tr.N))
}
