package logx

// Trace recorder for property C19 (overlaid into lib/logx by /verif/bin/check).
//
// It executes TLC-generated write histories (spec/RotateLogGen.tla) on the real rotating log
// writers in a scratch directory and, after every step, reads the directory back (gunzipping
// compressed backups) and records which record ids are in which file.  The driver judges
// nothing: spec/RotateLogTrace.tla decides.
//
// Families (cfg.via):
//   ""        NewLogger(filename, rule, compress) with a rule built directly, Write, Close.
//   "config"  the writers are built the way the logging configuration builds them -
//             newFileWriter(Config{Path, Rotation, MaxSize (MB), MaxBackups, KeepDays, Compress}),
//             i.e. handleOptions + createOutput - and the access-log RotateLogger is driven.
//   "public"  the public API: Setup(Config{Mode: "file", ...}), then Info / Error / Slow / Stat /
//             Severe with self-identifying contents, then Close().  Each of the five log files is
//             its own writer and its own history in the trace; the package state that Setup
//             guards (setupOnce, writer, options, disableLog) is reset per case.
// Steps: write (followed by a barrier), burst (several writes with no barrier between them: they
// race the post-rotation compress/clean-up goroutine; the directory is read at quiescence; a
// burst longer than the writer's queue is a "flood": the single producer finds the queue full),
// daychange (daily rule, simulated through the rule), close, closeq (writes still queued when
// Close is called).
//
// In-package for: a SizeLimitRotateRule maximum in bytes, DailyRotateRule.rotatedTime (simulated
// day change), the option/once state reset, and the barrier: every logger's rule is fronted by
// a driver-supplied RotateRule that delegates ShallRotate / MarkRotated / OutdatedFiles to the
// real rule.  It (a) recognises the driver's empty barrier record (ShallRotate is asked exactly
// once per record in queue order and the driver knows how many records were queued; once the
// writer goroutine asks about the barrier record, every earlier record is completely processed)
// and (b) in "counter" mode produces backup names in the real rule's format but with a
// synthetic, strictly increasing time, so that rotations need not be a real second (size rule)
// or a real day (daily rule) apart.  In "real" mode BackupFilename is the real rule's and the
// driver keeps file starts 1.1 s apart.

import (
	"bytes"
	"compress/gzip"
	"encoding/json"
	"fmt"
	"io"
	"os"
	"path/filepath"
	"regexp"
	"runtime"
	"sort"
	"strconv"
	"strings"
	"sync"
	"sync/atomic"
	"testing"
	"time"

	kit "github.com/gotid/god/internal/verifkit"
)

type c19Cfg struct {
	Rule       string
	MaxSize    int // bytes
	MaxBackups int
	Days       int
	Gzip       bool
	Delim      string
	Names      string // "counter" | "real" | "yesterday" | "hours"
	Pre        []int  // ages of the pre-existing backups, hours ("hours": hours after the base midnight)
	Rot        []int  // "hours": the k-th file is started this many hours after the base midnight
	PreGz      string // "" = as Gzip | "mixed" = every second pre-existing backup the other way
	PreCur     int    // bytes already in the current file
	Via        string
}

func c19ParseCfg(m kit.M) c19Cfg {
	c := c19Cfg{Rule: kit.Str(m["rule"]), MaxSize: kit.Num(m["maxSize"]), MaxBackups: kit.Num(m["maxBackups"]),
		Days: kit.Num(m["days"]), Gzip: kit.Bool(m["gzip"]), Delim: kit.Str(m["delim"]), Names: kit.Str(m["names"]),
		PreCur: kit.Num(m["precur"]), Via: kit.Str(m["via"]), PreGz: kit.Str(m["pregz"])}
	for _, a := range kit.List(m["pre"]) {
		c.Pre = append(c.Pre, kit.Num(a))
	}
	for _, a := range kit.List(m["rot"]) {
		c.Rot = append(c.Rot, kit.Num(a))
	}
	if c.Delim == "" {
		c.Delim = backupFileDelimiter
	}
	return c
}

// c19Rule fronts the real rule of one logger.
type c19Rule struct {
	inner RotateRule
	daily *DailyRotateRule
	w     *c19World
	f     *c19Fam
	sig   chan struct{}
	k     int
	nrot  atomic.Int64
	// barrier bookkeeping: ShallRotate is asked exactly once per record, in queue order
	calls    atomic.Int64 // ShallRotate calls so far
	markerAt atomic.Int64 // the call with this number is the driver's empty barrier record
	markers  int64        // barrier records sent so far (driver goroutine only)
	// the name handed out by the latest BackupFilename call and the instant it stands for: the logger
	// uses it at the NEXT rotation (guarded by w.regMu)
	pendName string
	pendT    time.Time
}

// c19NameLayout is the layout of the time in a size-rule backup name as the logger documents it
// (RFC 3339).  The driver names the pre-existing backups with it and never DECODES a backup name
// with the package's own layout constant: which instant a backup stands for is known to the driver
// (c19World.reg), so that "newest" and "older than" are judged in true time order whatever the
// names look like.
const c19NameLayout = time.RFC3339

// named: BackupFilename has just handed out `name` for the file started at instant t.  The name
// handed out before is the one the rotation that led to this call has renamed the old file to.
func (w *c19World) named(r *c19Rule, name string, t time.Time) {
	w.regMu.Lock()
	defer w.regMu.Unlock()
	if r.pendName != "" {
		w.reg[filepath.Base(r.pendName)] = r.pendT
	}
	r.pendName, r.pendT = name, t
}

// hourTime: `off` hours (and 30 minutes) after the local midnight three days before the case
func (w *c19World) hourTime(off int) time.Time {
	y, m, d := w.now0.Date()
	return time.Date(y, m, d-3, off, 30, 0, 0, time.Local)
}

// rotOff: start of the k-th file (k = 1, 2, ...) in hours after the base midnight; beyond the
// configured instants one hour apart
func (w *c19World) rotOff(k int) int {
	n := len(w.cfg.Rot)
	if n == 0 {
		return k
	}
	if k <= n {
		return w.cfg.Rot[k-1]
	}
	return w.cfg.Rot[n-1] + (k - n)
}

func (r *c19Rule) BackupFilename() string {
	n := r.nrot.Add(1)
	if r.w.cfg.Names == "yesterday" && n == 1 {
		// the current file was started yesterday: the real daily name of yesterday
		return fmt.Sprintf("%s%s%s", r.f.filename, r.w.cfg.Delim, r.w.now0.Add(-24*time.Hour).Format(dateFormat))
	}
	w, f := r.w, r.f
	if w.cfg.Names != "counter" && w.cfg.Names != "hours" {
		t := time.Now()
		name := r.inner.BackupFilename()
		if w.cfg.Rule == "size" {
			w.named(r, name, t)
		}
		return name
	}
	r.k++
	if w.cfg.Rule == "size" {
		// the name the real rule gives to a file started at instant t (SizeLimitRotateRule.BackupFilename
		// with the clock at t; the package has no clock hook)
		t := w.now0.Add(-1800 * time.Second).Add(time.Duration(r.k) * time.Second)
		if w.cfg.Names == "hours" {
			t = w.hourTime(w.rotOff(r.k))
			if h := t.Hour(); h >= 1 && h <= 12 {
				w.hoursAM.Add(1)
			} else {
				w.hoursPM.Add(1)
			}
		}
		name := filepath.Join(w.dir, fmt.Sprintf("%s%s%s%s", f.prefix, w.cfg.Delim, t.Format(fileTimeFormat), f.ext))
		w.named(r, name, t)
		return name
	}
	return fmt.Sprintf("%s%s%s.%03d", f.filename, w.cfg.Delim, w.now0.Format(dateFormat), r.k)
}
func (r *c19Rule) MarkRotated()            { r.inner.MarkRotated() }
func (r *c19Rule) OutdatedFiles() []string { return r.inner.OutdatedFiles() }
func (r *c19Rule) ShallRotate(size int64) bool {
	if n := r.calls.Add(1); n == r.markerAt.Load() {
		select {
		case r.sig <- struct{}{}:
		default:
		}
		return false
	}
	return r.inner.ShallRotate(size)
}

// c19Fam is one log file with its backups (one RotateLogger).
type c19Fam struct {
	name      string // "" | info | error | slow | stat | severe
	level     string // public family: the level the entries of this file carry
	filename  string
	prefix    string
	ext       string
	lg        *RotateLogger
	rule      *c19Rule
	lastStart time.Time
	seenTs    map[int]bool
	events    []kit.M
	written   bool
	sent      atomic.Int64 // records handed to this logger (by the driver, or - public family - by anybody)
}

// c19CountW counts the records handed to a logger through the public API (the driver's and the
// logger's own diagnostics alike), so that the barrier knows how many ShallRotate calls to await.
type c19CountW struct {
	f  *c19Fam
	lg *RotateLogger
}

func (c *c19CountW) Write(p []byte) (int, error) {
	c.f.sent.Add(1)
	return c.lg.Write(p)
}
func (c *c19CountW) Close() error { return c.lg.Close() }

// c19WorkersParked: every writer goroutine (RotateLogger.startWorker) is blocked in its select,
// i.e. none of them is in the middle of a write.
func c19WorkersParked() bool {
	for _, g := range strings.Split(kit.Stacks(), "\n\n") {
		if strings.Contains(g, "(*RotateLogger).startWorker.func") {
			head := g[:strings.IndexByte(g+"\n", '\n')]
			if !strings.Contains(head, "[select") {
				return false
			}
		}
	}
	return true
}

var c19Resyncs atomic.Int64

// sync: once the writer goroutine asks ShallRotate about the driver's empty record, every
// record queued before it is completely processed.  The fast path counts ShallRotate calls
// (one per record on the unchanged code).  The barrier must not depend on that: when the count
// does not arrive although the queue is empty and every writer goroutine is parked in its
// select, the logger has consumed the records some other way; the barrier then goes by the
// goroutine states and the files decide.
func (f *c19Fam) sync() (raced bool, err error) {
	r := f.rule
	start := time.Now()
	lastCalls, lastChange := r.calls.Load(), start
	// r.markers = ShallRotate calls so far that were not for a counted record (barrier records, or
	// minus the records the logger consumed without asking)
	for r.calls.Load() < f.sent.Load()+r.markers { // everything queued so far has passed ShallRotate
		now := time.Now()
		if c := r.calls.Load(); c != lastCalls {
			lastCalls, lastChange = c, now
		}
		if now.Sub(lastChange) > 2*time.Millisecond && len(f.lg.channel) == 0 && c19WorkersParked() && len(f.lg.channel) == 0 {
			if r.calls.Load() >= f.sent.Load()+r.markers {
				break // it arrived meanwhile
			}
			// fewer ShallRotate calls than records, yet nothing is queued and nobody is writing
			if kit.Env("VERIF_DEBUG", "") != "" {
				fmt.Printf("RESYNC fam=%q calls=%d sent=%d markers=%d\n", f.name, r.calls.Load(), f.sent.Load(), r.markers)
			}
			c19Resyncs.Add(1)
			break
		}
		if now.Sub(start) > 60*time.Second {
			return false, fmt.Errorf("writer goroutine of %q is stuck: %d records, %d ShallRotate calls\n%s",
				f.name, f.sent.Load()+r.markers, r.calls.Load(), kit.Stacks())
		}
		runtime.Gosched()
	}
	select { // drop a stale signal
	case <-r.sig:
	default:
	}
	before := f.sent.Load()
	r.markerAt.Store(r.calls.Load() + 1) // the writer is idle: the next record it asks about is the barrier record
	if _, err := f.lg.Write([]byte{}); err != nil {
		return false, fmt.Errorf("barrier record refused: %v", err)
	}
	select {
	case <-r.sig:
	case <-time.After(30 * time.Second):
		if !(len(f.lg.channel) == 0 && c19WorkersParked()) {
			return false, fmt.Errorf("writer goroutine of %q did not reach the barrier record\n%s", f.name, kit.Stacks())
		}
		c19Resyncs.Add(1)
	}
	after := f.sent.Load()
	r.markers = r.calls.Load() - after
	// a record of somebody else (public family: the logger's diagnostics) slipped in between: again
	return after != before, nil
}

type c19World struct {
	cfg     c19Cfg
	dir     string
	now0    time.Time
	day0    time.Time
	sizes   map[int]int // issued record sizes by id (public family: content length)
	linelen map[int]int // public family: observed length of the log line carrying the record
	fams    []*c19Fam
	base    int
	public  bool
	// size rule: the instant every backup name stands for (key: base name without .gz) - of the
	// pre-existing backups as the driver created them, of the logger's own as BackupFilename was asked
	regMu            sync.Mutex
	reg              map[string]time.Time
	hoursAM, hoursPM atomic.Int64 // "hours": files started at 01..12 h / at 00, 13..23 h
}

var c19Line = regexp.MustCompile(`^#(\d+) x*$`)
var c19Content = regexp.MustCompile(`(?s)^(#(\d+) x*)(\n.*)?$`)

func c19Text(id, size int) ([]byte, error) {
	head := fmt.Sprintf("#%d ", id)
	if size < len(head) {
		return nil, fmt.Errorf("record size %d too small for id %d", size, id)
	}
	b := make([]byte, 0, size+1)
	b = append(b, head...)
	for len(b) < size {
		b = append(b, 'x')
	}
	return b, nil
}

func c19Record(id, size int) ([]byte, error) {
	b, err := c19Text(id, size-1)
	if err != nil {
		return nil, err
	}
	return append(b, '\n'), nil
}

// parse file content into record ids; a record that is not complete (or, in the public family,
// carries the level of another file) is -id.  own = bytes of the driver's records, last = size
// of the last of them; junk = bytes that are no complete line / no log entry.
func (w *c19World) parse(f *c19Fam, data []byte) (recs []int, junk, own, last int) {
	recs = []int{}
	for len(data) > 0 {
		i := bytes.IndexByte(data, '\n')
		if i < 0 {
			junk += len(data)
			break
		}
		line := data[:i]
		data = data[i+1:]
		if !w.public {
			m := c19Line.FindSubmatch(line)
			if m == nil {
				junk += i + 1
				continue
			}
			id, _ := strconv.Atoi(string(m[1]))
			if w.sizes[id] != i+1 {
				id = -id
			}
			recs = append(recs, id)
			own += i + 1
			last = i + 1
			continue
		}
		var e struct {
			Content string `json:"content"`
			Level   string `json:"level"`
		}
		if err := json.Unmarshal(line, &e); err != nil {
			junk += i + 1
			continue
		}
		m := c19Content.FindStringSubmatch(e.Content)
		if m == nil {
			continue // an entry that is not the driver's (the logger's own diagnostics)
		}
		id, _ := strconv.Atoi(m[2])
		if w.sizes[id] != len(m[1]) || e.Level != f.level {
			id = -id
		} else {
			w.linelen[id] = i + 1
		}
		recs = append(recs, id)
		own += i + 1
		last = i + 1
	}
	return
}

func c19ReadFile(path string, gz bool) ([]byte, error) {
	data, err := os.ReadFile(path)
	if err != nil || !gz {
		return data, err
	}
	zr, err := gzip.NewReader(bytes.NewReader(data))
	if err != nil {
		return nil, err
	}
	return io.ReadAll(zr)
}

// backupName of a pre-existing backup whose name carries time t, in the real rules' formats
func (w *c19World) backupName(f *c19Fam, t time.Time, gz bool) string {
	var name string
	if w.cfg.Rule == "size" {
		name = filepath.Join(w.dir, fmt.Sprintf("%s%s%s%s", f.prefix, w.cfg.Delim, t.Format(c19NameLayout), f.ext))
		w.regMu.Lock()
		w.reg[filepath.Base(name)] = t
		w.regMu.Unlock()
	} else {
		name = fmt.Sprintf("%s%s%s", f.filename, w.cfg.Delim, t.Format(dateFormat))
	}
	if gz {
		name += gzipExt
	}
	return name
}

// parseName maps a backup file name to (ts, ageh): ts orders the backups as their names do,
// ageh is the age in hours, at the start of the case, of the time the name carries.
func (w *c19World) parseName(f *c19Fam, base string) (ts, ageh int, gz, ok bool) {
	rest := base
	if strings.HasSuffix(rest, gzipExt) {
		gz = true
		rest = strings.TrimSuffix(rest, gzipExt)
	}
	var t time.Time
	var err error
	if w.cfg.Rule == "size" {
		head := f.prefix + w.cfg.Delim
		if !strings.HasPrefix(rest, head) || !strings.HasSuffix(rest, f.ext) {
			return
		}
		// the instant the backup stands for is the driver's knowledge; a name the driver has not
		// seen handed out is decoded as RFC 3339
		w.regMu.Lock()
		t0, known := w.reg[rest]
		w.regMu.Unlock()
		rest = strings.TrimSuffix(strings.TrimPrefix(rest, head), f.ext)
		if known {
			t = t0
		} else if t, err = time.Parse(c19NameLayout, rest); err != nil {
			return
		}
		ts = int(t.Unix() - w.now0.Unix())
	} else {
		head := filepath.Base(f.filename) + w.cfg.Delim
		if !strings.HasPrefix(rest, head) {
			return
		}
		rest = strings.TrimPrefix(rest, head)
		k := 0
		if len(rest) > len(dateFormat) {
			if rest[len(dateFormat)] != '.' {
				return
			}
			if k, err = strconv.Atoi(rest[len(dateFormat)+1:]); err != nil {
				return
			}
			rest = rest[:len(dateFormat)]
		}
		if t, err = time.ParseInLocation(dateFormat, rest, time.Local); err != nil {
			return
		}
		days := int((w.day0.Sub(t) + 12*time.Hour) / (24 * time.Hour))
		ts = -days*86400 + k
	}
	if d := w.now0.Sub(t); d > 0 {
		ageh = int(d / time.Hour)
	}
	return ts, ageh, gz, true
}

// belongs: is this directory entry the current file or a backup of another family?
func (w *c19World) foreign(f *c19Fam, name string) bool {
	for _, o := range w.fams {
		if o == f {
			continue
		}
		b := filepath.Base(o.filename)
		if name == b || strings.HasPrefix(name, o.prefix+w.cfg.Delim) || strings.HasPrefix(name, b+w.cfg.Delim) {
			return true
		}
	}
	return false
}

// observe reads the files of one family back.
func (w *c19World) observe(f *c19Fam) (kit.M, error) {
	ents, err := os.ReadDir(w.dir)
	if err != nil {
		return nil, err
	}
	obs := kit.M{"cur": []int{}, "cb": -1, "clast": 0}
	junk, alien := 0, 0
	files := []kit.M{}
	seen := map[int]bool{}
	for _, e := range ents {
		p := filepath.Join(w.dir, e.Name())
		if p == f.filename {
			data, err := os.ReadFile(p)
			if err != nil {
				return nil, err
			}
			recs, j, own, last := w.parse(f, data)
			junk += j
			obs["cur"], obs["cb"], obs["clast"] = recs, len(data), last
			if w.public {
				obs["cb"] = own // the logger's own diagnostics share the access log: only the driver's bytes count
			}
			continue
		}
		if w.foreign(f, e.Name()) {
			continue
		}
		ts, ageh, gz, ok := w.parseName(f, e.Name())
		if !ok || seen[ts] {
			alien++
			continue
		}
		seen[ts] = true
		data, err := c19ReadFile(p, gz)
		if err != nil {
			// an unreadable (e.g. half-written gzip) backup: its records are not present
			junk++
			data = nil
		}
		recs, j, own, last := w.parse(f, data)
		junk += j
		files = append(files, kit.M{"ts": ts, "ageh": ageh, "gz": gz, "recs": recs, "bytes": own, "last": last})
	}
	sort.Slice(files, func(i, j int) bool { return files[i]["ts"].(int) < files[j]["ts"].(int) })
	obs["files"], obs["junk"], obs["alien"] = files, junk, alien
	return obs, nil
}

// barrier: every logger has processed everything queued and no post-rotation goroutine runs.
func (w *c19World) barrier() error {
	total := func() (n int64) {
		for _, f := range w.fams {
			n += f.sent.Load()
		}
		return
	}
	for round := 0; round < 12; round++ {
		before := total()
		for _, f := range w.fams {
			for again := true; again; {
				var err error
				if again, err = f.sync(); err != nil {
					return err
				}
			}
		}
		// quiescent: no post-rotation goroutine is running and (public family) none of them handed
		// a diagnostic record to a writer that had already been flushed in this round
		if runtime.NumGoroutine() <= w.base && total() == before {
			return nil
		}
		// a post-rotation goroutine (compress, clean-up) is running; in the public family it may log
		// through the writers again, so flush once more afterwards
		if !kit.WaitGoroutines(w.base, 30*time.Second) {
			return fmt.Errorf("goroutines did not settle: have %d want <= %d\n%s", runtime.NumGoroutine(), w.base, kit.Stacks())
		}
		if !w.public {
			return nil
		}
	}
	return fmt.Errorf("the writers did not become quiescent")
}

var c19Mu sync.Mutex // the public family touches package state

func (w *c19World) newFam(name, file, level string) *c19Fam {
	f := &c19Fam{name: name, level: level, filename: filepath.Join(w.dir, file), seenTs: map[int]bool{}}
	f.ext = filepath.Ext(f.filename)
	f.prefix = strings.TrimSuffix(filepath.Base(f.filename), f.ext)
	f.rule = &c19Rule{w: w, f: f, sig: make(chan struct{}, 1)}
	w.fams = append(w.fams, f)
	return f
}

// front puts the barrier-recognising wrapper in front of the rule a logger was built with
// (the writer goroutine is idle: nothing has been written yet).
func (f *c19Fam) front(wc io.WriteCloser) error {
	lg, ok := wc.(*RotateLogger)
	if !ok {
		return fmt.Errorf("log %q is a %T", f.name, wc)
	}
	if lg.filename != f.filename {
		return fmt.Errorf("log %q writes %s, expected %s", f.name, lg.filename, f.filename)
	}
	f.rule.inner = lg.rule
	f.rule.daily, _ = lg.rule.(*DailyRotateRule)
	f.lg = lg
	lg.rule = f.rule
	return nil
}

func runC19Case(c kit.Case, root string, tr *kit.Tracer, rep *kit.Reporter) (v kit.Verdict) {
	v = kit.Verdict{Case: c.Index, OK: true}
	infra := func(err error) kit.Verdict {
		return kit.Verdict{Case: c.Index, Infra: true, Msg: fmt.Sprintf("case %d: %v", c.Index, err)}
	}
	if len(c.Steps) == 0 || kit.Str(c.Steps[0]["op"]) != "init" {
		return infra(fmt.Errorf("history does not start with init"))
	}
	cfgm, _ := c.Steps[0]["cfg"].(map[string]any)
	w := &c19World{cfg: c19ParseCfg(cfgm), sizes: map[int]int{}, linelen: map[int]int{}, reg: map[string]time.Time{}}
	w.public = w.cfg.Via == "public"
	w.dir = filepath.Join(root, fmt.Sprintf("case-%d", c.Index))
	os.RemoveAll(w.dir)
	if err := os.MkdirAll(w.dir, 0o755); err != nil {
		return infra(err)
	}
	defer os.RemoveAll(w.dir)
	switch w.cfg.Via {
	case "":
		w.newFam("", "app.log", "")
	case "config", "public":
		w.newFam("info", accessFilename, levelInfo)
		w.newFam("error", errorFilename, levelError)
		w.newFam("severe", severeFilename, levelFatal)
		w.newFam("slow", slowFilename, levelSlow)
		w.newFam("stat", statFilename, levelStat)
		if w.cfg.Names != "real" || w.cfg.Delim != backupFileDelimiter {
			return infra(fmt.Errorf("the %s family uses the real backup names and delimiter", w.cfg.Via))
		}
	default:
		return infra(fmt.Errorf("unknown family %q", w.cfg.Via))
	}
	main := w.fams[0]
	w.now0 = time.Now()
	y, m, d := w.now0.Date()
	w.day0 = time.Date(y, m, d, 0, 0, 0, 0, time.Local)

	// pre-existing backups and current file (of the first family)
	for i, age := range w.cfg.Pre {
		gz := w.cfg.Gzip
		if w.cfg.PreGz == "mixed" && i%2 == 1 {
			gz = !gz
		}
		var content []byte
		for j := 1; j <= 2; j++ {
			id := 1000 + 10*(i+1) + j
			var rec []byte
			if w.public {
				txt, _ := c19Text(id, 10)
				w.sizes[id] = 10
				rec, _ = json.Marshal(map[string]any{"@timestamp": "2000-01-01T00:00:00.000Z", "level": main.level, "content": string(txt)})
				rec = append(rec, '\n')
			} else {
				rec, _ = c19Record(id, 10)
				w.sizes[id] = 10
			}
			content = append(content, rec...)
		}
		at := w.now0.Add(-time.Duration(age) * time.Hour)
		if w.cfg.Names == "hours" {
			at = w.hourTime(age) // the hour of the day is the dimension: `age` hours after the base midnight
		}
		name := w.backupName(main, at, gz)
		if gz {
			var buf bytes.Buffer
			zw := gzip.NewWriter(&buf)
			zw.Write(content)
			zw.Close()
			content = buf.Bytes()
		}
		if _, err := os.Stat(name); err == nil {
			return infra(fmt.Errorf("two pre-existing backups share the name %s", name))
		}
		if err := os.WriteFile(name, content, 0o600); err != nil {
			return infra(err)
		}
	}
	if w.cfg.PreCur > 0 && !w.public {
		rec, err := c19Record(900, w.cfg.PreCur)
		if err != nil {
			return infra(err)
		}
		w.sizes[900] = w.cfg.PreCur
		if err := os.WriteFile(main.filename, rec, 0o600); err != nil {
			return infra(err)
		}
	}

	// build the writers
	closeAll := func() error { return main.lg.Close() }
	conf := Config{Mode: fileMode, Path: w.dir, Rotation: w.cfg.Rule, KeepDays: w.cfg.Days, MaxBackups: w.cfg.MaxBackups,
		Compress: w.cfg.Gzip, StackCooldownMillis: 100}
	if w.cfg.Via != "" {
		if w.cfg.MaxSize%megaBytes != 0 {
			return infra(fmt.Errorf("%s family: maxSize must be whole megabytes", w.cfg.Via))
		}
		conf.MaxSize = w.cfg.MaxSize / megaBytes
	}
	switch w.cfg.Via {
	case "public":
		// the public API; Setup is once-only and the option set is package-global: start every case
		// from the package's initial state
		c19Mu.Lock()
		defer c19Mu.Unlock()
		if old := writer.Swap(nil); old != nil {
			if cl, ok := old.(io.Closer); ok {
				cl.Close()
			}
		}
		setupOnce = sync.Once{}
		options = logOptions{}
		atomic.StoreUint32(&disableLog, 0)
		atomic.StoreUint32(&disableStat, 0)
		atomic.StoreUint32(&logLevel, 0)
		defer Disable() // back to "the logger's diagnostics are not under test"
		w.base = runtime.NumGoroutine()
		if err := Setup(conf); err != nil {
			return infra(err)
		}
		cw, ok := writer.Load().(*concreteWriter)
		if !ok {
			return infra(fmt.Errorf("Setup installed a %T", writer.Load()))
		}
		for i, wc := range []io.WriteCloser{cw.infoLog, cw.errorLog, cw.severeLog, cw.slowLog, cw.statLog} {
			if err := w.fams[i].front(wc); err != nil {
				return infra(err)
			}
		}
		// count what reaches each logger (nothing has been written yet)
		cw.infoLog = &c19CountW{f: w.fams[0], lg: w.fams[0].lg}
		cw.errorLog = &c19CountW{f: w.fams[1], lg: w.fams[1].lg}
		cw.severeLog = &c19CountW{f: w.fams[2], lg: w.fams[2].lg}
		cw.slowLog = &c19CountW{f: w.fams[3], lg: w.fams[3].lg}
		cw.statLog = &c19CountW{f: w.fams[4], lg: w.fams[4].lg}
		closeAll = Close
		w.base += 5
		rep.Count("public_api_"+w.cfg.Rule, 1)
	case "config":
		options = logOptions{} // the option set is package-global: start from the defaults
		w.base = runtime.NumGoroutine()
		wr, err := newFileWriter(conf)
		if err != nil {
			return infra(err)
		}
		cw, ok := wr.(*concreteWriter)
		if !ok {
			return infra(fmt.Errorf("newFileWriter returned %T", wr))
		}
		for i, wc := range []io.WriteCloser{cw.infoLog, cw.errorLog, cw.severeLog, cw.slowLog, cw.statLog} {
			if err := w.fams[i].front(wc); err != nil {
				return infra(err)
			}
		}
		closeAll = wr.Close
		w.base += 5
		rep.Count("config_path_"+w.cfg.Rule, 1)
	default:
		rule := main.rule
		switch w.cfg.Rule {
		case "size":
			if w.cfg.MaxSize > 0 && w.cfg.MaxSize%megaBytes == 0 {
				rule.inner = NewSizeLimitRotateRule(main.filename, w.cfg.Delim, w.cfg.Days, w.cfg.MaxSize/megaBytes, w.cfg.MaxBackups, w.cfg.Gzip)
				rep.Count("rule_size_public_ctor", 1)
			} else {
				r := NewSizeLimitRotateRule(main.filename, w.cfg.Delim, w.cfg.Days, 1, w.cfg.MaxBackups, w.cfg.Gzip).(*SizeLimitRotateRule)
				r.maxSize = int64(w.cfg.MaxSize)
				rule.inner = r
			}
		case "daily":
			r := DefaultRotateRule(main.filename, w.cfg.Delim, w.cfg.Days, w.cfg.Gzip).(*DailyRotateRule)
			rule.inner, rule.daily = r, r
		default:
			return infra(fmt.Errorf("unknown rule %q", w.cfg.Rule))
		}
		w.base = runtime.NumGoroutine()
		lg, err := NewLogger(main.filename, rule, w.cfg.Gzip)
		if err != nil {
			return infra(err)
		}
		main.lg = lg
		w.base++
	}
	nworkers := len(w.fams)
	closed := false
	defer func() {
		if !closed {
			closeAll()
		}
	}()

	// init events
	for _, f := range w.fams {
		f.lastStart = time.Now()
		obs, err := w.observe(f)
		if err != nil {
			return infra(err)
		}
		for _, x := range obs["files"].([]kit.M) {
			f.seenTs[x["ts"].(int)] = true
		}
		if f == main && len(obs["files"].([]kit.M)) != len(w.cfg.Pre) {
			return infra(fmt.Errorf("%d pre-existing backups created, %d seen", len(w.cfg.Pre), len(obs["files"].([]kit.M))))
		}
		// a backup named by a date holds records up to the END of that day: 24 h are taken off its age
		slack := 0
		if w.cfg.Rule == "daily" {
			slack = 24
		}
		obs["ev"], obs["h"], obs["fam"] = "init", c.Index, f.name
		obs["cfg"] = kit.M{"rule": w.cfg.Rule, "maxSize": w.cfg.MaxSize, "maxBackups": w.cfg.MaxBackups, "days": w.cfg.Days,
			"gzip": w.cfg.Gzip, "slack": slack}
		f.events = append(f.events, obs)
	}
	famOf := func(st kit.M) *c19Fam {
		name := kit.Str(st["fam"])
		for _, f := range w.fams {
			if f.name == name {
				return f
			}
		}
		return main
	}
	// noteRotations: backups that were not there before mean the logger started a new file
	noteRotations := func(f *c19Fam, obs kit.M) {
		for _, x := range obs["files"].([]kit.M) {
			if ts := x["ts"].(int); !f.seenTs[ts] {
				f.seenTs[ts] = true
				f.lastStart = time.Now()
				rep.Count("rotations_seen", 1)
				if w.cfg.Via != "" {
					rep.Count(w.cfg.Via+"_rotations", 1)
				}
			}
		}
	}
	id := 0
	// send one record; returns its id
	send := func(f *c19Fam, size int) (int, error) {
		for id++; w.sizes[id] != 0; id++ { // ids are unique per case: skip those of the pre-existing records
		}
		w.sizes[id] = size
		if w.cfg.Names == "real" && w.cfg.Rule == "size" {
			// backup names have one-second resolution: keep file starts 1.1 s apart
			if d := time.Until(f.lastStart.Add(1100 * time.Millisecond)); d > 0 {
				time.Sleep(d)
				rep.Count("real_name_waits", 1)
			}
		}
		if w.public {
			txt, err := c19Text(id, size)
			if err != nil {
				return id, err
			}
			switch f.name {
			case "info":
				Info(string(txt))
			case "error":
				Error(string(txt))
			case "severe":
				Severe(string(txt))
			case "slow":
				Slow(string(txt))
			case "stat":
				Stat(string(txt))
			}
			rep.Count("public_"+f.name, 1)
			return id, nil
		}
		rec, err := c19Record(id, size)
		if err != nil {
			return id, err
		}
		f.sent.Add(1)
		n, err := f.lg.Write(rec)
		if err != nil || n != len(rec) {
			return id, fmt.Errorf("Write before Close returned (%d, %v)", n, err)
		}
		return id, nil
	}
	sizeOf := func(id int) int {
		if w.public {
			return w.linelen[id] // 0 when the record was not found
		}
		return w.sizes[id]
	}

	for _, st := range c.Steps[1:] {
		switch op := kit.Str(st["op"]); op {
		case "write":
			f := famOf(st)
			f.written = true
			rid, err := send(f, kit.Num(st["size"]))
			if err != nil {
				return infra(err)
			}
			if err := w.barrier(); err != nil {
				return infra(err)
			}
			obs, err := w.observe(f)
			if err != nil {
				return infra(err)
			}
			noteRotations(f, obs)
			obs["ev"], obs["id"], obs["size"] = "write", rid, sizeOf(rid)
			f.events = append(f.events, obs)
			if w.public {
				// the logger's own diagnostics (e.g. "compressing ...") go through the access/error
				// writers and may rotate them: the other files are observed too, as a step that
				// writes none of the driver's records
				for _, g := range w.fams {
					if g == f {
						continue
					}
					o, err := w.observe(g)
					if err != nil {
						return infra(err)
					}
					noteRotations(g, o)
					o["ev"], o["ids"] = "burst", []int{}
					g.events = append(g.events, o)
				}
			}
		case "burst", "closeq":
			f := famOf(st)
			f.written = true
			ids := []int{}
			sizes := kit.List(st["sizes"])
			// a flood: one producer, more records than the writer's queue holds, in a tight loop.  Only
			// counted here (vacuity guard of the check): did the producer ever find the queue full, i.e.
			// were as many records outstanding (handed over, ShallRotate not yet asked) as it has slots?
			flood, full := f.lg != nil && len(sizes) > cap(f.lg.channel), false
			for _, s := range sizes {
				rid, err := send(f, kit.Num(s)) // no barrier: the writes race the post-rotation goroutine
				if err != nil {
					return infra(err)
				}
				ids = append(ids, rid)
				if flood && !full && f.sent.Load()-(f.rule.calls.Load()-f.rule.markers) >= int64(cap(f.lg.channel)) {
					full = true
				}
			}
			if flood {
				rep.Count("flood_bursts", 1)
				rep.Count("flood_records", len(ids))
				if full {
					rep.Count("flood_queue_full", 1)
				}
				if op == "closeq" {
					rep.Count("flood_closeq", 1)
				}
			}
			var cerr error
			if op == "closeq" {
				cerr = closeAll() // with records possibly still queued
				closed = true
				w.base -= nworkers
				if !kit.WaitGoroutines(w.base, 30*time.Second) {
					return infra(fmt.Errorf("goroutines did not settle after Close\n%s", kit.Stacks()))
				}
			} else if err := w.barrier(); err != nil {
				return infra(err)
			}
			for _, g := range w.fams {
				if g != f && op != "closeq" {
					continue
				}
				obs, err := w.observe(g)
				if err != nil {
					return infra(err)
				}
				if g == f {
					noteRotations(f, obs)
					obs["ev"], obs["ids"] = op, ids
					if op == "closeq" {
						rep.Count("closeq_records", len(ids))
					} else {
						rep.Count("burst_records", len(ids))
					}
				} else {
					obs["ev"], obs["ids"] = "closeq", []int{}
				}
				obs["err"] = ""
				if cerr != nil {
					obs["err"] = cerr.Error()
				}
				g.events = append(g.events, obs)
			}
		case "daychange":
			n := 0
			for _, f := range w.fams {
				if f.rule.daily != nil {
					f.rule.daily.rotatedTime = "2000-01-01" // the writer goroutines are idle (barrier)
					f.events = append(f.events, kit.M{"ev": "daychange"})
					n++
				}
			}
			if n == 0 {
				return infra(fmt.Errorf("daychange under rule %s", w.cfg.Rule))
			}
			rep.Count("daychanges", 1)
		case "close":
			cerr := closeAll()
			closed = true
			w.base -= nworkers
			if !kit.WaitGoroutines(w.base, 30*time.Second) {
				return infra(fmt.Errorf("goroutines did not settle after Close\n%s", kit.Stacks()))
			}
			for _, f := range w.fams {
				obs, err := w.observe(f)
				if err != nil {
					return infra(err)
				}
				obs["ev"], obs["err"] = "close", ""
				if cerr != nil {
					obs["err"] = cerr.Error()
					rep.Count("close_errors", 1)
				}
				f.events = append(f.events, obs)
			}
		default:
			return infra(fmt.Errorf("unknown op %q", op))
		}
		v.Steps++
	}
	if w.cfg.Names == "hours" {
		if w.cfg.Rule != "size" || w.cfg.Days != 0 {
			return infra(fmt.Errorf("hour-of-day names are for the size rule without an age limit"))
		}
		rep.Count("hours_cases", 1)
		rep.Count("hours_am_names", int(w.hoursAM.Load()))
		rep.Count("hours_pm_names", int(w.hoursPM.Load()))
	}
	// one history per log file; files of the configuration the case never wrote to are listed
	// only in the public family (a record must not turn up in another file)
	for _, f := range w.fams {
		if f != main && !f.written && !w.public {
			continue
		}
		for _, e := range f.events {
			tr.Emit(e)
		}
	}
	return v
}

func TestVerifC19(t *testing.T) {
	Disable() // the logger's own diagnostics (compress / delete messages) are not under test
	cases, err := kit.LoadCases(kit.Env("VERIF_CASES", ""))
	if err != nil {
		t.Fatal(err)
	}
	rep, err := kit.NewReporter(kit.Env("VERIF_OUT", ""))
	if err != nil {
		t.Fatal(err)
	}
	defer rep.Close()
	shard, shards := kit.EnvInt("VERIF_SHARD", 0), kit.EnvInt("VERIF_SHARDS", 1)
	tr, err := kit.NewTracer(fmt.Sprintf("%s-%d.ndjson", kit.Env("VERIF_TRACE", "c19trace"), shard))
	if err != nil {
		t.Fatal(err)
	}
	defer tr.Close()
	root := filepath.Join(kit.Env("VERIF_BUILD", os.TempDir()), "c19dirs", fmt.Sprintf("%s-%d", kit.Env("VERIF_LABEL", "x"), shard))
	os.MkdirAll(root, 0o755)
	defer os.RemoveAll(root)
	for _, c := range cases {
		if c.Index%shards != shard {
			continue
		}
		rep.Put(runC19Case(c, root, tr, rep))
	}
	rep.Count("events", int(tr.N))
	rep.Count("barrier_resyncs", int(c19Resyncs.Load()))
}
