package serverinterceptors

// C01 integration driver: the server-side unary and stream breaker interceptors
// (overlaid as rpc/internal/serverinterceptors/zz_verif_c01_test.go).

import (
	"context"
	"fmt"
	"os"
	"testing"

	"github.com/gotid/god/internal/verifc01"
	"github.com/gotid/god/internal/verifc01/grpcerr"
	"google.golang.org/grpc"
)

type c01ServerTarget struct{ prefix string }

func (t *c01ServerTarget) Disable(string) { panic("c01 server driver: disable is not part of the integration table") }

func (t *c01ServerTarget) Do(name string, c verifc01.Call) (o verifc01.Obs) {
	want := grpcerr.Want(c) // the row's error value (status / wrapped / plain / context / foreign), nil for OK
	var err error
	switch c.Api {
	case "grpc_unary":
		var resp interface{}
		resp, err = UnaryBreakerInterceptor(context.Background(), "req", &grpc.UnaryServerInfo{FullMethod: t.prefix + name},
			func(ctx context.Context, req interface{}) (interface{}, error) {
				o.Req++
				return "resp", want
			})
		if o.Req > 0 && resp != "resp" {
			o.Ret = fmt.Sprintf("other:response lost (%v)", resp)
			return
		}
	case "grpc_stream":
		err = StreamBreakerInterceptor(nil, nil, &grpc.StreamServerInfo{FullMethod: t.prefix + name},
			func(srv interface{}, stream grpc.ServerStream) error {
				o.Req++
				return want
			})
	default:
		panic("c01 server driver: unknown api " + c.Api)
	}
	o.Ret = grpcerr.Label(err, want)
	return
}

func TestVerifC01Server(t *testing.T) {
	pid := os.Getpid()
	verifc01.Run(t, func(i int) verifc01.Target { return &c01ServerTarget{prefix: fmt.Sprintf("/c01server/%d/%d/", pid, i)} })
}
