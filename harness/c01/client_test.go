package clientinterceptors

// C01 integration driver: the client-side breaker interceptor
// (overlaid as rpc/internal/clientinterceptors/zz_verif_c01_test.go).

import (
	"context"
	"fmt"
	"os"
	"testing"

	"github.com/gotid/god/internal/verifc01"
	"github.com/gotid/god/internal/verifc01/grpcerr"
	"google.golang.org/grpc"
)

type c01ClientTarget struct {
	prefix string
	cc     *grpc.ClientConn
}

func (t *c01ClientTarget) Disable(string) { panic("c01 client driver: disable is not part of the integration table") }

func (t *c01ClientTarget) Do(name string, c verifc01.Call) (o verifc01.Obs) {
	want := grpcerr.Want(c) // the row's error value (status / wrapped / plain / context / foreign), nil for OK
	err := BreakerInterceptor(context.Background(), t.prefix+name, nil, nil, t.cc,
		func(ctx context.Context, method string, req, reply interface{}, cc *grpc.ClientConn, opts ...grpc.CallOption) error {
			o.Req++
			return want
		})
	o.Ret = grpcerr.Label(err, want)
	return
}

func TestVerifC01Client(t *testing.T) {
	pid := os.Getpid()
	cc := new(grpc.ClientConn)
	verifc01.Run(t, func(i int) verifc01.Target {
		return &c01ClientTarget{prefix: fmt.Sprintf("/c01client/%d/%d/", pid, i), cc: cc}
	})
}
