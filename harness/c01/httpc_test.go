package httpc

// C01 integration driver: api/httpc, the HTTP client with a built-in breaker per service name
// (overlaid as api/httpc/zz_verif_c01_test.go).  One call = one Service.Do against a real
// loopback server that answers with the status the behaviour asks for, or against an address
// whose dial is refused ("refused": a transport error).  httpc hands the breaker a predicate that is
// not a function of the error alone: a nil error with a response >= 500 is a failure.
// Observed: did the request leave the client (round trips counted in the transport), what did
// the caller get back (status of the response / ErrServiceUnavailable / a transport error).

import (
	"context"
	"errors"
	"fmt"
	"io"
	"net"
	"net/http"
	"net/http/httptest"
	"os"
	"strconv"
	"sync/atomic"
	"syscall"
	"testing"

	"github.com/gotid/god/internal/verifc01"
	"github.com/gotid/god/lib/breaker"
)

type c01CountingTransport struct {
	next  http.RoundTripper
	trips atomic.Int64
}

func (t *c01CountingTransport) RoundTrip(r *http.Request) (*http.Response, error) {
	t.trips.Add(1)
	return t.next.RoundTrip(r)
}

type c01HttpcTarget struct {
	prefix   string
	up, down string // base URLs: the live server, the address whose dial is refused
	tr       *c01CountingTransport
	hits     *atomic.Int64 // requests that reached the live server
	services map[string]Service
}

func (t *c01HttpcTarget) Disable(string) { panic("c01 httpc driver: disable is not part of the integration table") }

func (t *c01HttpcTarget) Do(name string, c verifc01.Call) (o verifc01.Obs) {
	svc := t.services[name]
	if svc == nil {
		// a fresh service name = a fresh breaker in the registry
		svc = NewServiceWithClient(t.prefix+name, &http.Client{Transport: t.tr})
		if t.services == nil {
			t.services = map[string]Service{}
		}
		t.services[name] = svc
	}
	url := t.up + "/c01?code=" + strconv.Itoa(c.N)
	if c.Oc == "refused" {
		url = t.down + "/c01"
	}
	t.tr.trips.Store(0)
	t.hits.Store(0)
	resp, err := svc.Do(context.Background(), http.MethodGet, url, nil)
	o.Req = int(t.tr.trips.Load())
	switch {
	case err == breaker.ErrServiceUnavailable:
		o.Ret = "unavail"
		if h := int(t.hits.Load()); h > o.Req {
			o.Req = h // nothing may have reached the server
		}
	case err != nil:
		var ne net.Error
		var oe *net.OpError
		if c.Oc == "refused" && (errors.As(err, &oe) || errors.As(err, &ne)) {
			o.Ret = "refused"
		} else {
			o.Ret = fmt.Sprintf("other:%v", err)
		}
	case resp == nil:
		o.Ret = "other:nil response and nil error"
	default:
		_, _ = io.Copy(io.Discard, resp.Body)
		_ = resp.Body.Close()
		o.Ret = strconv.Itoa(resp.StatusCode)
	}
	return
}

func TestVerifC01Httpc(t *testing.T) {
	verifc01.Get()
	var hits atomic.Int64
	up := httptest.NewServer(http.HandlerFunc(func(w http.ResponseWriter, r *http.Request) {
		hits.Add(1)
		code, err := strconv.Atoi(r.URL.Query().Get("code"))
		if err != nil {
			code = http.StatusTeapot
		}
		w.WriteHeader(code)
	}))
	defer up.Close()
	// a dependency that is down: the dialer answers "connection refused" for its address (decided
	// in the dialer, not by a port that happens to be free: other checks use the loopback too)
	const downAddr = "c01-down.invalid:81"
	var d net.Dialer
	tr := &c01CountingTransport{next: &http.Transport{DialContext: func(ctx context.Context, network, addr string) (net.Conn, error) {
		if addr == downAddr {
			return nil, &net.OpError{Op: "dial", Net: network, Err: os.NewSyscallError("connect", syscall.ECONNREFUSED)}
		}
		return d.DialContext(ctx, network, addr)
	}}}
	down := "http://" + downAddr
	pid := os.Getpid()
	verifc01.Run(t, func(i int) verifc01.Target {
		return &c01HttpcTarget{prefix: fmt.Sprintf("c01httpc/%d/%d/", pid, i), up: up.URL, down: down, tr: tr, hits: &hits}
	})
}
