package redis

// C01 integration driver: redis.Redis over miniredis (overlaid as
// lib/store/redis/zz_verif_c01_test.go).  Every redis.New owns a fresh breaker; one miniredis
// serves all cases of the process, a second one is closed to play a node that is down.

import (
	"context"
	"fmt"
	"sync/atomic"
	"testing"

	"github.com/alicebob/miniredis/v2"
	"github.com/alicebob/miniredis/v2/server"
	red "github.com/go-redis/redis/v8"
	"github.com/gotid/god/internal/verifc01"
	"github.com/gotid/god/lib/breaker"
)

type c01RedisTarget struct {
	idx      int
	up, down string
	hits     *atomic.Int64
	mr       *miniredis.Miniredis
	nodes    map[string]*Redis
}

func (t *c01RedisTarget) Disable(string) { panic("c01 redis driver: disable is not part of the integration table") }

func (t *c01RedisTarget) Do(name string, c verifc01.Call) (o verifc01.Obs) {
	r := t.nodes[name]
	if r == nil {
		addr := t.up
		if c.Oc == "down" { // the whole behaviour then talks to the node that is down
			addr = t.down
		}
		r = New(addr) // fresh breaker
		if t.nodes == nil {
			t.nodes = map[string]*Redis{}
		}
		t.nodes[name] = r
	}
	t.hits.Store(0)
	var err error
	key := fmt.Sprintf("c01:%d:%s", t.idx, name)
	switch c.Oc {
	case "nil":
		err = r.Set(key+":str", "v")
	case "rednil":
		_, err = r.HGet(key+":missing", "f")
	case "canceled":
		ctx, cancel := context.WithCancel(context.Background())
		cancel()
		_, err = r.HGetCtx(ctx, key+":missing", "f")
	case "other", "down":
		// a string where a hash is expected: WRONGTYPE (or a dial error when the node is down)
		if r.Addr == t.up {
			_ = t.mr.Set(key+":wt", "v") // directly in the server: set-up must not pass the breaker
		}
		_, err = r.HGet(key+":wt", "f")
	default:
		panic("c01 redis driver: unknown outcome " + c.Oc)
	}
	switch {
	case err == nil:
		o.Ret = "nil"
	case err == breaker.ErrServiceUnavailable:
		o.Ret = "unavail"
	case err == red.Nil:
		o.Ret = "rednil"
	case err == context.Canceled:
		o.Ret = "canceled"
	case c.Oc == "other" || c.Oc == "down":
		o.Ret = c.Oc // some error of the server or of the connection
	default:
		o.Ret = fmt.Sprintf("other:%v", err)
	}
	if o.Ret == "unavail" {
		o.Req = int(t.hits.Load()) // nothing may have reached the server
	} else {
		o.Req = 1
	}
	return
}

func TestVerifC01Redis(t *testing.T) {
	verifc01.Get()
	up, err := miniredis.Run()
	if err != nil {
		t.Fatal(err)
	}
	defer up.Close()
	dn, err := miniredis.Run()
	if err != nil {
		t.Fatal(err)
	}
	downAddr := dn.Addr()
	dn.Close()
	var hits atomic.Int64
	up.Server().SetPreHook(func(p *server.Peer, cmd string, args ...string) bool {
		hits.Add(1)
		return false
	})
	verifc01.Run(t, func(i int) verifc01.Target {
		return &c01RedisTarget{idx: i, up: up.Addr(), down: downAddr, hits: &hits, mr: up}
	})
}
