package redis

// C01 integration driver: redis.Redis over miniredis (overlaid as
// lib/store/redis/zz_verif_c01_test.go).  Every redis.New owns a fresh breaker; one miniredis
// serves all cases of the process, a second one is closed to play a node that is down.

import (
	"context"
	"fmt"
	"hash/fnv"
	"math"
	"reflect"
	"sort"
	"strings"
	"sync"
	"sync/atomic"
	"testing"
	"time"

	"github.com/alicebob/miniredis/v2"
	"github.com/alicebob/miniredis/v2/server"
	red "github.com/go-redis/redis/v8"
	"github.com/gotid/god/internal/verifc01"
	"github.com/gotid/god/lib/breaker"
)

type c01RedisTarget struct {
	idx      int
	up, down string
	hits     *atomic.Int64
	mr       *miniredis.Miniredis
	nodes    map[string]*Redis
	vias     map[string][]string
}

// The wrapper has one method per Redis command, each with its own breaker call: the benign
// outcomes must be benign through EVERY one of them.  All calls of one node (= one breaker) of a
// behaviour go through the same command, chosen from a catalogue by (behaviour, node), so that a
// burst of benign outcomes lands on one command's breaker call.
//   canceled: every exported ...Ctx method whose arguments can be built by type and which, on the
//             unchanged calling convention, answers a cancelled context with context.Canceled;
//   rednil:   the commands that hand redis.Nil to the caller for an absent key / member.
// The catalogue is calibrated once per process on throw-away clients (own breakers): calibration
// looks only at the returned error, never at the breaker, so a changed predicate cannot hide in it.
type c01Cmd struct {
	name string
	call func(r *Redis, ctx context.Context, key string) error
}

var (
	c01CatOnce             sync.Once
	c01Canceled, c01RedNil []c01Cmd
)

func c01Arg(t reflect.Type, ctx context.Context, key string) (reflect.Value, bool) {
	switch {
	case t == reflect.TypeOf((*context.Context)(nil)).Elem():
		return reflect.ValueOf(ctx), true
	case t == reflect.TypeOf(time.Duration(0)):
		return reflect.ValueOf(time.Second), true
	}
	switch t.Kind() {
	case reflect.String:
		return reflect.ValueOf(key).Convert(t), true
	case reflect.Int, reflect.Int64, reflect.Int32, reflect.Uint64, reflect.Uint:
		return reflect.ValueOf(1).Convert(t), true
	case reflect.Float64:
		return reflect.ValueOf(1.0), true
	case reflect.Bool:
		return reflect.ValueOf(false), true
	case reflect.Interface:
		if t.NumMethod() == 0 {
			return reflect.ValueOf("v").Convert(reflect.TypeOf("")), true
		}
	case reflect.Slice:
		if e, ok := c01Arg(t.Elem(), ctx, key); ok {
			sl := reflect.MakeSlice(t, 1, 1)
			if t.Elem().Kind() == reflect.Interface {
				sl.Index(0).Set(e)
			} else {
				sl.Index(0).Set(e.Convert(t.Elem()))
			}
			return sl, true
		}
	case reflect.Map:
		if t.Key().Kind() == reflect.String && t.Elem().Kind() == reflect.String {
			m := reflect.MakeMap(t)
			m.SetMapIndex(reflect.ValueOf("f").Convert(t.Key()), reflect.ValueOf("v").Convert(t.Elem()))
			return m, true
		}
	}
	return reflect.Value{}, false
}

func c01Reflected(m reflect.Method) (func(r *Redis, ctx context.Context, key string) error, bool) {
	ft := m.Type
	errT := reflect.TypeOf((*error)(nil)).Elem()
	if ft.NumOut() == 0 || ft.Out(ft.NumOut()-1) != errT || ft.NumIn() < 2 ||
		ft.In(1) != reflect.TypeOf((*context.Context)(nil)).Elem() {
		return nil, false
	}
	for i := 1; i < ft.NumIn(); i++ {
		if _, ok := c01Arg(ft.In(i), context.Background(), "k"); !ok {
			return nil, false
		}
	}
	return func(r *Redis, ctx context.Context, key string) error {
		in := []reflect.Value{reflect.ValueOf(r)}
		for i := 1; i < ft.NumIn(); i++ {
			v, _ := c01Arg(ft.In(i), ctx, key)
			in = append(in, v)
		}
		var out []reflect.Value
		if ft.IsVariadic() {
			out = m.Func.CallSlice(in)
		} else {
			out = m.Func.Call(in)
		}
		if e := out[len(out)-1]; !e.IsNil() {
			return e.Interface().(error)
		}
		return nil
	}, true
}

// c01Probe stands in for the breaker of a throw-away calibration client and only counts whether
// a command goes through a breaker at all (a few wrapper methods, e.g. ScriptLoadCtx, do not:
// they record nothing, so the statement's clauses about recorded outcomes do not apply to them).
type c01Probe struct{ n atomic.Int64 }

func (p *c01Probe) Name() string { return "c01probe" }
func (p *c01Probe) Allow() (breaker.Promise, error) {
	p.n.Add(1)
	return breaker.New().Allow()
}
func (p *c01Probe) Do(req func() error) error { p.n.Add(1); return req() }
func (p *c01Probe) DoWithAcceptable(req func() error, _ breaker.Acceptable) error {
	p.n.Add(1)
	return req()
}
func (p *c01Probe) DoWithFallback(req func() error, _ func(error) error) error {
	p.n.Add(1)
	return req()
}
func (p *c01Probe) DoWithFallbackAcceptable(req func() error, _ func(error) error, _ breaker.Acceptable) error {
	p.n.Add(1)
	return req()
}

// c01Try runs one call on a throw-away client; ok only if it came back in time without a panic.
func c01Try(addr string, f func(r *Redis) error) (err error, ok bool) {
	done := make(chan struct{})
	go func() {
		defer close(done)
		defer func() {
			if recover() != nil {
				ok = false
			}
		}()
		err, ok = f(New(addr)), true
	}()
	select {
	case <-done:
		return
	case <-time.After(2 * time.Second):
		return nil, false
	}
}

func c01Catalogue(addr string) {
	c01CatOnce.Do(func() {
		cctx, cancel := context.WithCancel(context.Background())
		cancel()
		rt := reflect.TypeOf(&Redis{})
		for i := 0; i < rt.NumMethod(); i++ {
			m := rt.Method(i)
			if !strings.HasSuffix(m.Name, "Ctx") {
				continue
			}
			call, ok := c01Reflected(m)
			if !ok {
				continue
			}
			good := true
			for rep := 0; rep < 2 && good; rep++ { // twice: the answer must not depend on a warm connection
				probe := &c01Probe{}
				err, ok := c01Try(addr, func(r *Redis) error { r.brk = probe; return call(r, cctx, "c01:cal:absent") })
				good = ok && err == context.Canceled && probe.n.Load() == 1
			}
			if good {
				c01Canceled = append(c01Canceled, c01Cmd{m.Name, call})
			}
		}
		for _, c := range []c01Cmd{
			{"HGet", func(r *Redis, _ context.Context, k string) error { _, e := r.HGet(k, "f"); return e }},
			{"ZScore", func(r *Redis, _ context.Context, k string) error { _, e := r.ZScore(k, "m"); return e }},
			{"ZRank", func(r *Redis, _ context.Context, k string) error { _, e := r.ZRank(k, "m"); return e }},
			{"ZRevRank", func(r *Redis, _ context.Context, k string) error { _, e := r.ZRevRank(k, "m"); return e }},
			{"LPop", func(r *Redis, _ context.Context, k string) error { _, e := r.LPop(k); return e }},
			{"RPop", func(r *Redis, _ context.Context, k string) error { _, e := r.RPop(k); return e }},
			{"SPop", func(r *Redis, _ context.Context, k string) error { _, e := r.SPop(k); return e }},
			{"ZScoreCtx", func(r *Redis, c context.Context, k string) error { _, e := r.ZScoreCtx(c, k, "m"); return e }},
			{"ZRevRankCtx", func(r *Redis, c context.Context, k string) error { _, e := r.ZRevRankCtx(c, k, "m"); return e }},
			{"ZRankCtx", func(r *Redis, c context.Context, k string) error { _, e := r.ZRankCtx(c, k, "m"); return e }},
		} {
			c := c
			probe := &c01Probe{}
			if err, ok := c01Try(addr, func(r *Redis) error { r.brk = probe; return c.call(r, context.Background(), "c01:cal:absent") }); ok && err == red.Nil && probe.n.Load() == 1 {
				c01RedNil = append(c01RedNil, c)
			}
		}
		sort.Slice(c01Canceled, func(i, j int) bool { return c01Canceled[i].name < c01Canceled[j].name })
	})
}

func (t *c01RedisTarget) via(name, cmd string) {
	if t.vias == nil {
		t.vias = map[string][]string{}
	}
	for _, c := range t.vias[name] {
		if c == cmd {
			return
		}
	}
	t.vias[name] = append(t.vias[name], cmd)
}

func (t *c01RedisTarget) pick(cat []c01Cmd, name string, rep int) c01Cmd {
	h := fnv.New32a()
	h.Write([]byte(name))
	return cat[(t.idx*c01Replicas+rep+int(h.Sum32()%7919))%len(cat)]
}

func (t *c01RedisTarget) Disable(string) { panic("c01 redis driver: disable is not part of the integration table") }

// c01Replicas: every node of a behaviour exists c01Replicas times (own client, own breaker, own
// choice of commands); each call is made on all of them and the first observation that differs
// from the specification's answer is the one reported.
const c01Replicas = 8

func (t *c01RedisTarget) Do(name string, c verifc01.Call) (o verifc01.Obs) {
	eng := verifc01.Get()
	var asked0 []float64
	for rep := 0; rep < c01Replicas; rep++ {
		or := t.do1(fmt.Sprintf("%s#%d", name, rep), rep, c)
		asked := eng.TakeAsked()
		if rep == 0 {
			o, asked0 = or, asked
		}
		off := or.Ret != c.Ret || (len(asked) > 0) != c.Con || len(asked) > 1 ||
			(c.Con && math.Abs(asked[0]*float64(c.Den)-float64(c.Num)) > 1e-9*float64(c.Den))
		if off {
			eng.PutAsked(asked)
			return or
		}
	}
	eng.PutAsked(asked0)
	return o
}

func (t *c01RedisTarget) do1(name string, rep int, c verifc01.Call) (o verifc01.Obs) {
	r := t.nodes[name]
	if r == nil {
		addr := t.up
		if c.Oc == "down" { // the whole behaviour then talks to the node that is down
			addr = t.down
		}
		r = New(addr) // fresh breaker
		if t.nodes == nil {
			t.nodes = map[string]*Redis{}
		}
		t.nodes[name] = r
	}
	t.hits.Store(0)
	var err error
	key := fmt.Sprintf("c01:%d:%s", t.idx, name)
	switch c.Oc {
	case "nil":
		err = r.Set(key+":str", "v")
	case "rednil":
		cmd := t.pick(c01RedNil, name, rep)
		t.via(name, cmd.name)
		err = cmd.call(r, context.Background(), key+":missing")
	case "canceled":
		ctx, cancel := context.WithCancel(context.Background())
		cancel()
		cmd := t.pick(c01Canceled, name, rep)
		t.via(name, cmd.name)
		err = cmd.call(r, ctx, key+":missing")
	case "other", "down":
		// a string where a hash is expected: WRONGTYPE (or a dial error when the node is down)
		if r.Addr == t.up {
			_ = t.mr.Set(key+":wt", "v") // directly in the server: set-up must not pass the breaker
		}
		_, err = r.HGet(key+":wt", "f")
	default:
		panic("c01 redis driver: unknown outcome " + c.Oc)
	}
	switch {
	case err == nil:
		o.Ret = "nil"
	case err == breaker.ErrServiceUnavailable:
		o.Ret = "unavail"
	case err == red.Nil:
		o.Ret = "rednil"
	case err == context.Canceled:
		o.Ret = "canceled"
	case c.Oc == "other" || c.Oc == "down":
		o.Ret = c.Oc // some error of the server or of the connection
	default:
		o.Ret = fmt.Sprintf("other:%v", err)
	}
	if o.Ret == "unavail" {
		fmt.Printf("c01 redis driver: case %d node %s rejected a call; benign outcomes of this node went through %v\n", t.idx, name, t.vias[name])
		o.Req = int(t.hits.Load()) // nothing may have reached the server
	} else {
		o.Req = 1
	}
	return
}

func TestVerifC01Redis(t *testing.T) {
	verifc01.Get()
	up, err := miniredis.Run()
	if err != nil {
		t.Fatal(err)
	}
	defer up.Close()
	dn, err := miniredis.Run()
	if err != nil {
		t.Fatal(err)
	}
	downAddr := dn.Addr()
	dn.Close()
	var hits atomic.Int64
	up.Server().SetPreHook(func(p *server.Peer, cmd string, args ...string) bool {
		hits.Add(1)
		return false
	})
	c01Catalogue(up.Addr())
	if len(c01Canceled) < 60 || len(c01RedNil) < 5 {
		t.Fatalf("c01 redis driver: command catalogue too small (canceled %d, rednil %d)", len(c01Canceled), len(c01RedNil))
	}
	names := []string{}
	for _, c := range c01Canceled {
		names = append(names, c.name)
	}
	fmt.Printf("c01 redis catalogue (canceled): %v\n", names)
	t.Logf("c01 redis catalogue: %d ...Ctx commands answer a cancelled context, %d commands hand out redis.Nil", len(c01Canceled), len(c01RedNil))
	hits.Store(0)
	verifc01.Run(t, func(i int) verifc01.Target {
		return &c01RedisTarget{idx: i, up: up.Addr(), down: downAddr, hits: &hits, mr: up}
	})
}
