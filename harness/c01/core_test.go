package breaker_test

// Black-box replay driver for property C01 on lib/breaker (overlaid into /repo as
// lib/breaker/zz_verif_c01_test.go).  It only uses the public API:
// breaker.New / Get / Do* / Allow / NoBreakerFor and the package-level Do* functions.

import (
	"errors"
	"fmt"
	"os"
	"strings"
	"sync"
	"testing"

	"github.com/gotid/god/internal/verifc01"
	kit "github.com/gotid/god/internal/verifkit"
	"github.com/gotid/god/lib/breaker"
)

var (
	errAcc   = errors.New("c01: error the caller's predicate accepts")
	errUnacc = errors.New("c01: error the caller's predicate does not accept")
	errFb    = errors.New("c01: value returned by the fallback")
)

// The two errors of the specification ("acc", "err") are classes of error VALUES: what the
// breaker may look at is the caller's predicate, never the text of the error (the logging wrapper
// feeds err.Error() to its error report).  Each class has a value with a short, an empty and a
// long message; a call picks one (seeded).
var (
	errAccs   = []error{errAcc, errors.New(""), errors.New("c01 acc " + strings.Repeat("a", 6000))}
	errUnaccs = []error{errUnacc, errors.New(""), errors.New("c01 err " + strings.Repeat("e\n%d", 2000))}
)

func classOf(err error) string {
	for _, e := range errAccs {
		if err == e {
			return "acc"
		}
	}
	for _, e := range errUnaccs {
		if err == e {
			return "err"
		}
	}
	return ""
}

// reasons are the texts handed to Promise.Reject, by the reason class of the call kind
// (Breaker.tla: 0 short, 1 empty, 2 long, 3 line breaks / format verbs / NUL).
var reasons = []string{
	"c01 reason",
	"",
	"c01 long reason " + strings.Repeat("r", 8192),
	"c01 line one\nline two\r\n%d %s %v %!x(MISSING) 100%\x00 end",
}

type panicValue struct{ id int }

// predicate builds the caller's acceptable-predicate of a call kind from the specification's
// description of it (Breaker.tla: the set of results it accepts, bit 1 = nil, bit 2 = errAcc,
// bit 4 = errUnacc).  It is a function of the error VALUE only, e.g. 6 rejects nil.
func predicate(mask int) breaker.Acceptable {
	return func(err error) bool {
		if err == nil {
			return mask&1 != 0
		}
		switch classOf(err) {
		case "acc":
			return mask&2 != 0
		case "err":
			return mask&4 != 0
		}
		return false // an error the protected function never returns
	}
}

// mix is a small integer hash (splitmix64 finalizer): seeded choices must not correlate with
// the position of a call in its burst.
func mix(x uint64) uint64 {
	x += 0x9e3779b97f4a7c15
	x = (x ^ (x >> 30)) * 0xbf58476d1ce4e5b9
	x = (x ^ (x >> 27)) * 0x94d049bb133111eb
	return x ^ (x >> 31)
}

func errLabel(err error) string {
	switch err {
	case nil:
		return "ok"
	case errFb:
		return "fb"
	case breaker.ErrServiceUnavailable:
		return "unavail"
	}
	if c := classOf(err); c != "" {
		return c
	}
	return "other:" + err.Error()
}

type coreTarget struct {
	prefix  string
	private map[string]breaker.Breaker
	ncalls  int
	mu      sync.Mutex
	seed    int64
	idx     int
}

func (t *coreTarget) real(name string) string { return t.prefix + name }

// The name says how the breaker comes into being (Breaker.tla, call kinds): "p.." is a private
// instance made with breaker.New(WithName(..)), "q.." a private instance made with breaker.New()
// (generated name); all others live in the process-wide registry.
func (t *coreTarget) isPrivate(name string) bool { return name[0] == 'p' || name[0] == 'q' }

func (t *coreTarget) Disable(name string) { breaker.NoBreakerFor(t.real(name)) }

func (t *coreTarget) Do(name string, c verifc01.Call) verifc01.Obs {
	return t.doWith(name, c, nil, nil)
}

// doWith performs one call; onReq / onFb (optional) are called from inside the protected
// function / the fallback (the trace recorder logs its events there).
func (t *coreTarget) doWith(name string, c verifc01.Call, onReq func(), onFb func(arg string)) (o verifc01.Obs) {
	t.mu.Lock() // Do is called from several goroutines in parallel bursts
	t.ncalls++
	ncalls := t.ncalls
	var b breaker.Breaker
	viaPkg := false
	if t.isPrivate(name) {
		b = t.private[name]
		if b == nil {
			if t.private == nil {
				t.private = map[string]breaker.Breaker{}
			}
			if name[0] == 'q' {
				b = breaker.New()
			} else {
				b = breaker.New(breaker.WithName(t.real(name)))
			}
			t.private[name] = b
		}
	} else {
		// both ways into the registry are the same breaker: pick one (seeded)
		viaPkg = mix(uint64(t.seed)*1000003+uint64(t.idx)*7919+uint64(ncalls))&1 == 0
		if !viaPkg {
			b = breaker.Get(t.real(name))
		}
	}
	t.mu.Unlock()
	variant := int((mix(uint64(t.seed)*7368787+uint64(t.idx)*104729+uint64(ncalls)) >> 8) % 3) // which value of the error class
	pv := &panicValue{ncalls}
	acceptable := predicate(c.N)
	req := func() error {
		o.Req++
		if onReq != nil {
			onReq()
		}
		switch c.Oc {
		case "ok":
			return nil
		case "acc":
			return errAccs[variant]
		case "err":
			return errUnaccs[variant]
		case "panic":
			panic(pv)
		}
		panic("c01 driver: unknown outcome " + c.Oc)
	}
	fb := func(err error) error {
		o.Fb++
		if err == breaker.ErrServiceUnavailable {
			o.FbArg = "unavail"
		} else {
			o.FbArg = fmt.Sprintf("other:%v", err)
		}
		if onFb != nil {
			onFb(o.FbArg)
		}
		return errFb
	}
	if c.Api == "allow" {
		if b == nil {
			b = breaker.Get(t.real(name))
		}
		p, err := b.Allow()
		if err != nil {
			o.Ret = errLabel(err)
			return
		}
		o.Req++ // the promise callback
		if onReq != nil {
			onReq()
		}
		switch {
		case c.Oc == "accept":
			p.Accept()
		case c.Oc == "reject" && c.N >= 0 && c.N < len(reasons):
			p.Reject(reasons[c.N])
		default:
			panic(fmt.Sprintf("c01 core driver: unknown promise call %s/%d", c.Oc, c.N))
		}
		o.Ret = "nil"
		return
	}
	var err error
	func() {
		defer func() {
			if p := recover(); p != nil {
				if p == any(pv) {
					o.Ret = "panic"
				} else {
					o.Ret = fmt.Sprintf("other-panic:%v", p)
				}
			}
		}()
		rn := t.real(name)
		switch c.Api {
		case "do":
			if viaPkg {
				err = breaker.Do(rn, req)
			} else {
				err = b.Do(req)
			}
		case "doacc":
			if viaPkg {
				err = breaker.DoWithAcceptable(rn, req, acceptable)
			} else {
				err = b.DoWithAcceptable(req, acceptable)
			}
		case "dofb":
			if viaPkg {
				err = breaker.DoWithFallback(rn, req, fb)
			} else {
				err = b.DoWithFallback(req, fb)
			}
		case "dofbacc":
			if viaPkg {
				err = breaker.DoWithFallbackAcceptable(rn, req, fb, acceptable)
			} else {
				err = b.DoWithFallbackAcceptable(req, fb, acceptable)
			}
		default:
			panic("c01 core driver: unknown api " + c.Api)
		}
		o.Ret = errLabel(err)
		if c.Oc == "panic" && o.Req > 0 {
			o.Ret = "panic-swallowed:" + o.Ret
		}
	}()
	return
}

func TestVerifC01Core(t *testing.T) {
	pid := os.Getpid()
	seed := kit.Seed()
	verifc01.Run(t, func(i int) verifc01.Target {
		return &coreTarget{prefix: fmt.Sprintf("c01/%d/%d/", pid, i), seed: seed, idx: i}
	})
}
