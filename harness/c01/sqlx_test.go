package sqlx

// C01 integration driver: sqlx.Conn (overlaid as lib/store/sqlx/zz_verif_c01_test.go).
// A scripted database/sql driver produces the outcome the behaviour asks for; the driver
// counts how often it was reached (= the protected function ran).  Only the public API is
// used: NewConnFromDB, Exec, QueryRow, Prepare, Transact.

import (
	"context"
	"database/sql"
	"database/sql/driver"
	"errors"
	"fmt"
	"io"
	"strings"
	"testing"

	"github.com/gotid/god/internal/verifc01"
	"github.com/gotid/god/lib/breaker"
)

var (
	c01ErrOther = errors.New("c01: some driver error")
	c01Script   struct {
		err   error // what the scripted driver answers
		empty bool  // queries return no row
		hits  int
	}
)

type c01Driver struct{}
type c01Conn struct{}
type c01Stmt struct{}
type c01Tx struct{}
type c01Rows struct{ left int }

func (c01Driver) Open(string) (driver.Conn, error) { return c01Conn{}, nil }

func (c01Conn) Prepare(string) (driver.Stmt, error) {
	c01Script.hits++
	if c01Script.err != nil {
		return nil, c01Script.err
	}
	return c01Stmt{}, nil
}
func (c01Conn) Close() error              { return nil }
func (c01Conn) Begin() (driver.Tx, error) { return c01Tx{}, nil }
func (c01Conn) ExecContext(context.Context, string, []driver.NamedValue) (driver.Result, error) {
	c01Script.hits++
	if c01Script.err != nil {
		return nil, c01Script.err
	}
	return driver.RowsAffected(1), nil
}
func (c01Conn) QueryContext(context.Context, string, []driver.NamedValue) (driver.Rows, error) {
	c01Script.hits++
	if c01Script.err != nil {
		return nil, c01Script.err
	}
	if c01Script.empty {
		return &c01Rows{0}, nil
	}
	return &c01Rows{1}, nil
}
func (c01Stmt) Close() error                               { return nil }
func (c01Stmt) NumInput() int                              { return -1 }
func (c01Stmt) Exec([]driver.Value) (driver.Result, error) { return driver.RowsAffected(1), nil }
func (c01Stmt) Query([]driver.Value) (driver.Rows, error)  { return &c01Rows{1}, nil }
func (c01Tx) Commit() error                                { return nil }
func (c01Tx) Rollback() error                              { return nil }
func (r *c01Rows) Columns() []string                       { return []string{"v"} }
func (r *c01Rows) Close() error                            { return nil }
func (r *c01Rows) Next(dest []driver.Value) error {
	if r.left == 0 {
		return io.EOF
	}
	r.left--
	dest[0] = int64(7)
	return nil
}

func init() { sql.Register("c01fake", c01Driver{}) }

func c01Outcome(oc string) (err error, empty bool) {
	switch oc {
	case "nil":
		return nil, false
	case "norows":
		return sql.ErrNoRows, true
	case "txdone":
		return sql.ErrTxDone, false
	case "canceled":
		return context.Canceled, false
	case "deadline":
		return context.DeadlineExceeded, false
	case "other":
		return c01ErrOther, false
	}
	panic("c01 sqlx driver: unknown outcome " + oc)
}

func c01Label(err error) string {
	switch err {
	case nil:
		return "nil"
	case sql.ErrNoRows:
		return "norows"
	case sql.ErrTxDone:
		return "txdone"
	case context.Canceled:
		return "canceled"
	case context.DeadlineExceeded:
		return "deadline"
	case c01ErrOther:
		return "other"
	case breaker.ErrServiceUnavailable:
		return "unavail"
	}
	return fmt.Sprintf("other:%v", err)
}

type c01SQLTarget struct {
	db    *sql.DB
	conns map[string]Conn
}

func (t *c01SQLTarget) Disable(string) { panic("c01 sqlx driver: disable is not part of the integration table") }

func (t *c01SQLTarget) Do(name string, c verifc01.Call) (o verifc01.Obs) {
	// api = operation[@flavour]; the flavour is how the connection was configured
	op, flavour := c.Api, ""
	if i := strings.IndexByte(c.Api, '@'); i >= 0 {
		op, flavour = c.Api[:i], c.Api[i+1:]
	}
	conn := t.conns[name]
	if conn == nil {
		// a fresh connection wrapper owns a fresh breaker
		switch flavour {
		case "":
			conn = NewConnFromDB(t.db)
		case "mysql": // what NewMySQL appends to every connection it makes
			conn = NewConnFromDB(t.db, withMySQLAcceptable())
		case "custom": // a user-supplied accept option that accepts nothing extra
			conn = NewConnFromDB(t.db, func(cc *commonConn) {
				cc.accept = func(error) bool { return false }
			})
		default:
			panic("c01 sqlx driver: unknown connection flavour " + flavour)
		}
		if t.conns == nil {
			t.conns = map[string]Conn{}
		}
		t.conns[name] = conn
	}
	want, empty := c01Outcome(c.Oc)
	c01Script.err, c01Script.empty, c01Script.hits = want, empty, 0
	var err error
	switch op {
	case "sql_exec":
		_, err = conn.Exec("update t set v = 1")
		o.Req = c01Script.hits
	case "sql_query":
		if empty {
			c01Script.err = nil // the natural way to get ErrNoRows: an empty result set
		}
		var v int
		err = conn.QueryRow(&v, "select v from t")
		o.Req = c01Script.hits
		if err == nil && v != 7 {
			err = fmt.Errorf("row value lost: %d", v)
		}
	case "sql_prepare":
		var st StmtSession
		st, err = conn.Prepare("select v from t where id = ?")
		o.Req = c01Script.hits
		if err == nil {
			_ = st.Close()
		}
	case "sql_transact":
		err = conn.Transact(func(Session) error {
			o.Req++
			return want
		})
	default:
		panic("c01 sqlx driver: unknown api " + c.Api)
	}
	o.Ret = c01Label(err)
	return
}

func TestVerifC01SQL(t *testing.T) {
	verifc01.Get()
	db, err := sql.Open("c01fake", "c01")
	if err != nil {
		t.Fatal(err)
	}
	db.SetMaxOpenConns(1)
	verifc01.Run(t, func(i int) verifc01.Target { return &c01SQLTarget{db: db} })
}
