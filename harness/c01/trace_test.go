package breaker_test

// Trace recorder for property C01 (overlaid as lib/breaker/zz_verif_c01_trace_test.go).
// Concurrent calls on one real breaker at a frozen virtual clock, with a seeded coin; every
// call logs inv / req / fb / ret, the coin hook logs coin; TLC validates the histories against
// spec/BreakerTrace.tla (the window reads and the outcome marks are placed by TLC).

import (
	"fmt"
	"math"
	"math/rand"
	"os"
	"runtime"
	"sync"
	"testing"
	"time"

	"github.com/gotid/god/internal/verifc01"
	kit "github.com/gotid/god/internal/verifkit"
)

var c01Kinds = [][2]string{
	{"do", "ok"}, {"doacc", "ok"}, {"doacc", "acc"}, {"dofb", "ok"}, {"dofbacc", "ok"}, {"dofbacc", "acc"}, {"allow", "accept"},
	{"do", "err"}, {"do", "panic"}, {"doacc", "err"}, {"doacc", "panic"}, {"dofb", "err"}, {"dofb", "panic"},
	{"dofbacc", "err"}, {"dofbacc", "panic"}, {"allow", "reject"},
}

const c01FirstFail = 7 // index of the first failing kind in c01Kinds

func TestVerifC01Trace(t *testing.T) {
	path := kit.Env("VERIF_TRACE", "")
	if path == "" {
		t.Skip("VERIF_TRACE not set")
	}
	tr, err := kit.NewTracer(path)
	if err != nil {
		t.Fatal(err)
	}
	defer tr.Close()
	e := verifc01.Get()
	rounds := kit.EnvInt("VERIF_ROUNDS", 50)
	shard := kit.EnvInt("VERIF_SHARD", 0)
	rng := rand.New(rand.NewSource(kit.Seed()*1000003 + int64(shard)))
	var coinRng *rand.Rand
	var lenient float64
	e.SetCoinFunc(func(p float64) bool { // runs under the engine's mutex
		ans := coinRng.Float64() >= lenient
		tr.Emit(kit.M{"e": "coin", "pm": int(math.Round(p * 1e6)), "ans": ans})
		return ans
	})
	defer e.SetCoinFunc(nil)
	pid := os.Getpid()
	ncalls := 0
	for r := 0; r < rounds; r++ {
		tg := &coreTarget{prefix: fmt.Sprintf("c01trace/%d/%d/%d/", pid, shard, r), seed: kit.Seed()}
		name := "a"
		if rng.Intn(3) == 0 {
			name = "p" // a private breaker (breaker.New) instead of the registry
		}
		coinRng = rand.New(rand.NewSource(rng.Int63()))
		lenient = []float64{0, 0.3, 0.7}[rng.Intn(3)] // share of "do not reject" answers
		tr.Emit(kit.M{"e": "reset", "kind": "core"})
		one := func(p int, k [2]string, yield bool) {
			tr.Emit(kit.M{"e": "inv", "p": p, "api": k[0], "oc": k[1]})
			o := tg.doWith(name, verifc01.Call{Api: k[0], Oc: k[1]}, func() {
				tr.Emit(kit.M{"e": "req", "p": p})
				if yield {
					runtime.Gosched()
				}
			}, func(arg string) {
				tr.Emit(kit.M{"e": "fb", "p": p, "arg": arg})
			})
			tr.Emit(kit.M{"e": "ret", "p": p, "r": o.Ret})
		}
		phases := 1 + rng.Intn(2)
		for ph := 0; ph < phases; ph++ {
			// sequential preload brings the window near the threshold
			pre := rng.Intn(9)
			for i := 0; i < pre; i++ {
				var k [2]string
				if rng.Intn(4) == 0 {
					k = c01Kinds[rng.Intn(c01FirstFail)]
				} else {
					k = c01Kinds[c01FirstFail+rng.Intn(len(c01Kinds)-c01FirstFail)]
				}
				one(0, k, false)
				ncalls++
			}
			g := 2 + rng.Intn(3)
			per := 1 + rng.Intn(3)
			plan := make([][][2]string, g)
			for w := range plan {
				for i := 0; i < per; i++ {
					plan[w] = append(plan[w], c01Kinds[rng.Intn(len(c01Kinds))])
				}
			}
			yield := rng.Intn(2) == 0
			var wg sync.WaitGroup
			start := make(chan struct{})
			for w := 0; w < g; w++ {
				wg.Add(1)
				go func(w int) {
					defer wg.Done()
					<-start
					for _, k := range plan[w] {
						one(w, k, yield)
					}
				}(w)
			}
			close(start)
			wg.Wait()
			ncalls += g * per
			// sequential probe: a few failures; their consults reveal the window after the storm
			for i := 0; i < 4; i++ {
				one(0, c01Kinds[c01FirstFail+rng.Intn(len(c01Kinds)-c01FirstFail)], false)
				ncalls++
			}
			if ph+1 < phases {
				e.Clock.Advance(10*time.Second + time.Duration(rng.Intn(3))*verifc01.Tick)
				tr.Emit(kit.M{"e": "age"})
			}
		}
		e.Clock.Advance(time.Duration(rng.Intn(50)) * verifc01.Tick)
	}
	fmt.Printf("C01TRACES rounds=%d calls=%d events=%d\n", rounds, ncalls, tr.N)
}
