package breaker_test

// Trace recorder for property C01 (overlaid as lib/breaker/zz_verif_c01_trace_test.go).
// Concurrent calls on one real breaker at a frozen virtual clock, with a seeded coin; every
// call logs inv / req / fb / ret, the coin hook logs coin; TLC validates the histories against
// spec/BreakerTrace.tla (the window reads and the outcome marks are placed by TLC).

import (
	"fmt"
	"math"
	"math/rand"
	"os"
	"runtime"
	"sync"
	"testing"
	"time"

	"github.com/gotid/god/internal/verifc01"
	kit "github.com/gotid/god/internal/verifkit"
)

// kinds of calls: api, outcome of the protected function, acceptable-predicate (Breaker.tla: set of
// accepted results, bit 1 = nil, 2 = errAcc, 4 = errUnacc; unused for do/dofb; for allow/reject the
// class of the reason handed to Promise.Reject: 0 short, 1 empty, 2 long, 3 line breaks / verbs)
type c01Kind struct {
	api, oc string
	n       int
}

var c01Kinds = []c01Kind{
	// successes
	{"do", "ok", 0}, {"doacc", "ok", 3}, {"doacc", "acc", 3}, {"dofb", "ok", 0}, {"dofbacc", "ok", 3}, {"dofbacc", "acc", 3},
	{"allow", "accept", 0}, {"doacc", "err", 7}, {"dofbacc", "err", 4}, {"doacc", "acc", 2}, {"dofbacc", "ok", 5},
	// failures
	{"do", "err", 0}, {"do", "panic", 0}, {"doacc", "err", 3}, {"doacc", "panic", 3}, {"dofb", "err", 0}, {"dofb", "panic", 0},
	{"dofbacc", "err", 3}, {"dofbacc", "panic", 3}, {"allow", "reject", 0}, {"allow", "reject", 1}, {"allow", "reject", 2},
	{"allow", "reject", 3},
	{"doacc", "ok", 6}, {"dofbacc", "ok", 2}, {"doacc", "ok", 0}, {"dofbacc", "acc", 5}, {"doacc", "panic", 7},
}

const c01FirstFail = 11 // index of the first failing kind in c01Kinds

func TestVerifC01Trace(t *testing.T) {
	path := kit.Env("VERIF_TRACE", "")
	if path == "" {
		t.Skip("VERIF_TRACE not set")
	}
	tr, err := kit.NewTracer(path)
	if err != nil {
		t.Fatal(err)
	}
	defer tr.Close()
	e := verifc01.Get()
	rounds := kit.EnvInt("VERIF_ROUNDS", 50)
	shard := kit.EnvInt("VERIF_SHARD", 0)
	rng := rand.New(rand.NewSource(kit.Seed()*1000003 + int64(shard)))
	var coinRng *rand.Rand
	var lenient float64
	e.SetCoinFunc(func(p float64) bool { // runs under the engine's mutex
		ans := coinRng.Float64() >= lenient
		tr.Emit(kit.M{"e": "coin", "pm": int(math.Round(p * 1e6)), "ans": ans})
		return ans
	})
	defer e.SetCoinFunc(nil)
	pid := os.Getpid()
	ncalls := 0
	for r := 0; r < rounds; r++ {
		tg := &coreTarget{prefix: fmt.Sprintf("c01trace/%d/%d/%d/", pid, shard, r), seed: kit.Seed()}
		name := "a"
		switch rng.Intn(6) {
		case 0, 1:
			name = "p" // a private breaker (breaker.New(WithName)) instead of the registry
		case 2:
			name = "q" // a private breaker with a generated name (breaker.New())
		}
		coinRng = rand.New(rand.NewSource(rng.Int63()))
		lenient = []float64{0, 0.3, 0.7}[rng.Intn(3)] // share of "do not reject" answers
		tr.Emit(kit.M{"e": "reset", "kind": "core"})
		one := func(p int, k c01Kind, yield bool) {
			tr.Emit(kit.M{"e": "inv", "p": p, "api": k.api, "oc": k.oc, "n": k.n})
			o := tg.doWith(name, verifc01.Call{Api: k.api, Oc: k.oc, N: k.n}, func() {
				tr.Emit(kit.M{"e": "req", "p": p})
				if yield {
					runtime.Gosched()
				}
			}, func(arg string) {
				tr.Emit(kit.M{"e": "fb", "p": p, "arg": arg})
			})
			tr.Emit(kit.M{"e": "ret", "p": p, "r": o.Ret})
		}
		phases := 1 + rng.Intn(2)
		for ph := 0; ph < phases; ph++ {
			// sequential preload brings the window near the threshold
			pre := rng.Intn(9)
			for i := 0; i < pre; i++ {
				var k c01Kind
				if rng.Intn(4) == 0 {
					k = c01Kinds[rng.Intn(c01FirstFail)]
				} else {
					k = c01Kinds[c01FirstFail+rng.Intn(len(c01Kinds)-c01FirstFail)]
				}
				one(0, k, false)
				ncalls++
			}
			g := 2 + rng.Intn(3)
			per := 1 + rng.Intn(3)
			plan := make([][]c01Kind, g)
			for w := range plan {
				for i := 0; i < per; i++ {
					plan[w] = append(plan[w], c01Kinds[rng.Intn(len(c01Kinds))])
				}
			}
			yield := rng.Intn(2) == 0
			var wg sync.WaitGroup
			start := make(chan struct{})
			for w := 0; w < g; w++ {
				wg.Add(1)
				go func(w int) {
					defer wg.Done()
					<-start
					for _, k := range plan[w] {
						one(w, k, yield)
					}
				}(w)
			}
			close(start)
			wg.Wait()
			ncalls += g * per
			// sequential probe: a few failures; their consults reveal the window after the storm
			for i := 0; i < 4; i++ {
				one(0, c01Kinds[c01FirstFail+rng.Intn(len(c01Kinds)-c01FirstFail)], false)
				ncalls++
			}
			if ph+1 < phases {
				e.Clock.Advance(10*time.Second + time.Duration(rng.Intn(3))*verifc01.Tick)
				tr.Emit(kit.M{"e": "age"})
			}
		}
		e.Clock.Advance(time.Duration(rng.Intn(50)) * verifc01.Tick)
	}
	fmt.Printf("C01TRACES rounds=%d calls=%d events=%d\n", rounds, ncalls, tr.N)
}
