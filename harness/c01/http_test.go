package handler

// C01 integration driver: api/handler.BreakerHandler (overlaid as api/handler/zz_verif_c01_test.go).
// One call = one request through the middleware; the downstream handler answers with the
// status the behaviour asks for.  Observed: did the downstream handler run, which status did
// the client get (503 without the downstream handler having run = rejected).

import (
	"fmt"
	"net/http"
	"net/http/httptest"
	"strconv"
	"testing"

	"github.com/gotid/god/internal/verifc01"
	"github.com/gotid/god/lib/stat"
)

type c01HTTPTarget struct {
	idx      int
	metrics  *stat.Metrics
	handlers map[string]http.Handler
	ran      int
	call     verifc01.Call
}

func (t *c01HTTPTarget) Disable(string) { panic("c01 http driver: disable is not part of the integration table") }

func (t *c01HTTPTarget) Do(name string, c verifc01.Call) (o verifc01.Obs) {
	h := t.handlers[name]
	if h == nil {
		mw := BreakerHandler(http.MethodGet, fmt.Sprintf("/c01/%d/%s", t.idx, name), t.metrics)
		h = mw(http.HandlerFunc(func(w http.ResponseWriter, r *http.Request) {
			t.ran++
			if t.call.Oc == "implicit" {
				_, _ = w.Write([]byte("body")) // no explicit WriteHeader: status 200
				return
			}
			w.WriteHeader(t.call.N)
		}))
		if t.handlers == nil {
			t.handlers = map[string]http.Handler{}
		}
		t.handlers[name] = h
	}
	t.ran, t.call = 0, c
	rec := httptest.NewRecorder()
	h.ServeHTTP(rec, httptest.NewRequest(http.MethodGet, "http://localhost/c01", http.NoBody))
	o.Req = t.ran
	switch {
	case t.ran == 0 && rec.Code == http.StatusServiceUnavailable:
		o.Ret = "unavail"
	case c.Oc == "implicit" && rec.Code == http.StatusOK:
		o.Ret = "implicit"
	default:
		o.Ret = strconv.Itoa(rec.Code)
	}
	return
}

func TestVerifC01HTTP(t *testing.T) {
	verifc01.Get()
	metrics := stat.NewMetrics("c01")
	verifc01.Run(t, func(i int) verifc01.Target { return &c01HTTPTarget{idx: i, metrics: metrics} })
}
