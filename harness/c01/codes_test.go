package codes

// C01 integration driver: rpc/internal/codes.Acceptable as the predicate of a real breaker
// (overlaid as rpc/internal/codes/zz_verif_c01_test.go).

import (
	"fmt"
	"os"
	"testing"

	"github.com/gotid/god/internal/verifc01"
	"github.com/gotid/god/internal/verifc01/grpcerr"
	"github.com/gotid/god/lib/breaker"
)

type c01CodesTarget struct{ prefix string }

func (t *c01CodesTarget) Disable(string) { panic("c01 codes driver: disable is not part of the integration table") }

func (t *c01CodesTarget) Do(name string, c verifc01.Call) (o verifc01.Obs) {
	want := grpcerr.Want(c) // the row's error value (status / wrapped / plain / context / foreign), nil for OK
	err := breaker.DoWithAcceptable(t.prefix+name, func() error {
		o.Req++
		return want
	}, Acceptable)
	o.Ret = grpcerr.Label(err, want)
	return
}

func TestVerifC01Codes(t *testing.T) {
	pid := os.Getpid()
	verifc01.Run(t, func(i int) verifc01.Target { return &c01CodesTarget{prefix: fmt.Sprintf("c01codes/%d/%d/", pid, i)} })
}
