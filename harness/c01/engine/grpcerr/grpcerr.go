// Package grpcerr is overlaid into /repo as internal/verifc01/grpcerr by /verif/checks/c01.py.
// It builds the error VALUES of the gRPC rows of the C01 integration table (spec/Breaker.tla,
// GrpcCode): the same gRPC code can reach the breaker predicate as a status error, as a wrapped
// status error, as a plain Go error, as a context error or as a foreign type with a GRPCStatus()
// method.  Shared by the codes / client interceptor / server interceptor drivers.
package grpcerr

import (
	"context"
	"errors"
	"fmt"

	"github.com/gotid/god/internal/verifc01"
	"github.com/gotid/god/lib/breaker"
	gcodes "google.golang.org/grpc/codes"
	"google.golang.org/grpc/status"
)

// foreign is an error type of somebody else's package that carries a gRPC status.
type foreign struct{ st *status.Status }

func (f *foreign) Error() string              { return "c01 foreign error: " + f.st.Message() }
func (f *foreign) GRPCStatus() *status.Status { return f.st }

var errPlain = errors.New("c01: a business error (plain Go error)")

// Make returns the error value of the row n = 100*kind + code (nil for status code OK).
func Make(n int) error {
	kind, code := n/100, gcodes.Code(n%100)
	switch kind {
	case 0:
		return status.Error(code, "c01") // nil for OK
	case 1:
		return fmt.Errorf("c01 wrapped: %w", status.Error(code, "c01"))
	case 2:
		return errPlain
	case 3:
		return context.Canceled
	case 4:
		return context.DeadlineExceeded
	case 5:
		return &foreign{st: status.New(code, "c01")}
	}
	panic(fmt.Sprintf("c01 grpc drivers: unknown error kind in n=%d", n))
}

// Want returns the error value the protected function has to return for call c, after checking
// the specification's table of code assignment against the grpc library this binary is linked
// with (a mismatch is a harness problem: the panic becomes an Infra verdict in the engine).
func Want(c verifc01.Call) error {
	err := Make(c.N)
	if !c.Rej && status.Code(err).String() != c.Ret {
		panic(fmt.Sprintf("c01 grpc drivers: specification says grpc assigns code %s to %T %q (n=%d), the linked grpc library assigns %s: "+
			"GrpcCode/GrpcUnwraps of spec/Breaker.tla is out of date", c.Ret, err, err, c.N, status.Code(err)))
	}
	return err
}

// Label is what the caller got back: "unavail", the gRPC code grpc assigns to the error when it
// is the very value the protected function returned, "other:.." otherwise.
func Label(err, want error) string {
	switch {
	case err == breaker.ErrServiceUnavailable:
		return "unavail"
	case err != want:
		return fmt.Sprintf("other:%v (wanted the handler's own error value %v)", err, want)
	}
	return status.Code(err).String()
}
