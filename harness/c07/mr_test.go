package mr_test

// Black-box driver for property C07 (overlaid into lib/mr as an external test package by
// /verif/bin/check).  Every case is one scenario of spec/MRContract.tla with the set of results
// the contract allows (computed by TLC).  The driver acts the scenario out with instrumented user
// functions through the public entry points mr.MapReduce / MapReduceVoid / MapReduceChan /
// ForEach / Finish / FinishVoid, many times with seeded random yields inside the user functions,
// and only compares:
//   - the result (value / error / re-raised panic) is a member of `allowed`;
//   - scenarios without cancellation: every item mapped exactly once, every mapper write received
//     by the reducer exactly once (reducer reading the pipe to its end), never more than `workers`
//     mappers inside the user function;
//   - the call returns (a consistent all-goroutines snapshot in which every goroutine of the call
//     is blocked on a channel / lock while the call has not returned is a proven hang);
//   - after the generator function has returned (and the "late" user functions were released) no
//     goroutine started by the call is left (survivors are proven blocked by the same kind of
//     snapshot; their stacks are attached).
// Nothing in a verdict depends on timing: time-outs without a proof of blockage are Infra.

import (
	"bytes"
	"context"
	"encoding/json"
	"errors"
	"fmt"
	"math/rand"
	"os"
	"regexp"
	"runtime"
	"sort"
	"strconv"
	"strings"
	"sync"
	"sync/atomic"
	"testing"
	"time"

	kit "github.com/gotid/god/internal/verifkit"
	"github.com/gotid/god/lib/mr"
)

type c07Outcome struct {
	Kind string `json:"kind"`
	Val  string `json:"val"`
}

type c07Scenario struct {
	API        string       `json:"api"`
	N          int          `json:"n"`
	Workers    int          `json:"workers"`
	MB         []string     `json:"mb"`
	RStop      int          `json:"rstop"`
	RW         int          `json:"rw"`
	REnd       string       `json:"rend"`
	GenK       int          `json:"genk"`
	Ctx        string       `json:"ctx"`
	Allowed    []c07Outcome `json:"allowed"`
	MapAll     bool         `json:"mapAll"`
	DeliverAll bool         `json:"deliverAll"`
	Written    []int        `json:"written"`
	Late       bool         `json:"late"`
	CErr       []string     `json:"cerr"`
	Val        string       `json:"val"`   // kind of the values the user functions write ("ord" = distinct ordinary values)
	Order      string       `json:"order"` // directed scenario: what the driver establishes before the reducer writes
}

func (s *c07Scenario) String() string {
	o := ""
	if s.Order != "" {
		o = " order=" + s.Order
	}
	if s.Val != "" && s.Val != "ord" {
		o += " values=" + s.Val
	}
	return fmt.Sprintf("%s n=%d workers=%d mb=%v reducer(stop=%d writes=%d end=%s) genk=%d ctx=%s%s",
		s.API, s.N, s.Workers, s.MB, s.RStop, s.RW, s.REnd, s.GenK, s.Ctx, o)
}

type c07UserPanic string // panic values raised by the scenario's user functions

type c07Err struct{ name string }

func (e *c07Err) Error() string { return "c07 error " + e.name }

// ------------------------------------------------------------------ goroutine snapshots

type c07G struct {
	id      int
	state   string
	text    string
	related bool // has a frame of lib/mr or of this driver
}

var (
	c07HeadRe = regexp.MustCompile(`^goroutine (\d+) \[([^\]]*)\]:`)
	c07SelfID = func() int {
		buf := make([]byte, 64)
		buf = buf[:runtime.Stack(buf, false)]
		m := c07HeadRe.FindSubmatch(buf)
		n, _ := strconv.Atoi(string(m[1]))
		return n
	}
)

func c07Snapshot() []c07G {
	buf := make([]byte, 1<<20)
	for {
		n := runtime.Stack(buf, true)
		if n < len(buf) {
			buf = buf[:n]
			break
		}
		buf = make([]byte, 2*len(buf))
	}
	var out []c07G
	for _, blk := range bytes.Split(buf, []byte("\n\n")) {
		m := c07HeadRe.FindSubmatch(blk)
		if m == nil {
			continue
		}
		id, _ := strconv.Atoi(string(m[1]))
		t := string(blk)
		out = append(out, c07G{id: id, state: string(m[2]), text: t,
			related: strings.Contains(t, "god/lib/mr.") || strings.Contains(t, "god/lib/mr_test.")})
	}
	return out
}

func c07Blocked(state string) bool {
	for _, p := range []string{"chan send", "chan receive", "select", "semacquire", "sync.Mutex.Lock", "sync.RWMutex",
		"sync.WaitGroup.Wait", "sync.Cond.Wait"} {
		if strings.HasPrefix(state, p) {
			return true
		}
	}
	return false
}

var c07FrameRe = regexp.MustCompile(`(?m)^(github\.com/gotid/god/lib/mr\.[^\n]*)\n\t[^\n]*/(mapreduce\.go:\d+)`)

// c07Where renders where a goroutine sits inside lib/mr: its topmost lib/mr frame.
func c07Where(g c07G) string {
	m := c07FrameRe.FindStringSubmatch(g.text)
	if m == nil {
		return "[" + g.state + "] (no lib/mr frame)"
	}
	fn := strings.TrimPrefix(m[1], "github.com/gotid/god/lib/mr.")
	if j := strings.LastIndex(fn, "("); j > 0 {
		fn = fn[:j]
	}
	return "[" + g.state + "] " + fn + " " + m[2]
}

func c07InFunc(g c07G, fn string) bool { return strings.Contains(g.text, "god/lib/mr."+fn) }

// ------------------------------------------------------------------ one execution of a scenario

type c07Run struct {
	sc         *c07Scenario
	seed       int64
	mapped     []int32
	running    int32
	maxRunning int32
	mu         sync.Mutex
	received   []string // rendered values (c07Render) the reducer received
	genDone    int32
	ticks      int32
	fireAt     int32
	gate       chan struct{}
	ctx        context.Context
	cancelCtx  context.CancelFunc
	errs       []*c07Err
	errR       *c07Err
	rngMu      sync.Mutex
	rng        *rand.Rand
	tr         *kit.Tracer // recording pass only
	// directed scenarios: the generator is held before item 2 until the reducer has written; the reducer is held
	// before its write until the driver has observed the cancel / the context to be recorded inside the call
	// "workers-held": every mapper waits inside the user function until the driver has seen the whole call at rest
	genGate, redGate, holdGate chan struct{}
	genOnce, redOnce, holdOnce sync.Once
}

// gated: the directed scenarios that hold the generator before item 2 and the reducer before its write
func (r *c07Run) gated() bool {
	return r.sc.Order == "cancel-before-write" || r.sc.Order == "ctx-before-write"
}

func (r *c07Run) openGen()  { r.genOnce.Do(func() { close(r.genGate) }) }
func (r *c07Run) openRed()  { r.redOnce.Do(func() { close(r.redGate) }) }
func (r *c07Run) openHold() { r.holdOnce.Do(func() { close(r.holdGate) }) }

func (r *c07Run) ev(name string, kv ...any) {
	if r.tr == nil {
		return
	}
	m := kit.M{"e": name}
	for i := 0; i+1 < len(kv); i += 2 {
		m[kv[i].(string)] = kv[i+1]
	}
	r.tr.Emit(m)
}

func (r *c07Run) fireCtx() {
	r.ev("ctx_done")
	r.cancelCtx()
}

func (r *c07Run) rnd(n int) int {
	r.rngMu.Lock()
	v := r.rng.Intn(n)
	r.rngMu.Unlock()
	return v
}

// jitter: seeded random yields between the visible operations of the user functions.
func (r *c07Run) jitter() {
	if r.ctx != nil && r.sc.Ctx == "during" {
		if atomic.AddInt32(&r.ticks, 1) == r.fireAt {
			r.fireCtx()
		}
	}
	switch x := r.rnd(100); {
	case x < 45:
	case x < 93:
		for i := r.rnd(3); i >= 0; i-- {
			runtime.Gosched()
		}
	case x < 98:
		for i := r.rnd(30); i >= 0; i-- {
			runtime.Gosched()
		}
	default:
		time.Sleep(time.Duration(1+r.rnd(30)) * time.Microsecond)
	}
}

// c07Value: the concrete Go value written for a value kind; `ord` is the ordinary (distinct) value.
func c07Value(kind string, ord any) any {
	switch kind {
	case "nil":
		return nil
	case "typednil":
		return (*int)(nil)
	case "zero-int":
		return 0
	case "zero-str":
		return ""
	case "false":
		return false
	}
	return ord
}

func c07Render(v any) string { return fmt.Sprintf("%T:%#v", v, v) }

func (r *c07Run) ordinary() bool { return r.sc.Val == "" || r.sc.Val == "ord" }

func (r *c07Run) generate(source chan<- any) {
	defer atomic.StoreInt32(&r.genDone, 1)
	limit := r.sc.N
	if r.sc.GenK >= 0 {
		limit = r.sc.GenK
	}
	for i := 1; i <= limit; i++ {
		r.jitter()
		if r.gated() && i == 2 {
			<-r.genGate
		}
		r.ev("gen_send", "i", i)
		source <- i
	}
	r.jitter()
	if r.sc.GenK >= 0 {
		panic(c07UserPanic("PGEN"))
	}
}

func (r *c07Run) enter(i int) {
	atomic.AddInt32(&r.mapped[i], 1)
	n := atomic.AddInt32(&r.running, 1)
	for {
		m := atomic.LoadInt32(&r.maxRunning)
		if n <= m || atomic.CompareAndSwapInt32(&r.maxRunning, m, n) {
			break
		}
	}
}

// mapItem acts out mb[i]; write/cancel are nil where the entry point has none.
func (r *c07Run) mapItem(i int, write func(v any), cancel func(error)) error {
	r.enter(i)
	r.ev("map_begin", "i", i)
	defer func() {
		r.ev("map_end", "i", i)
		atomic.AddInt32(&r.running, -1)
	}()
	if r.sc.Order == "workers-held" {
		<-r.holdGate
	}
	r.jitter()
	switch b := r.sc.MB[i-1]; b {
	case "w0":
	case "w1", "w2":
		for k := 1; k <= int(b[1]-'0'); k++ {
			if r.ordinary() {
				r.ev("map_write", "v", i*10+k)
			}
			write(c07Value(r.sc.Val, i*10+k))
			r.jitter()
		}
	case "cancelE":
		r.ev("cancel_begin", "c", i)
		if cancel == nil { // Finish: the function returns the error
			return r.errs[i]
		}
		cancel(r.errs[i])
		r.ev("cancel_end", "c", i)
	case "cancelNil":
		r.ev("cancel_begin", "c", i)
		cancel(nil)
		r.ev("cancel_end", "c", i)
	case "panic":
		panic(c07UserPanic("P" + strconv.Itoa(i)))
	case "latepanic":
		<-r.gate
		r.jitter()
		panic(c07UserPanic("P" + strconv.Itoa(i)))
	default:
		panic("c07 driver: unknown mapper behaviour " + b)
	}
	r.jitter()
	return nil
}

func (r *c07Run) reduce(pipe <-chan any, write func(v any), cancel func(error)) {
	cnt := 0
	if r.sc.RStop != 0 {
		for v := range pipe {
			r.mu.Lock()
			r.received = append(r.received, c07Render(v))
			r.mu.Unlock()
			if r.ordinary() {
				r.ev("red_recv", "v", v)
			}
			cnt++
			r.jitter()
			if r.sc.RStop > 0 && cnt >= r.sc.RStop {
				break
			}
		}
	}
	if r.gated() {
		<-r.redGate
	}
	for k := 1; k <= r.sc.RW; k++ {
		r.jitter()
		r.ev("red_write", "k", k)
		write(c07Value(r.sc.Val, "R"+strconv.Itoa(k)))
	}
	if r.gated() {
		r.openGen()
	}
	r.jitter()
	switch r.sc.REnd {
	case "ret":
	case "panic":
		panic(c07UserPanic("PRED"))
	case "latepanic":
		<-r.gate
		r.jitter()
		panic(c07UserPanic("PRED"))
	case "cancel":
		r.ev("cancel_begin", "c", 0)
		cancel(r.errR)
		r.ev("cancel_end", "c", 0)
	}
}

func (r *c07Run) classify(v any, err error, p any, panicked bool) c07Outcome {
	if panicked {
		switch x := p.(type) {
		case c07UserPanic:
			return c07Outcome{"panic", string(x)}
		case runtime.Error:
			return c07Outcome{"panic", "RT:" + x.Error()}
		}
		return c07Outcome{"panic", "FOREIGN"}
	}
	if err == nil {
		switch r.sc.API {
		case "MapReduce", "MapReduceChan":
			if r.ordinary() {
				return c07Outcome{"ret", fmt.Sprint(v)}
			}
			// "R1" = the value of the reducer's first write, whatever it is (same dynamic type, same value)
			if c07Render(v) == c07Render(c07Value(r.sc.Val, "R1")) {
				return c07Outcome{"ret", "R1"}
			}
			return c07Outcome{"ret", "other:" + c07Render(v)}
		}
		return c07Outcome{"ret", "NIL"}
	}
	switch {
	case errors.Is(err, mr.ErrReduceNoOutput):
		return c07Outcome{"err", "NOOUTPUT"}
	case errors.Is(err, mr.ErrCancelWithNil):
		return c07Outcome{"err", "CANCELNIL"}
	case errors.Is(err, context.DeadlineExceeded):
		return c07Outcome{"err", "DEADLINE"}
	case err == error(r.errR):
		return c07Outcome{"err", "ER"}
	}
	for i := 1; i <= r.sc.N; i++ {
		if err == error(r.errs[i]) {
			return c07Outcome{"err", "E" + strconv.Itoa(i)}
		}
	}
	return c07Outcome{"err", "other:" + err.Error()}
}

// call runs the entry point in the calling goroutine.
func (r *c07Run) call(src chan any) (out c07Outcome) {
	var v any
	var err error
	defer func() {
		if p := recover(); p != nil {
			out = r.classify(nil, nil, p, true)
		}
		r.ev("ret", "kind", out.Kind, "val", out.Val)
	}()
	sc := r.sc
	opts := []mr.Option{mr.WithWorkers(sc.Workers)}
	if r.ctx != nil {
		opts = append(opts, mr.WithContext(r.ctx))
	}
	mapper := func(item any, w mr.Writer, cancel func(error)) {
		r.mapItem(item.(int), w.Write, cancel)
	}
	reducer := func(pipe <-chan any, w mr.Writer, cancel func(error)) { r.reduce(pipe, w.Write, cancel) }
	switch sc.API {
	case "MapReduce":
		v, err = mr.MapReduce(r.generate, mapper, reducer, opts...)
	case "MapReduceChan":
		v, err = mr.MapReduceChan(src, mapper, reducer, opts...)
	case "MapReduceVoid":
		err = mr.MapReduceVoid(r.generate, mapper, func(pipe <-chan any, cancel func(error)) { r.reduce(pipe, nil, cancel) }, opts...)
	case "ForEach":
		mr.ForEach(r.generate, func(item any) { r.mapItem(item.(int), nil, nil) }, opts...)
	case "Finish":
		fns := make([]func() error, sc.N)
		for i := range fns {
			i := i
			fns[i] = func() error { return r.mapItem(i+1, nil, nil) }
		}
		err = mr.Finish(fns...)
	case "FinishVoid":
		fns := make([]func(), sc.N)
		for i := range fns {
			i := i
			fns[i] = func() { r.mapItem(i+1, nil, nil) }
		}
		mr.FinishVoid(fns...)
	default:
		panic("c07 driver: unknown api " + sc.API)
	}
	out = r.classify(v, err, nil, false)
	return out
}

// ------------------------------------------------------------------ the judge

type c07Judge struct {
	self      int
	leftovers map[int]bool // goroutines proven blocked for ever by earlier failures (they stay in the process)
	rep       *kit.Reporter
	tr        *kit.Tracer // recording pass: user-level events for spec/MRTrace.tla
}

type c07Fail struct {
	key, msg string
	infra    bool
}

func (j *c07Judge) related(snap []c07G) []c07G {
	var out []c07G
	for _, g := range snap {
		if g.related && g.id != j.self && !j.leftovers[g.id] {
			out = append(out, g)
		}
	}
	return out
}

// waitRecorded polls goroutine snapshots of a directed scenario.
//
//	1  the cancel is known to be recorded inside the call: cancel's body records the error first and then drains the
//	   source, where it must block because the generator is held; so a goroutine inside mr.drain below the mapper's
//	   cancel (or below the caller's context branch) proves the recording;
//	2  the whole call is at rest (every goroutine of it blocked on a channel / lock, in two stop-the-world snapshots
//	   50 ms apart) without that;  for "workers-held" this is the state waited for;
//	0  the call returned first;  -1  none of these within 20 s (the call is still making progress / machine stalled).
func (j *c07Judge) waitRecorded(order string, callDone chan struct{}) int {
	mark := "(*c07Run).mapItem"
	if order == "ctx-before-write" {
		mark = "(*c07Run).call("
	}
	deadline := time.Now().Add(20 * time.Second)
	rest := 50 * time.Millisecond
	if order == "workers-held" { // the state waited for, not an accusation: a second snapshot shortly after suffices
		rest = 5 * time.Millisecond
	}
	var restSince time.Time
	for i := 0; ; i++ {
		select {
		case <-callDone:
			return 0
		default:
		}
		if i < 20 {
			runtime.Gosched()
			continue
		}
		gs := j.related(c07Snapshot())
		if order != "workers-held" {
			for _, g := range gs {
				if c07Blocked(g.state) && strings.Contains(g.text, "god/lib/mr.drain") && strings.Contains(g.text, mark) {
					return 1
				}
			}
		}
		if len(gs) > 0 && allBlocked(gs) {
			if restSince.IsZero() {
				restSince = time.Now()
			} else if time.Since(restSince) >= rest {
				select {
				case <-callDone:
					return 0
				default:
				}
				return 2
			}
		} else {
			restSince = time.Time{}
		}
		if time.Now().After(deadline) {
			return -1
		}
		time.Sleep(100 * time.Microsecond)
	}
}

func c07Describe(gs []c07G) string {
	var w []string
	for _, g := range gs {
		w = append(w, fmt.Sprintf("g%d %s", g.id, c07Where(g)))
	}
	sort.Strings(w)
	return strings.Join(w, "; ")
}

func c07Full(gs []c07G) string {
	var b strings.Builder
	for _, g := range gs {
		b.WriteString(g.text)
		b.WriteString("\n\n")
	}
	s := b.String()
	if len(s) > 6000 {
		s = s[:6000] + "...[cut]"
	}
	return s
}

func allBlocked(gs []c07G) bool {
	for _, g := range gs {
		if !c07Blocked(g.state) {
			return false
		}
	}
	return true
}

func anyIn(gs []c07G, fn string) bool {
	for _, g := range gs {
		if c07InFunc(g, fn) {
			return true
		}
	}
	return false
}

func (j *c07Judge) adopt(gs []c07G) {
	for _, g := range gs {
		j.leftovers[g.id] = true
	}
}

func (j *c07Judge) runOnce(sc *c07Scenario, seed int64) *c07Fail {
	r := &c07Run{sc: sc, seed: seed, mapped: make([]int32, sc.N+1), gate: make(chan struct{}),
		errs: make([]*c07Err, sc.N+1), errR: &c07Err{"ER"}, rng: rand.New(rand.NewSource(seed)), tr: j.tr,
		genGate: make(chan struct{}), redGate: make(chan struct{}), holdGate: make(chan struct{})}
	for i := 1; i <= sc.N; i++ {
		r.errs[i] = &c07Err{"E" + strconv.Itoa(i)}
	}
	r.ev("reset", "kind", "trace", "api", sc.API, "n", sc.N, "workers", sc.Workers, "mapAll", sc.MapAll, "deliverAll", sc.DeliverAll,
		"written", sc.Written, "allowed", sc.Allowed, "cerr", sc.CErr, "pregen", sc.API == "Finish" || sc.API == "FinishVoid",
		"scenario", sc.String())
	ctlDone := int32(1)
	switch sc.Ctx {
	case "before":
		r.ctx, r.cancelCtx = context.WithCancel(context.Background())
		r.fireCtx()
	case "during":
		r.ctx, r.cancelCtx = context.WithCancel(context.Background())
		r.fireAt = int32(r.rnd(3*sc.N + 8)) // 0: from the controller right away
		ctlDone = 0
		if r.gated() { // directed: the driver itself cancels the context, right after the call was started
			r.fireAt, ctlDone = -1, 1
		}
	}
	base := runtime.NumGoroutine()

	var src chan any
	feederDone, feederQuit := make(chan struct{}), make(chan struct{})
	if sc.API == "MapReduceChan" {
		src = make(chan any)
		go func() { // the driver's own producer; the channel is always closed
			defer close(feederDone)
			defer close(src)
			for i := 1; i <= sc.N; i++ {
				r.jitter()
				if r.gated() && i == 2 {
					<-r.genGate
				}
				r.ev("gen_send", "i", i)
				select {
				case src <- i:
				case <-feederQuit:
					return
				}
			}
			atomic.StoreInt32(&r.genDone, 1)
		}()
	} else {
		close(feederDone)
	}
	hasGen := sc.API == "MapReduce" || sc.API == "MapReduceVoid" || sc.API == "ForEach"

	var out c07Outcome
	callDone := make(chan struct{})
	go func() {
		defer close(callDone)
		out = r.call(src)
	}()
	if sc.Ctx == "during" && !r.gated() {
		go func() { // makes sure the context becomes done even if the run is stuck before tick fireAt
			defer atomic.StoreInt32(&ctlDone, 1)
			if r.fireAt > 0 {
				returned := func() bool {
					select {
					case <-callDone:
						return true
					default:
						return false
					}
				}
				for i := 0; i < 2000 && atomic.LoadInt32(&r.ticks) < r.fireAt && !returned(); i++ {
					runtime.Gosched()
				}
				if atomic.LoadInt32(&r.ticks) < r.fireAt && !returned() {
					time.Sleep(time.Duration(100+r.rnd(900)) * time.Microsecond)
				}
			}
			r.fireCtx()
		}()
	}

	// ---- directed scenarios
	defer r.openGen()
	defer r.openRed()
	defer r.openHold()
	// abandon: after a verdict in the middle of a directed scenario, let the call run to its end
	abandon := func() {
		r.openRed()
		r.openGen()
		r.openHold()
		close(r.gate)
		select {
		case <-callDone:
		case <-time.After(5 * time.Second):
		}
		for i := 0; i < 2000 && runtime.NumGoroutine() > base; i++ {
			time.Sleep(500 * time.Microsecond)
		}
		if runtime.NumGoroutine() > base {
			j.adopt(j.related(c07Snapshot()))
		}
	}
	switch {
	case sc.Order == "workers-held":
		// every mapper waits inside the user function: once the whole call is at rest, the number inside is exact
		switch j.waitRecorded(sc.Order, callDone) {
		case 2:
			j.rep.Count("workers_held_at_rest", 1)
			j.rep.Count("workers_held_inside_"+strconv.Itoa(int(atomic.LoadInt32(&r.running))), 1)
		case 0:
		default:
			gs := j.related(c07Snapshot())
			abandon()
			return &c07Fail{infra: true, msg: fmt.Sprintf("%s: the call did not come to rest with its mappers held within 20s: %s", sc, c07Describe(gs))}
		}
		r.openHold() // the bound itself is judged below, like in every scenario without cancellation (maxRunning)
	case r.gated():
		// establish the ordering, then release the reducer
		if sc.Order == "ctx-before-write" {
			r.fireCtx()
		}
		switch j.waitRecorded(sc.Order, callDone) {
		case 1:
			j.rep.Count("ordering_established."+sc.Order, 1)
			if sc.Order == "ctx-before-write" {
				r.ev("ctx_recorded")
			} else {
				r.ev("cancel_recorded", "c", 1)
			}
		case 0: // the call returned before anything could be observed: no ordering is claimed
			j.rep.Count("ordering_not_established", 1)
		case 2:
			gs := j.related(c07Snapshot())
			if sc.Order == "ctx-before-write" {
				// the driver has cancelled the context it passed to the call; the whole call is at rest (twice, 50 ms
				// apart, in stop-the-world snapshots) and the caller has not reacted: the context is ignored
				abandon()
				return &c07Fail{key: "C07:ctx:ignored:" + sc.API,
					msg: fmt.Sprintf("%s: the context passed with WithContext was cancelled by the driver, yet the call stays at rest without "+
						"handling it (a done context must make it return DeadlineExceeded): %s\n%s", sc, c07Describe(gs), c07Full(gs))}
			}
			abandon()
			return &c07Fail{infra: true, msg: fmt.Sprintf("%s: the call is at rest but no goroutine is inside cancel's drain of the source: %s", sc, c07Describe(gs))}
		default:
			gs := j.related(c07Snapshot())
			abandon()
			return &c07Fail{infra: true, msg: fmt.Sprintf("%s: the cancel was not seen to be recorded (no goroutine inside cancel's drain of the source) within 20s, and the call is not at rest: %s", sc, c07Describe(gs))}
		}
		r.openRed()
	}

	// ---- the call returns
	start := time.Now()
	wait := 10 * time.Millisecond
	returned := false
	for !returned {
		select {
		case <-callDone:
			returned = true
		case <-time.After(wait):
			if atomic.LoadInt32(&ctlDone) == 0 {
				continue
			}
			gs := j.related(c07Snapshot())
			select {
			case <-callDone:
				returned = true
				continue
			default:
			}
			if len(gs) > 0 && allBlocked(gs) {
				// proven: nothing of this call can ever run again, and the call has not returned
				j.adopt(gs)
				close(r.gate) // lets nothing go (everything is blocked), kept for symmetry
				class := "other"
				var caller []c07G
				for _, g := range gs {
					if strings.Contains(g.text, "(*c07Run).call(") { // the method frame itself, not its closures
						caller = append(caller, g)
					}
				}
				switch {
				case anyIn(gs, "(*onceChan).write") && anyIn(caller, "mapReduceWithPanicChan.func1"):
					class = "panic-after-output-accepted" // caller sits in the deferred `for range output`
				case anyIn(gs, "(*onceChan).write") && (anyIn(caller, "mapReduceWithPanicChan.func3") || anyIn(caller, "mapReduceWithPanicChan.once.")):
					class = "panic-while-caller-cancels" // caller sits in cancel: in its drain(source), or waiting for the once
				case anyIn(gs, "(*onceChan).write"):
					class = "panic-write-unread"
				}
				return &c07Fail{key: "C07:hang:" + class,
					msg: fmt.Sprintf("%s: the call never returns: every goroutine of the call is blocked: %s\n%s", sc, c07Describe(gs), c07Full(gs))}
			}
			if time.Since(start) > 30*time.Second {
				j.adopt(gs)
				return &c07Fail{infra: true, msg: fmt.Sprintf("%s: call did not return within 30s but is not provably blocked: %s", sc, c07Describe(gs))}
			}
			if wait < 200*time.Millisecond {
				wait *= 2
			}
		}
	}
	close(r.gate)
	if r.cancelCtx != nil {
		defer r.cancelCtx()
	}

	// ---- result
	j.rep.Count("result."+out.Kind, 1)
	ok := false
	for _, a := range sc.Allowed {
		if a == out {
			ok = true
		}
	}
	var fail *c07Fail
	if !ok {
		var al []string
		kinds := map[string]bool{}
		for _, a := range sc.Allowed {
			al = append(al, a.Kind+"("+a.Val+")")
			kinds[a.Kind] = true
		}
		var ks []string
		for k := range kinds {
			ks = append(ks, k)
		}
		sort.Strings(ks)
		key := "C07:result:got-" + out.Kind + "-" + c07ValClass(out.Val) + ":want-" + strings.Join(ks, "|")
		switch {
		case sc.Order != "":
			// the driver had seen the cancel / the context recorded inside the call before it let the reducer write
			key = "C07:order:" + sc.Order + ":got-" + out.Kind + "-" + c07ValClass(out.Val)
		case out.Kind == "panic" && strings.Contains(out.Val, "send on closed channel"):
			// finish() closed `output` between the reducer's guardedWriter check and its send
			key = "C07:result:send-on-closed-output"
		case sc.Ctx != "bg" && (out == c07Outcome{"err", "NOOUTPUT"} || out == c07Outcome{"ret", "NIL"}):
			// the context was done, the reducer's write was dropped (or it wrote nothing) and the caller's select
			// took the closed `output` instead of ctx.Done()
			key = "C07:result:no-output-instead-of-deadline"
		}
		fail = &c07Fail{key: key,
			msg: fmt.Sprintf("%s: call produced %s(%s), the contract allows {%s}", sc, out.Kind, out.Val, strings.Join(al, ", "))}
	}

	// ---- quiescence: generator function returned, nothing of the call left
	deadline := time.Now().Add(30 * time.Second)
	select {
	case <-feederDone:
	case <-time.After(2 * time.Second): // nobody reads the source any more: not promised for MapReduceChan
		close(feederQuit)
		<-feederDone
		j.rep.Count("source_not_drained", 1)
	}
	for atomic.LoadInt32(&ctlDone) == 0 { // the driver's own context controller ends right after the call returned
		runtime.Gosched()
	}
	var survivors []c07G
	for i := 0; ; i++ {
		if runtime.NumGoroutine() <= base && (!hasGen || atomic.LoadInt32(&r.genDone) == 1) {
			break
		}
		if i < 300 {
			runtime.Gosched()
			continue
		}
		if i%8 != 0 && time.Now().Before(deadline) {
			time.Sleep(200 * time.Microsecond)
			continue
		}
		gs := j.related(c07Snapshot())
		if len(gs) == 0 {
			break
		}
		if allBlocked(gs) {
			survivors = gs
			break
		}
		if time.Now().After(deadline) {
			// something of the call is still runnable: not a leak that can be proven, so not a verdict
			j.adopt(gs)
			return &c07Fail{infra: true, msg: fmt.Sprintf("%s: goroutines of the call still running 30s after the call returned: %s", sc, c07Describe(gs))}
		}
		time.Sleep(time.Millisecond)
	}
	if len(survivors) > 0 {
		j.adopt(survivors)
		if hasGen && atomic.LoadInt32(&r.genDone) == 0 {
			// the user's generator is still inside `source <- item`: the statement promises nothing yet
			j.rep.Count("generator_never_returned", 1)
		} else if fail == nil {
			class := "other"
			if anyIn(survivors, "(*onceChan).write") {
				switch {
				case out.Kind == "err" && out.Val == "DEADLINE":
					class = "panic-after-ctx-return"
				case out.Kind == "err" && out.Val != "NOOUTPUT":
					class = "panic-after-cancel-return"
				case out.Kind == "panic":
					class = "panic-after-panic-return"
				default:
					class = "panic-after-result-return"
				}
			}
			how := "proven blocked for ever"
			fail = &c07Fail{key: "C07:leak:" + class,
				msg: fmt.Sprintf("%s: call returned %s(%s); %d goroutine(s) of the call left (%s): %s\n%s",
					sc, out.Kind, out.Val, len(survivors), how, c07Describe(survivors), c07Full(survivors))}
		}
	}
	if fail != nil {
		return fail
	}
	r.ev("end")
	j.rep.Count("leakchecks", 1)
	if !r.ordinary() && (out == c07Outcome{"ret", "R1"}) {
		// vacuity guard of the value dimension: the call returned (v, nil) with v identical to the reducer's single write
		j.rep.Count("value."+sc.Val+".returned", 1)
	}

	// ---- exactly once / bounded workers (scenarios without cancellation only)
	if sc.MapAll {
		j.rep.Count("exactly_once_checks", 1)
		for i := 1; i <= sc.N; i++ {
			if m := atomic.LoadInt32(&r.mapped[i]); m != 1 {
				k := "never"
				if m > 1 {
					k = "twice"
				}
				return &c07Fail{key: "C07:exactly-once:item-mapped-" + k,
					msg: fmt.Sprintf("%s: item %d was passed to the mapper %d times", sc, i, m)}
			}
		}
		if m := atomic.LoadInt32(&r.maxRunning); int(m) > sc.Workers {
			return &c07Fail{key: "C07:workers-exceeded",
				msg: fmt.Sprintf("%s: %d mappers ran at the same time, workers=%d", sc, m, sc.Workers)}
		}
		if sc.N > 0 {
			j.rep.Count("maxrunning_"+strconv.Itoa(int(atomic.LoadInt32(&r.maxRunning))), 1)
		}
	}
	if sc.DeliverAll {
		r.mu.Lock()
		got := append([]string(nil), r.received...)
		r.mu.Unlock()
		sort.Strings(got)
		var want []string
		for _, id := range sc.Written {
			want = append(want, c07Render(c07Value(sc.Val, id)))
		}
		sort.Strings(want)
		if fmt.Sprint(got) != fmt.Sprint(want) {
			k := "value-lost"
			if len(got) > len(want) {
				k = "value-duplicated"
			}
			return &c07Fail{key: "C07:exactly-once:" + k,
				msg: fmt.Sprintf("%s: reducer received %v, mappers wrote %v", sc, got, want)}
		}
		if !r.ordinary() && len(want) > 0 {
			// vacuity guard: mapper writes of this value kind were compared (as a multiset) with what the reducer received
			j.rep.Count("value."+sc.Val+".delivered", len(want))
		}
	}
	return nil
}

func c07ValClass(v string) string {
	switch {
	case strings.HasPrefix(v, "RT:"):
		return "runtime-error"
	case strings.HasPrefix(v, "other:"):
		return "other"
	case v == "PRED" || v == "PGEN" || (len(v) > 1 && v[0] == 'P' && v[1] >= '0' && v[1] <= '9'):
		return "userpanic"
	case len(v) > 1 && v[0] == 'E' && (v[1] == 'R' || (v[1] >= '0' && v[1] <= '9')):
		return "cancelerr"
	case len(v) > 1 && v[0] == 'R' && v[1] >= '0' && v[1] <= '9':
		return "value"
	}
	return strings.ToLower(v)
}

func TestVerifC07(t *testing.T) {
	cases, err := kit.LoadCases(kit.Env("VERIF_CASES", ""))
	if err != nil {
		t.Fatal(err)
	}
	rep, err := kit.NewReporter(kit.Env("VERIF_OUT", ""))
	if err != nil {
		t.Fatal(err)
	}
	defer rep.Close()
	shard, shards := kit.EnvInt("VERIF_SHARD", 0), kit.EnvInt("VERIF_SHARDS", 1)
	reps := kit.EnvInt("VERIF_REPS", 10)
	j := &c07Judge{self: c07SelfID(), leftovers: map[int]bool{}, rep: rep}
	if p := kit.Env("VERIF_TRACE", ""); p != "" {
		tr, err := kit.NewTracer(p)
		if err != nil {
			t.Fatal(err)
		}
		defer tr.Close()
		j.tr = tr
	}
	procs := runtime.GOMAXPROCS(0)
	// On a tree with a defect whole families of scenarios fail for the same reason, each failure leaving
	// goroutines blocked for ever in this process.  After `limit` failures of scenarios with the same
	// signature (entry point family, kinds of causes present) the remaining scenarios of that signature are
	// not run any more (counted as skipped_after_failures).  Nothing is skipped on a tree that conforms.
	limit := kit.EnvInt("VERIF_FAILCAP", 2)
	failed := map[string]int{}
	for _, c := range cases {
		if c.Index%shards != shard {
			continue
		}
		var sc c07Scenario
		if err := json.Unmarshal(c.Raw, &sc); err != nil {
			rep.Put(kit.Verdict{Case: c.Index, Infra: true, Msg: "bad case: " + err.Error()})
			continue
		}
		sig := c07Signature(&sc)
		if failed[sig] >= limit {
			rep.Count("skipped_after_failures", 1)
			continue
		}
		v := kit.Verdict{Case: c.Index, OK: true}
		n := reps
		if sc.Order != "" { // the few directed scenarios are repeated more often
			n = 5 * reps
		}
		for k := 0; k < n; k++ {
			seed := kit.Seed()*1000003 + int64(c.Index)*7919 + int64(k)*104729 + int64(procs)
			f := j.runOnce(&sc, seed)
			v.Steps++
			if f != nil {
				v.OK, v.Step, v.Key, v.Msg, v.Infra = false, k, f.key, f.msg, f.infra
				if strings.HasPrefix(f.key, "C07:hang:") || strings.HasPrefix(f.key, "C07:leak:") {
					failed[sig]++ // only failures that leave goroutines behind count towards the limit
				}
				break
			}
		}
		rep.Put(v)
	}
	rep.Count("leftover_goroutines", len(j.leftovers))
	c07RaceReports(rep)
}

var c07RaceFn = regexp.MustCompile(`(?m)^\s+github\.com/gotid/god/lib/mr\.(\S+)\(\)`)

// c07RaceReports turns the race detector's reports of this process (GORACE log_path) into verdicts, keyed by the
// topmost lib/mr function of each of the two conflicting accesses.
func c07RaceReports(rep *kit.Reporter) {
	prefix := kit.Env("VERIF_RACELOG", "")
	if prefix == "" {
		return
	}
	data, err := os.ReadFile(prefix + "." + strconv.Itoa(os.Getpid()))
	if err != nil {
		return
	}
	seen := map[string]bool{}
	for _, r := range strings.Split(string(data), "WARNING: DATA RACE\n")[1:] {
		rep.Count("race_reports", 1)
		var fns []string
		for i, blk := range strings.Split(r, "\n\n") {
			if i >= 2 {
				break
			}
			fn := "?"
			if m := c07RaceFn.FindStringSubmatch(blk); m != nil {
				fn = m[1]
			}
			fns = append(fns, fn)
		}
		sort.Strings(fns)
		key := "C07:data-race:" + strings.Join(fns, "+")
		if seen[key] {
			continue
		}
		seen[key] = true
		if len(r) > 3500 {
			r = r[:3500]
		}
		rep.Put(kit.Verdict{Case: -1, Key: key, Msg: "race detector report while running the scenarios (GOMAXPROCS=" +
			strconv.Itoa(runtime.GOMAXPROCS(0)) + "):\nWARNING: DATA RACE\n" + r})
	}
}

func c07Signature(sc *c07Scenario) string {
	fam := "mr"
	switch sc.API {
	case "ForEach", "FinishVoid":
		fam = "foreach"
	case "Finish":
		fam = "finish"
	}
	var pan, late, can bool
	for _, b := range sc.MB {
		pan = pan || b == "panic"
		late = late || b == "latepanic"
		can = can || b == "cancelE" || b == "cancelNil"
	}
	return fmt.Sprintf("%s|panic=%v|late=%v|cancel=%v|ctx=%s|genpanic=%v|rw=%v|rstopall=%v|rend=%s", fam, pan, late, can, sc.Ctx, sc.GenK >= 0,
		sc.RW > 0, sc.RStop == -1, sc.REnd)
}
