// Package model (declaration set A) is overlaid by /verif (property C11) at
// internal/verifc11/a/model.  Together with declaration set B (internal/verifc11/b/model, also
// `package model`) it gives the replay driver destination types that are different types and
// print the same name: reflect.Type.String() of both Account types is "model.Account".
// The layouts (which column the db tag of field i names) are those of the catalogue in
// checks/c11.py (spec/RowMapHist.tla, constant Decl); the driver checks them against it.
package model

// Account: layout <<1, 2>>.
type Account struct {
	F1 int64  `db:"userid"`
	F2 string `db:"nickname"`
}

// Member: layout <<1, 2, 3>>.
type Member struct {
	F1 int64   `db:"userid"`
	F2 string  `db:"nickname"`
	F3 float64 `db:"agemax"`
}

// Profile: layout <<1, 2>> (declaration set B has three fields).
type Profile struct {
	F1 int32 `db:"userid"`
	F2 int64 `db:"nickname"`
}
