package sqlx

// Test-export file overlaid by /verif (property C11) next to the external driver package
// sqlx_test.  The statement's "exactly one Commit / exactly one Rollback" is judged at two layers
// (spec/Tx.tla): the calls that reach the database driver (counted by the driver wrapper of
// sqlx_test) and the calls the transaction manager makes on the transaction handle it holds.
// database/sql answers a second Commit/Rollback on a finished *sql.Tx by itself (sql.ErrTxDone),
// so the second layer is only visible here: the Conn's own beginTx is wrapped so that every
// handle it produces counts the manager's Commit()/Rollback() calls and forwards them unchanged.

import (
	"database/sql"
	"fmt"
	"sync/atomic"
)

// VerifEndings counts, for one Conn, the ending calls made on its transaction handles.
type VerifEndings struct {
	Begun     atomic.Int32 // handles produced by beginTx
	Commits   atomic.Int32 // calls of Commit()
	Rollbacks atomic.Int32 // calls of Rollback()
	Late      atomic.Int32 // ending calls on a handle that had already been ended
}

type verifTrans struct {
	trans
	cnt   *VerifEndings
	ended atomic.Bool
}

func (t *verifTrans) Commit() error {
	t.cnt.Commits.Add(1)
	if t.ended.Swap(true) {
		t.cnt.Late.Add(1)
	}
	return t.trans.Commit()
}

func (t *verifTrans) Rollback() error {
	t.cnt.Rollbacks.Add(1)
	if t.ended.Swap(true) {
		t.cnt.Late.Add(1)
	}
	return t.trans.Rollback()
}

// VerifCountEndings makes every transaction handle that c begins from now on count into cnt.
// Only the observation is added: the handle is the one c's own beginTx produced.
func VerifCountEndings(c Conn, cnt *VerifEndings) error {
	cc, ok := c.(*commonConn)
	if !ok {
		return fmt.Errorf("c11: Conn is a %T, not the package's commonConn", c)
	}
	if cc.beginTx == nil {
		return fmt.Errorf("c11: the Conn has no beginTx")
	}
	inner := cc.beginTx
	cc.beginTx = func(db *sql.DB) (trans, error) {
		t, err := inner(db)
		if err != nil || t == nil {
			return t, err
		}
		cnt.Begun.Add(1)
		return &verifTrans{trans: t, cnt: cnt}, nil
	}
	return nil
}
