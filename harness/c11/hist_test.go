package sqlx_test

// Replay driver for the histories of spec/RowMapHistGen.tla (property C11, row mapping over a
// sequence of queries in one process).  A history is a JSON array of "hquery" steps; each step
// names a DECLARED destination type of the catalogue (declaration id, printed name, layout), an
// access path, a destination form and a result set, and carries the set of outcomes the
// specification allows (the rows filled by the type's own db tags).
//
// The declared types print the same name although they are different types:
//   - model.Account / model.Member / model.Profile of the two overlaid packages
//     internal/verifc11/a/model and internal/verifc11/b/model (both `package model`),
//   - the function-local types account / member / profile of c11LocalsA and c11LocalsB and the
//     package-level type account below (all print "sqlx_test.<name>").
// Before anything is judged the driver checks each declaration against the step (printed name,
// number of fields, db tag of every field): a catalogue that does not match the declarations is a
// harness problem, never a verdict.
//
// All histories of a shard run in one process, in an order shuffled by VERIF_SEED (see
// TestVerifC11): nothing may be carried from one query to the next, so every concatenation of
// histories is a history.

import (
	"database/sql/driver"
	"errors"
	"fmt"
	"reflect"
	"strings"

	"github.com/DATA-DOG/go-sqlmock"
	kit "github.com/gotid/god/internal/verifkit"
	ma "github.com/gotid/god/internal/verifc11/a/model"
	mb "github.com/gotid/god/internal/verifc11/b/model"
	"github.com/gotid/god/lib/store/sqlx"
)

// account (package level): layout <<3, 1>>; prints "sqlx_test.account" like the two local types.
type account struct {
	F1 string `db:"agemax"`
	F2 int64  `db:"userid"`
}

func c11LocalsA() map[string]reflect.Type {
	type account struct { // layout <<1, 2>>
		F1 int64  `db:"userid"`
		F2 string `db:"nickname"`
	}
	type member struct { // layout <<1, 2, 3>>
		F1 string `db:"userid"`
		F2 int64  `db:"nickname"`
		F3 int32  `db:"agemax"`
	}
	type profile struct { // layout <<1, 2, 3>>
		F1 float64 `db:"userid"`
		F2 int64   `db:"nickname"`
		F3 string  `db:"agemax"`
	}
	return map[string]reflect.Type{
		"fnA.account": reflect.TypeOf(account{}),
		"fnA.member":  reflect.TypeOf(member{}),
		"fnA.profile": reflect.TypeOf(profile{}),
	}
}

func c11LocalsB() map[string]reflect.Type {
	type account struct { // layout <<2, 1>>
		F1 int64  `db:"nickname"`
		F2 string `db:"userid"`
	}
	type member struct { // layout <<2, 3, 1>>
		F1 string `db:"nickname"`
		F2 int64  `db:"agemax"`
		F3 int32  `db:"userid"`
	}
	type profile struct { // layout <<3, 1>> (c11LocalsA's has three fields)
		F1 float64 `db:"agemax"`
		F2 int64   `db:"userid"`
	}
	return map[string]reflect.Type{
		"fnB.account": reflect.TypeOf(account{}),
		"fnB.member":  reflect.TypeOf(member{}),
		"fnB.profile": reflect.TypeOf(profile{}),
	}
}

// c11Declared maps the catalogue's declaration ids to the Go types.
var c11Declared = func() map[string]reflect.Type {
	m := map[string]reflect.Type{
		"pkgA.Account": reflect.TypeOf(ma.Account{}), "pkgB.Account": reflect.TypeOf(mb.Account{}),
		"pkgA.Member": reflect.TypeOf(ma.Member{}), "pkgB.Member": reflect.TypeOf(mb.Member{}),
		"pkgA.Profile": reflect.TypeOf(ma.Profile{}), "pkgB.Profile": reflect.TypeOf(mb.Profile{}),
		"top.account": reflect.TypeOf(account{}),
	}
	for _, loc := range []map[string]reflect.Type{c11LocalsA(), c11LocalsB()} {
		for id, t := range loc {
			m[id] = t
		}
	}
	return m
}()

// c11CheckDecl compares a Go declaration with what the specification's step says about it.
func c11CheckDecl(id string, t reflect.Type, st kit.M) error {
	if got, want := t.String(), kit.Str(st["name"]); got != want {
		return fmt.Errorf("declared type %s prints %q, the catalogue says %q", id, got, want)
	}
	lay := kit.List(st["lay"])
	if t.Kind() != reflect.Struct || t.NumField() != len(lay) {
		return fmt.Errorf("declared type %s is %s, the catalogue gives it %d fields", id, c11TypeText(t), len(lay))
	}
	for i, col := range lay {
		want := c11Name(kit.Num(col), "lower")
		if got := t.Field(i).Tag.Get("db"); want == "" || got != want {
			return fmt.Errorf("declared type %s: field %d is tagged db:%q, the catalogue's layout names %q", id, i+1, got, want)
		}
	}
	return nil
}

// c11DeclText prints the fields and tags of a declared type (its String() is only the name).
func c11DeclText(t reflect.Type) string {
	var f []string
	for i := 0; i < t.NumField(); i++ {
		f = append(f, fmt.Sprintf("%s %s db:'%s'", t.Field(i).Name, t.Field(i).Type, t.Field(i).Tag.Get("db")))
	}
	return "{" + strings.Join(f, "; ") + "}"
}

func runHistCase(c kit.Case, rep *kit.Reporter) (v kit.Verdict) {
	v = kit.Verdict{Case: c.Index, OK: true}
	seen := map[reflect.Type]bool{} // destination types filled earlier in this history
	var trail []string
	for k, st := range c.Steps {
		if kit.Str(st["op"]) != "hquery" {
			return infra(c, "expected an hquery step, got "+kit.Canon(st))
		}
		id := kit.Str(st["t"])
		elem, ok := c11Declared[id]
		if !ok {
			return infra(c, "the catalogue names a type the driver does not declare: "+id)
		}
		if err := c11CheckDecl(id, elem, st); err != nil {
			return infra(c, err.Error())
		}
		for other, t := range c11Declared { // the premise of the dimension: same printed name, other type
			if other != id && t == elem {
				return infra(c, fmt.Sprintf("declarations %s and %s are one Go type", id, other))
			}
		}
		sh := &c11Shape{nf: elem.NumField(), tagged: true, emb: "none", ptrs: map[int]bool{}, dest: kit.Str(st["dest"]), elem: elem}
		var cols []string
		for _, cid := range kit.List(st["cols"]) {
			name := c11Name(kit.Num(cid), "lower")
			if name == "" {
				return infra(c, fmt.Sprintf("unknown column %d", kit.Num(cid)))
			}
			cols = append(cols, name)
		}
		via, strict, single := kit.Str(st["via"]), kit.Bool(st["strict"]), sh.dest == "one"
		if via == "nocache" && !strict {
			return infra(c, "the sqlc pass-through has no partial variant")
		}
		allow := kit.List(st["allow"])

		env, err := newC11Env()
		if err != nil {
			return infra(c, err.Error())
		}
		rows := sqlmock.NewRows(cols)
		for _, r := range kit.List(st["data"]) {
			var vals []driver.Value
			for _, cell := range kit.List(r) {
				vals = append(vals, int64(kit.Num(cell)))
			}
			rows.AddRow(vals...)
		}
		switch via {
		case "tx":
			env.mock.ExpectBegin()
			env.mock.ExpectQuery(c11Query).WillReturnRows(rows)
			env.mock.ExpectCommit()
			env.mock.ExpectRollback()
		case "stmt":
			env.mock.ExpectPrepare(c11Query).ExpectQuery().WillReturnRows(rows)
		case "conn", "nocache":
			env.mock.ExpectQuery(c11Query).WillReturnRows(rows)
		default:
			env.close()
			return infra(c, "unknown via "+via)
		}
		var dstPtr reflect.Value
		switch sh.dest {
		case "one":
			dstPtr = reflect.New(elem)
		case "vals":
			dstPtr = reflect.New(reflect.SliceOf(elem))
		case "ptrs":
			dstPtr = reflect.New(reflect.SliceOf(reflect.PointerTo(elem)))
		default:
			env.close()
			return infra(c, "unknown dest "+sh.dest)
		}

		var o c11Outcome
		func() {
			defer func() {
				if p := recover(); p != nil {
					o = c11Outcome{kind: "panic", pan: p}
				}
			}()
			e := queryVia(env, via, single, strict, dstPtr.Interface())
			switch {
			case e == nil:
				o.kind = "rows"
			case errors.Is(e, sqlx.ErrNotFound):
				o = c11Outcome{kind: "notfound", err: e}
			default:
				o = c11Outcome{kind: "error", err: e}
			}
		}()
		env.close()
		if o.kind == "rows" {
			if single {
				r, err := projectRow(sh, dstPtr.Elem())
				if err != nil {
					return infra(c, err.Error())
				}
				o.rows = [][]int{r}
			} else {
				sl := dstPtr.Elem()
				o.rows = [][]int{}
				for n := 0; n < sl.Len(); n++ {
					r, err := projectRow(sh, sl.Index(n))
					if err != nil {
						o = c11Outcome{kind: "error", err: err}
						break
					}
					o.rows = append(o.rows, r)
				}
			}
		}

		// what this history did before this query
		rel := "first-query"
		sameBefore, otherBefore := seen[elem], false
		for t := range seen {
			if t != elem {
				otherBefore = true // the specification keeps a history within one printed name
			}
		}
		switch {
		case otherBefore:
			rel = "after-other-type-of-same-name"
		case sameBefore:
			rel = "after-same-type"
		}
		kind := "local"
		if strings.HasPrefix(id, "pkg") {
			kind = "pkg"
		}
		v.Steps++
		rep.Count("hist.queries", 1)
		rep.Count("hist."+kind+"."+rel, 1)
		rep.Count("hist.via-"+via, 1)
		rep.Count("hist.dest-"+sh.dest, 1)
		trail = append(trail, fmt.Sprintf("%s(%s via %s)", id, sh.dest, via))
		if !outcomeAllowed(o, allow) {
			what := "wrong-" + o.kind
			if o.kind == "rows" {
				what = "wrong-fill"
			}
			api := map[bool]string{true: "QueryRow", false: "QueryRows"}[single]
			if !strict {
				api += "Partial"
			}
			v.OK, v.Step = false, k
			v.Key = "C11:rowmap:history:" + kind + ":" + what + ":" + rel
			v.Msg = fmt.Sprintf("query #%d of the history %s: %s via %s into %s of %s declared as %s %s, columns %v, data %s: got %s, specification allows %s "+
				"(each destination is filled by its own db tags, whatever was queried before; other histories ran earlier in this process)",
				k+1, strings.Join(trail, " -> "), api, via, sh.dest, kit.Str(st["name"]), id, c11DeclText(elem), cols, kit.Canon(st["data"]), o, allowedText(allow))
			return v
		}
		seen[elem] = true
	}
	return v
}
