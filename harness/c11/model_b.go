// Package model (declaration set B) is overlaid by /verif (property C11) at
// internal/verifc11/b/model; see declaration set A (harness/c11/model_a.go).  Same package
// name, same type names, same field names - other db tags.
package model

// Account: layout <<2, 1>>.
type Account struct {
	F1 int64  `db:"nickname"`
	F2 string `db:"userid"`
}

// Member: layout <<3, 1, 2>>.
type Member struct {
	F1 int64   `db:"agemax"`
	F2 string  `db:"userid"`
	F3 float64 `db:"nickname"`
}

// Profile: layout <<2, 3, 1>> (declaration set A has two fields).
type Profile struct {
	F1 int32  `db:"nickname"`
	F2 int64  `db:"agemax"`
	F3 string `db:"userid"`
}
